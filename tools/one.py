import sys; sys.path.insert(0,'/verif/lib')
import core, p_kani, props.c10 as c10
hs=sys.argv[1:]
run=p_kani.check('C10','quick',0,c10.SPECS,[{"h":h,"sym":""} for h in hs],c10.FUNCS,{},c10.ASSUME,c10.RULE,slots=3)
for v in run.violations: print('VIOL',v['key'],v['what'][:400])
print([(o['id'],o['status'],(o.get('reason') or '')[:200]) for o in run.obligations])
