#!/bin/bash
# Runs the repository's pinned test suite (guard OFF: no --cfg steel_verif) and compares the
# passing set with BASELINE.json's stable_pass list.  Exit 0 iff every stable test passes.
set -u
cd /repo
unset RUSTFLAGS
OUT=${1:-/var/tmp/steel-verif-baseline}
mkdir -p "$OUT"
CARGO_NET_OFFLINE=true cargo nextest run --workspace --no-fail-fast \
  --tool-config-file pb:/w/lib/nextest.toml --profile pb --test-threads 8 --offline \
  > "$OUT/nextest.log" 2>&1
J=$(ls -t /repo/target/nextest/pb/junit.xml 2>/dev/null | head -1)
python3 - "$J" <<'EOF'
import json, sys, xml.etree.ElementTree as ET
base = set(json.load(open('/root/.vp/BASELINE.json'))['stable_pass'])
root = ET.parse(sys.argv[1]).getroot()
passed, failed = set(), set()
for tc in root.iter('testcase'):
    tid = (tc.get('classname') or '') + '::' + (tc.get('name') or '')
    if tc.find('failure') is not None or tc.find('error') is not None:
        failed.add(tid)
    elif tc.find('skipped') is None:
        passed.add(tid)
missing = sorted(base - passed)
print('baseline stable=%d passed_now=%d failed_now=%d missing_from_pass=%d' % (len(base), len(passed), len(failed), len(missing)))
for m in missing[:40]:
    print('  NOT PASSING:', m)
sys.exit(1 if missing else 0)
EOF
