import sys; sys.path.insert(0,'/verif/lib')
import core, p_kani
SPECS=[p_kani.Spec("steel-parser", "steel-parser/src/lexer.rs", "lex.rs", "verif_lex", features=False)]
hs=sys.argv[1:]
run=p_kani.check('C07','quick',0,SPECS,[{"h":h,"sym":""} for h in hs],[],{},[],"",slots=2)
for v in run.violations: print('VIOL',v['key'],v['what'][:600])
print([(o['id'],o['status'],(o.get('reason') or '')[:300]) for o in run.obligations])
