#!/usr/bin/env python3
"""ob_visit.py <PROPERTY C04|C06> : run only the MIR-level visitor obligations (E3d/E3e/E3f + bypass) of the property
on the tree VERIF_REPO points at.  Development / seed-testing aid; evidence goes to VERIF_EVIDENCE_DIR."""
import os, sys
sys.path.insert(0, os.path.join(os.path.dirname(os.path.dirname(os.path.abspath(__file__))), "lib"))
os.environ.setdefault("CARGO_NET_OFFLINE", "true")
os.environ.setdefault("VERIF_EVIDENCE_DIR", "/var/tmp/ob-evidence")
import core, props, p_visit_ob
pid = sys.argv[1]
run = core.Run(pid, "quick", 0)
p_visit_ob.obligations(run, ["GlobalSlotRecycler"] if pid == "C06" else ["MarkAndSweepContext", "MarkAndSweepContextRefQueue"])
sys.exit(run.finish(props.REGISTRY[pid].RULE))
