#!/usr/bin/env python3
"""Experiment helper: probe.py <tag> <crate> <rel-file>=<harness.rs>=<mod>[,...] <timeout_s> <slots> harness...
Runs the harnesses in a kept scratch workspace and prints one line per harness."""
import sys, os, json
sys.path.insert(0, os.path.join(os.path.dirname(os.path.abspath(__file__)), "..", "lib"))
os.environ["VERIF_KEEP"] = "1"
import ws, kani

tag, crate, inj, timeout, slots = sys.argv[1], sys.argv[2], sys.argv[3], int(sys.argv[4]), int(sys.argv[5])
hs = sys.argv[6:]
injections = []
for part in inj.split(","):
    rel, h, mod = part.split("=")
    import p_kani
    priv = os.path.join("/var/tmp", "probe_%s_%s" % (tag, os.path.basename(h)))
    open(priv, "w").write(p_kani.expand_vasserts(open(h).read()))
    injections.append((rel, priv, mod, "kani"))
w = ws.prepare(tag, injections, lib_attrs={"steel-core": ["#![cfg_attr(kani, feature(allocator_api))]"]} if crate == "steel-core" else None)
root = os.path.dirname(w)
print("ws:", w, flush=True)
kw = {}
if crate == "steel-core":
    kw = dict(no_default=True, features=ws.FEATURES)
extra = os.environ.get("PROBE_EXTRA", "").split() or None
res = kani.run_many(w, crate, [(h, extra) for h in hs], os.path.join(root, "logs"), os.path.join(root, "tk"), timeout, slots=slots,
                    modpath=ws.modpath(injections[0][0], injections[0][2]), **kw)
for h in hs:
    r = res[h]
    print("%-40s %-12s wall=%6.1fs solver=%s checks=%s covers=%s %s" % (
        h, r["status"], r["wall_s"], r.get("verif_time_s"), r.get("summary_total"),
        {k: v for k, v in r["covers"].items() if v != "SATISFIED"} or "all-sat(%d)" % len(r["covers"]),
        (r.get("reason") or "") + " " + "; ".join(f["desc"] for f in r["failed"][:3]) + (r.get("compile_error") or "")), flush=True)
