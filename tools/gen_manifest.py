#!/usr/bin/env python3
"""Regenerates MANIFEST.json from the table below (kept in one place so it stays valid)."""
import json, os
V = os.path.dirname(os.path.dirname(os.path.abspath(__file__)))

CLAIMED = {
 "C05": dict(
    text="Bounded model checking of the real steel-rc code with Kani/CBMC: one real operation (clone, drop, get_mut, make_mut, try_unwrap, explicit merge) from EVERY count word that satisfies the written representation invariant, for every acting thread among 3 logical threads, plus the base case; an inductive step, so histories of any length are covered provided the invariant is right. Counterexamples are turned into a history of real operations on real OS threads (found by a native search over the real count word) and run under valgrind before anything is reported.",
    note="Trusted: Kani 0.68/CBMC 6.11 semantics of Rust; the invariant inv() in harness/rc.rs; stubs (current_thread, thread_cleanup, enqueue); sequentially consistent atomics; counters <= 2^20; unwind 3. Outside: weak memory, dashmap internals, thread-id reuse, >3 threads.",
    technique="SAT-based bounded model checking (Kani/CBMC) of one inductive step over a symbolic reference-count word; native replay under valgrind",
    design="§4 C05"),
}

NOT_APPLICABLE = {
 "C01": "whole-language semantics is decided only by the expander+passes+code generator+VM together; no bounded encoding of that pipeline is within reach of CBMC or a hand-written encoder (DESIGN §4 C01)",
 "C02": "needs execution of run-time generated Cranelift machine code and the C01 pipeline; no symbolic engine here executes generated code (DESIGN §4 C02)",
 "C08": "continuation capture/reinstatement are VmCore methods over a live frame stack; no unit-level state can be built without a running engine (DESIGN §4 C08)",
 "C09": "frame reuse is inlined in the 1400-line VmCore::vm dispatch loop whose static reach is the whole interpreter; the quantity (space over 10^7 iterations) is not a bounded-unrolling question (DESIGN §4 C09)",
 "C12": "measured: a 2-byte symbolic input through the real lexer does not leave CBMC's symbolic execution in 15 min / 5 GB; a smaller bound would be weaker than the existing lexer tests (DESIGN §4 C12)",
 "C13": "macro expansion is AST rewriting over interned identifiers; the observable (which binding an identifier resolves to) exists only after compiling and running the expansion (DESIGN §4 C13)",
 "C14": "module instantiation needs the C01 pipeline plus the file system and the engine's module table (DESIGN §4 C14)",
 "C18": "native stack use as a function of value depth up to 10^6 is exactly what a bounded unrolling cannot bound (DESIGN §4 C18)",
}

def main():
    props = [json.loads(l)["id"] for l in open(os.path.join(V, "properties.jsonl"))]
    pending = {p: "check not built yet in this revision of /verif (planned, see DESIGN §4)" for p in props if p not in CLAIMED and p not in NOT_APPLICABLE}
    checks = []
    for pid in props:
        if pid not in CLAIMED:
            continue
        c = CLAIMED[pid]
        checks.append({
            "property_id": pid,
            "quick_cmd": "./check %s --tier quick" % pid,
            "thorough_cmd": "./check %s --tier thorough" % pid,
            "evidence_file": "evidence/%s.json" % pid,
            "replay_cmd_template": "./check %s --replay {path}" % pid,
            "engine": c.get("engine", "kani-incrate"),
            "level_claimed": {"category": "model_checking", "text": c["text"], "design_ref": c["design"]},
            "level_note": c["note"],
            "technique": c["technique"],
        })
    na = [{"property_id": p, "reason": r} for p, r in sorted({**NOT_APPLICABLE, **pending}.items())]
    m = {
        "version": 1,
        "setup_cmd": "./setup.sh",
        "hooks": {
            "guard": "--cfg steel_verif",
            "enable": "RUSTFLAGS='--cfg steel_verif' (only the scratch copies built by ./check use it; /repo itself is never built with it)",
            "baseline_off_cmd": "/verif/tools/baseline.sh",
            "source_commits": json.load(open(os.path.join(V, "hooks.json"))) if os.path.exists(os.path.join(V, "hooks.json")) else [],
            "add_only": True,
        },
        "engines": [
            {"name": "kani-incrate", "path": "lib/kani.py", "serves_properties": sorted(p for p in CLAIMED if CLAIMED[p].get("engine", "kani-incrate") == "kani-incrate"),
             "kind_free_text": "Kani 0.68 / CBMC 6.11 (CaDiCaL) over a scratch copy of /repo/crates with harness modules #[path]-included inside the crates; native replay of counterexamples"},
            {"name": "mir-bmc", "path": "lib/mirbmc.py", "serves_properties": sorted(p for p in CLAIMED if CLAIMED[p].get("engine") == "mir-bmc"),
             "kind_free_text": "control-flow skeleton of the real synchronisation functions extracted from the nightly MIR dump, composed with a symbolic scheduler and unrolled into SMT (z3, cross-checked with cvc5)"},
        ],
        "checks": checks,
        "not_applicable": na,
        "notes": "All results are bounded: see each evidence file's coverage.bounds and assumptions. Exit 2 = inconclusive (never reported as a violation).",
    }
    json.dump(m, open(os.path.join(V, "MANIFEST.json"), "w"), indent=1)
    print("claimed:", [c["property_id"] for c in checks], "not_applicable:", [x["property_id"] for x in na])

main()
