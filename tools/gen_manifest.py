#!/usr/bin/env python3
"""Regenerates MANIFEST.json from the table below (kept in one place so it stays valid)."""
import json, os
V = os.path.dirname(os.path.dirname(os.path.abspath(__file__)))

CLAIMED = {
 "C05": dict(
    text="Bounded model checking of the real steel-rc code with Kani/CBMC: one real operation (clone, drop, get_mut, make_mut, try_unwrap, explicit merge) from EVERY count word that satisfies the written representation invariant, for every acting thread among 3 logical threads, plus the base case; an inductive step, so histories of any length are covered provided the invariant is right. Counterexamples are turned into a history of real operations on real OS threads (found by a native search over the real count word) and run under valgrind before anything is reported.",
    note="Trusted: Kani 0.68/CBMC 6.11 semantics of Rust; the invariant inv() in harness/rc.rs; stubs (current_thread, thread_cleanup, enqueue); sequentially consistent atomics; counters <= 2^20; unwind 3. Outside: weak memory, dashmap internals, thread-id reuse, >3 threads.",
    technique="SAT-based bounded model checking (Kani/CBMC) of one inductive step over a symbolic reference-count word; native replay under valgrind",
    design="§4 C05"),
 "C10": dict(
    text="Bounded model checking with Kani/CBMC of the real numeric primitives on full-width (64-bit) symbolic operands against a 128-bit oracle and a canonical-form check; counterexamples are replayed natively with Kani's concrete playback, which runs the real code.",
    note="Trusted: Kani/CBMC; num-bigint (its `BigInt += isize`/`*= isize` are modelled by exact i128 arithmetic and the x86 carry intrinsics by their definition); feature set without jit2. Outside: the specialised arithmetic opcodes inlined in the VM loop, the constant folder, number<->string, gcd/lcm/expt, big operands above two limbs.",
    technique="SAT-based bounded model checking (Kani/CBMC) of the real primitives with a 128-bit arithmetic oracle; native replay by concrete playback",
    design="§4 C10"),
 "C15": dict(engine="mir-bmc",
    text="Bounded model checking of the stop-the-world protocol: per-thread automata are extracted from the compiler's MIR of the real functions (safepoint entry/exit, poll, stop/resume, stack enumeration, global-table swap, collection and global-definition entry points), composed with a symbolic scheduler and unrolled into a bit-vector SMT formula; the solver either shows no schedule within the bound lets a world-stopper look at a thread that is running interpreter code, or returns a schedule, which is replayed on the real engine through cfg-guarded scheduling hooks.",
    note="Trusted: rustc's MIR dump, the vocabulary/assumption tables in lib/mirbmc.py, z3. Assumed: sequentially consistent atomics, no spurious park wake-ups, native threads only, all threads registered. Bounds: 2 threads (quick) / 3 (thorough), K <= 28..40 scheduler steps. Outside: native-code tier, make_thread forks, weak memory.",
    technique="SMT-based bounded model checking (z3, QF_BV) of MIR-extracted thread automata with a symbolic scheduler; native schedule replay",
    design="§3, §4 C15"),
 "C16": dict(engine="mir-bmc",
    text="Same extraction and unrolling as C15 with a fair-lasso query: is there a reachable state that repeats with every unfinished thread either scheduled in between or blocked throughout (deadlock or livelock of collections / global updates).",
    note="As C15. Thread programs are finite, so any fair lasso is a progress violation. Outside: channels, joins, script-level locks, delivery of join results.",
    technique="SMT-based bounded model checking (z3, QF_BV): fair-lasso search over MIR-extracted thread automata; native replay with a watchdog",
    design="§3, §4 C16"),
 "C17": dict(engine="mir-bmc",
    text="Same extraction and unrolling as C15 with a host thread that runs the real ThreadStateController::interrupt on a script thread's controller: can the target complete 3 further polls, all begun after interrupt() returned, without returning the interruption error.",
    note="As C15. Interpreter tier only. Outside: native-compiled loops, loops inside primitives that do not return to dispatch, the watchdog thread of interrupt.rs.",
    technique="SMT-based bounded model checking (z3, QF_BV) of MIR-extracted thread automata plus a host-interrupt role; native schedule replay",
    design="§3, §4 C17"),
}

NOT_APPLICABLE = {
 "C01": "whole-language semantics is decided only by the expander+passes+code generator+VM together; no bounded encoding of that pipeline is within reach of CBMC or a hand-written encoder (DESIGN §4 C01)",
 "C02": "needs execution of run-time generated Cranelift machine code and the C01 pipeline; no symbolic engine here executes generated code (DESIGN §4 C02)",
 "C08": "continuation capture/reinstatement are VmCore methods over a live frame stack; no unit-level state can be built without a running engine (DESIGN §4 C08)",
 "C09": "frame reuse is inlined in the 1400-line VmCore::vm dispatch loop whose static reach is the whole interpreter; the quantity (space over 10^7 iterations) is not a bounded-unrolling question (DESIGN §4 C09)",
 "C12": "measured: a 2-byte symbolic input through the real lexer does not leave CBMC's symbolic execution in 15 min / 5 GB; a smaller bound would be weaker than the existing lexer tests (DESIGN §4 C12)",
 "C13": "macro expansion is AST rewriting over interned identifiers; the observable (which binding an identifier resolves to) exists only after compiling and running the expansion (DESIGN §4 C13)",
 "C14": "module instantiation needs the C01 pipeline plus the file system and the engine's module table (DESIGN §4 C14)",
 "C18": "native stack use as a function of value depth up to 10^6 is exactly what a bounded unrolling cannot bound (DESIGN §4 C18)",
}

def main():
    props = [json.loads(l)["id"] for l in open(os.path.join(V, "properties.jsonl"))]
    pending = {p: "check not built yet in this revision of /verif (planned, see DESIGN §4)" for p in props if p not in CLAIMED and p not in NOT_APPLICABLE}
    checks = []
    for pid in props:
        if pid not in CLAIMED:
            continue
        c = CLAIMED[pid]
        checks.append({
            "property_id": pid,
            "quick_cmd": "./check %s --tier quick" % pid,
            "thorough_cmd": "./check %s --tier thorough" % pid,
            "evidence_file": "evidence/%s.json" % pid,
            "replay_cmd_template": "./check %s --replay {path}" % pid,
            "engine": c.get("engine", "kani-incrate"),
            "level_claimed": {"category": "model_checking", "text": c["text"], "design_ref": c["design"]},
            "level_note": c["note"],
            "technique": c["technique"],
        })
    na = [{"property_id": p, "reason": r} for p, r in sorted({**NOT_APPLICABLE, **pending}.items())]
    m = {
        "version": 1,
        "setup_cmd": "./setup.sh",
        "hooks": {
            "guard": "--cfg steel_verif",
            "enable": "RUSTFLAGS='--cfg steel_verif' (only the scratch copies built by ./check use it; /repo itself is never built with it)",
            "baseline_off_cmd": "/verif/tools/baseline.sh",
            "source_commits": json.load(open(os.path.join(V, "hooks.json"))) if os.path.exists(os.path.join(V, "hooks.json")) else [],
            "add_only": True,
        },
        "engines": [
            {"name": "kani-incrate", "path": "lib/kani.py", "serves_properties": sorted(p for p in CLAIMED if CLAIMED[p].get("engine", "kani-incrate") == "kani-incrate"),
             "kind_free_text": "Kani 0.68 / CBMC 6.11 (CaDiCaL) over a scratch copy of /repo/crates with harness modules #[path]-included inside the crates; native replay of counterexamples"},
            {"name": "mir-bmc", "path": "lib/mirbmc.py", "serves_properties": sorted(p for p in CLAIMED if CLAIMED[p].get("engine") == "mir-bmc"),
             "kind_free_text": "control-flow skeleton of the real synchronisation functions extracted from the nightly MIR dump, composed with a symbolic scheduler and unrolled into SMT (z3, cross-checked with cvc5)"},
        ],
        "checks": checks,
        "not_applicable": na,
        "notes": "All results are bounded: see each evidence file's coverage.bounds and assumptions. Exit 2 = inconclusive (never reported as a violation).",
    }
    json.dump(m, open(os.path.join(V, "MANIFEST.json"), "w"), indent=1)
    print("claimed:", [c["property_id"] for c in checks], "not_applicable:", [x["property_id"] for x in na])

main()
