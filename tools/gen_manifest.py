#!/usr/bin/env python3
"""Regenerates MANIFEST.json from the table below (kept in one place so it stays valid)."""
import json, os
V = os.path.dirname(os.path.dirname(os.path.abspath(__file__)))

CLAIMED = {
 "C05": dict(
    text="Bounded model checking of the real steel-rc code with Kani/CBMC: one real operation (clone, drop, get_mut, make_mut, try_unwrap, explicit merge) from EVERY count word that satisfies the written representation invariant, for every acting thread among 3 logical threads, plus the base case; an inductive step, so histories of any length are covered provided the invariant is right; additionally one whole foreign operation interleaved at one symbolic shared access of the analysed operation (preemption between an operation's accesses). Counterexamples are turned into a history of real operations on real OS threads (found by a native search over the real count word; interleavings are forced through the cfg-guarded steel-rc hook) and run under valgrind before anything is reported.",
    note="Trusted: Kani 0.68/CBMC 6.11 semantics of Rust; the invariant inv() in harness/rc.rs; stubs (current_thread, thread_cleanup, enqueue); sequentially consistent atomics; counters <= 2^20; unwind 3-4; interleaving depth 1 (one foreign operation at one access). Outside: weak memory, dashmap internals, thread-id reuse, >3 threads.",
    technique="SAT-based bounded model checking (Kani/CBMC) of one inductive step over a symbolic reference-count word; native replay under valgrind",
    design="§4 C05"),
 "C03": dict(
    text="Bounded model checking (Kani/CBMC) of the test that authorises every in-place update of a shared value: the real get_mut / make_mut / try_unwrap of the reference-counting crate, one operation from EVERY count word satisfying the representation invariant and every acting thread; exclusive access / in-place mutation only with exactly one live reference, other holders keep seeing the old contents. This is the part of the property that does not depend on the compiler. Round 3: an SMT query over the data flow of the script-callable collection primitives read from MIR: all sharing arms of a primitive (operand shared / uniquely referenced) give the receiver role of an order-sensitive library call to the same parameter (hash-union's four arms), so the result does not depend on the reference counts.",
    note="As C05. Outside: the compiler's last-use analysis and MOVE* opcodes (they decide when the count is 1), persistent-collection node reuse, the collection primitives themselves (hash_insert on an imbl map did not finish in 13 min).",
    technique="SAT-based bounded model checking (Kani/CBMC) of one inductive step over a symbolic reference-count word; native replay under valgrind; SMT (z3) over MIR-extracted operand roles of the sharing arms of collection primitives, native replay under the four sharing patterns",
    design="§4 C03"),
 "C04": dict(
    text="Bounded model checking (Kani/CBMC) of the real mutable-storage allocator FreeList<T> (instantiated at u8): one weak collection and one allocation (thorough: also mark reset + recount) from EVERY 3-slot pre-state satisfying the invariant; no slot with a held handle is overwritten or freed, the new handle reads back its value, the invariant is re-established. Plus SMT queries (z3, QF_BV) over the kind tables of the tracing visitors read from the MIR of the real functions (push_back leaf list, visit dispatch, tracing call sites per visit method, SteelValPointer::from_value): no value kind is skipped by the marker or by the reference marker of sync builds while a sibling visitor traces its children. Round 3: per visit method a rank-encoded reachability query (can the method return without passing any of its tracing calls?) and a differential query over the three visitors (no early exit that no sibling has). And two data-flow facts of the collector's entry points: the value(s) about to be stored are handed to the marker of the collection their own allocation triggers; counting free slots (recount) takes no write access to a slot.",
    note="N = 3 slots, >= 2 free before an allocation (growth by 25600 slots and compaction outside). Kind tables: differential between the three implementations of the same scheme (a change made identically to all three is not seen); which children a visit method pushes is interpreted only as a count of tracing call sites. Outside: completeness of the root set beyond the value being stored (needs a running VM), the parallel marker's work distribution.",
    technique="SAT-based bounded model checking (Kani/CBMC) of one allocator step from a symbolic valid state, and SMT (z3, QF_BV) over MIR-extracted kind tables of the marker visitors; native replay by concrete playback / a collection-and-churn program on the real engine",
    design="§4 C04"),
 "C06": dict(
    text="Bounded model checking (Kani/CBMC) of the real global symbol table over short symbolic evaluation histories (definitions over 3 names, slot release as the recycler does it, a failed evaluation rolled back as the engine does it) against a ghost table of the binding in force per name. Plus an SMT query over the kind table of the global-slot recycler read from MIR, compared with the markers' tables (no kind whose children the markers trace is skipped by the recycler), and one over the opcode tables of VmCore::vm and of the recycler (every opcode whose interpreter arm hands its own payload to a global accessor is on the recycler's scan list). Round 3: the recycler's visit methods have no early exit in front of their tracing calls that the markers' methods lack (rank-encoded reachability per method, differential query).",
    note="hashbrown replaced by association-list stubs (trusted: finite map/set). Histories: <= 3 successful definitions, 1 definition in the failed evaluation (2 do not fit the solver's memory). Outside: the recycler's scan of closure bytecode for global indices, the compiler's choice of slots, module roll-back, JIT-embedded slots.",
    technique="SAT-based bounded model checking (Kani/CBMC) of symbolic operation histories on the real symbol table with a ghost model, and SMT (z3, QF_BV) over the MIR-extracted kind table of the slot recycler; native replay by concrete playback / a redefinition history on the real engine",
    design="§4 C06"),
 "C07": dict(
    text="Bounded model checking (Kani/CBMC) with panic/overflow/shift/division checks on: real numeric primitives (arithmetic-shift and abs at full width, expt with exponent -30, the division family on stated operand ranges) return Ok or Err and never panic; a failed evaluation rolled back in the real symbol table leaves no residue. Plus one SMT query (z3, QF_BV) per registered built-in procedure over its MIR: no argument count reaches an out-of-bounds access of the argument vector, a failing sub-slice args[n..], or an unwrapped conversion of an argument; and (kinds) no choice of argument count, argument KINDS (37 variants of SteelVal), integer payloads and sharing reaches an explicit panic (panic!/unreachable!/todo!) of a script-callable procedure or numeric kernel along a fully interpreted path. Plus Kani harnesses of the byte-vector and string index procedures through their registered wrappers with full-width symbolic indices. Round 3: the number-literal kernel of the reader (steel_parser parse_real, behind string->number and every numeric token) on every valid UTF-8 string of at most 4 bytes; and an SMT query per indexing site of the script-callable procedures (GenericVector::set/update/take, Vec::remove/insert, Index<usize>): exists an index and a length that pass the procedure's guards and violate the precondition of the indexing call. And: no unwrap / expect in the numeric code is applied to the result of a partial conversion of a double (from_f64 / from_float: None for NaN and the infinities).",
    note="Kernel level only; in the MIR queries branch conditions on the argument count, on the discriminant and integer payload of an argument and on uniqueness tests are interpreted, paths through any other branch are dropped (counted in evidence); panics inside callees are not seen. Index harnesses: 2-byte vectors, 3-character strings; lists, persistent vectors, substring, make-bytes measured out. Outside: arbitrary source text (reader not encodable, see C12), expansion/compilation, stack reset after errors, native stack depth.",
    technique="SAT-based bounded model checking (Kani/CBMC) of real primitives with Kani's panic checks, and SMT (z3, QF_BV) over the MIR of all registered built-in procedures for argument-vector accesses and for index guards against the preconditions of the indexing calls behind them, and for panic sites against symbolic argument kinds; native replay by concrete playback / a script call under catch_unwind",
    design="§4 C07"),
 "C19": dict(
    text="Bounded model checking (Kani/CBMC) of the real allocator's accounting from every 3-slot pre-state: a slot without any handle is free after a weak collection; after mark_all_unreachable + marks + recount the free count equals the number of unmarked slots; the fill ratio stays in [0,1]. Round 3: a rank-encoded reachability query over the MIR of GlobalSlotRecycler::recycle: a global root is queued only after the membership test of the candidate set (candidates are not roots), replayed with Drop-counting host values owned by shadowed self-recursive definitions.",
    note="As C04. Outside: cyclic garbage, the collection trigger policy, weak boxes, host-root generations (need the marker and a running VM).",
    technique="SAT-based bounded model checking (Kani/CBMC) of allocator accounting steps from a symbolic valid state; SMT (z3, QF_BV) reachability over the MIR control flow of the slot recycler",
    design="§4 C19"),
 "C20": dict(
    text="Bounded model checking (Kani/CBMC) of the real scalar conversions at the host boundary on full-width symbolic values: Ok(v) only with the same mathematical value, out of range => Err, host integers never wrap on the way in (big integer above the machine word), round trips are the identity. Plus an SMT query per register_fn wrapper closure (MIR -> QF_BV, z3): no two different argument counts reach the host function call, and parameter k of the host call is computed from exactly args[k]. Round 3: rank-encoded path queries (z3) over the six wrappers that hand out a reference DERIVED from a lent reference: no path to the hand-out without marking the parent as borrowed on the same flag object, without parking the owner of the derived pointer in the nursery, or with the flag of another argument than the receiver. And round trips: every u64 / usize / i64 / u32 value into the script side and back is the identity. And: the tuple conversion (A, B) reaches Ok only behind a test of the script list's length.",
    note="Scalars only (i8..u128, f32, f64, char, bool, unit, Option<i32>, big-integer sources up to 2^66); arity: only branch conditions on the argument-slice length are interpreted, every other branch is free. Outside: strings/vectors/maps/sets/tuples/structs, argument value extraction in register_fn (needs an Engine), lent references (nursery is a destructor-bearing thread-local). Lending: only the three control-flow facts of lib/p_lend.py; the run-time checks that use the flags, the nursery clean-up at the end of a lending call and clones of derived references are exercised by the native replay only.",
    technique="SAT-based bounded model checking (Kani/CBMC) of the real conversion impls on full-width symbolic scalars, and SMT (z3, QF_BV) over the MIR of the register_fn wrapper closures for arity and argument-to-parameter mapping; native replay by concrete playback / a script call through the real Engine",
    design="§4 C20"),
 "C10": dict(
    text="Bounded model checking with Kani/CBMC of the real numeric primitives on symbolic operands (full 64-bit width for + - negate abs parity arithmetic-shift int/float equality; exact of every integral double; magnitude; machine integer by big integer quotient with a division model; stated smaller ranges for division, multiplication values, expt, rationals) against a 128-bit oracle and a canonical-form check; counterexamples are replayed natively with Kani's concrete playback, which runs the real code. Round 3: the ordering behind <, <=, >, >= (partial_cmp) for every machine integer against every finite double and against big integers just beyond 2^63, floor / ceiling of small rationals for every i32 numerator, the reciprocal of every machine integer; and an SMT query over the code generator's MIR: every integer literal packed into a 24-bit instruction payload (the operand of ADDIMMEDIATE / SUBIMMEDIATE / LTEIMMEDIATE) is below 2^24. And per specialised arithmetic / comparison opcode arm of the interpreter (10 opcodes) and per number kind of the operand: the arm reaches an operation of the opcode's family (generic primitive, shared ordering, checked machine operation), i.e. one the harnesses decide; a counterexample is replayed differentially against the generic procedure. And: no unwrap / expect in the numeric code is applied to the result of a partial conversion of a double.",
    note="Trusted: Kani/CBMC; num-bigint (its `BigInt += isize`/`*= isize` are modelled by exact i128 arithmetic and the x86 carry intrinsics by their definition); feature set without jit2. `BigInt << u32` and `BigInt::pow` are recording stubs; num-bigint's long division is replaced by an exact model valid for quotient digit 0/1 (num_*_i_big). One SMT query (z3) per numeric kernel over its MIR: every pair of number kinds is handled without reaching unreachable!(); and one over the decision tree of PartialOrd::partial_cmp: every ordered pair of real-number kinds has an arm. Outside: the specialised arithmetic opcodes inlined in the VM loop, the constant folder, number<->string, gcd/lcm, expt beyond exponent -1/-30, full-width division and multiplication values, big-integer division, big operands above two limbs.",
    technique="SAT-based bounded model checking (Kani/CBMC) of the real primitives with a 128-bit arithmetic oracle, and SMT (z3, QF_BV) over the MIR of the numeric kernels for kind-pair totality and (code generator) for the range of literal operands packed into instruction payloads; native replay by concrete playback / a script call",
    design="§4 C10"),
 "C11": dict(
    text="PARTIAL (sequences only): bounded model checking (Kani/CBMC) of the registered wrappers of bytes-ref, bytes-set!, bytes-copy, string-ref (thorough: bytes->string/utf8, integer->char) on a 2-byte vector / 3-character string with symbolic contents and full-width symbolic integer arguments: the answer is the one the mathematical sequence gives exactly for the valid indices and an error otherwise. Plus an SMT query (z3) over the decision trees of `PartialEq::eq` and `RecursiveEqualityHandler::visit` read from MIR: every kind compared by value at the top level has an arm for nested values (leaf comparison is the same at every depth). Sharing inside values (F7) and hashing are NOT decided by any check. Round 3: SMT queries over the data flow of the real equality handler read from MIR: every two-operand call / comparison of RecursiveEqualityHandler::visit takes one operand from the left and one from the right value, every kind whose arm iterates also compares the two lengths, every key of the visited set is built from both sides (this decides the sharing defect F7 and the hash-set defect, both repaired). And: the cross-kind arms of the equality handler against the kind tag the hash mixes in (a mutable and an immutable vector are equal? and must hash alike). Further: the handler answers true only when both work lists are empty; the four vector-kind combinations all compare lengths; no kind compared by value is hashed by identity.",
    note="Measured out: the real equality handler (drop glue of 37 variants per loop iteration: >1200 s, 12 GB; harness/eq.rs kept as the record; the sharing defect F7 is decided since round 3 by the MIR data-flow queries, not by executing the handler), hashing (SipHash + HAMT), lists / persistent vectors / hash maps / hash sets (1200 s timeouts), substring, make-bytes. One operation at a time, not operation sequences. The data-flow facts say which values meet in a call, not what the callee does with them; hashing agreement is not decided.",
    technique="SAT-based bounded model checking (Kani/CBMC) of real sequence primitives through their registered wrappers against a mathematical-sequence oracle, and SMT (z3, QF_BV) over MIR-extracted arm tables of the two equality matches; native replay by concrete playback / equal? on nested values through the engine",
    design="§4 C11"),
 "C15": dict(engine="mir-bmc",
    text="Bounded model checking of the stop-the-world protocol: per-thread automata are extracted from the compiler's MIR of the real functions (safepoint entry/exit, poll, stop/resume, stack enumeration, global-table swap, collection and global-definition entry points), composed with a symbolic scheduler and unrolled into a bit-vector SMT formula; the solver either shows no schedule within the bound lets a world-stopper look at a thread that is running interpreter code, or returns a schedule, which is replayed on the real engine through cfg-guarded scheduling hooks.",
    note="Trusted: rustc's MIR dump, the vocabulary/assumption tables in lib/mirbmc.py, z3. Assumed: sequentially consistent atomics, native threads only, all threads registered; a thread may start with a stale unpark token. Bounds: 2 threads (quick) / 3 (thorough), K <= 28..40 scheduler steps (one step = one shared access; covers a stop request up to its first scan window and wait loop, not a whole stop-resume cycle). Thorough tier: recorded traces of the real engine must be runs of the model (conformance). Outside: native-code tier, make_thread forks, weak memory.",
    technique="SMT-based bounded model checking (z3, QF_BV) of MIR-extracted thread automata with a symbolic scheduler; native schedule replay",
    design="§3, §4 C15"),
 "C16": dict(engine="mir-bmc",
    text="Same extraction and unrolling as C15 with a fair-lasso query: is there a reachable state that repeats with every unfinished thread either scheduled in between or blocked throughout (deadlock or livelock of collections / global updates).",
    note="As C15. Thread programs are finite, so any fair lasso is a progress violation. Outside: channels, joins, script-level locks, delivery of join results.",
    technique="SMT-based bounded model checking (z3, QF_BV): fair-lasso search over MIR-extracted thread automata; native replay with a watchdog",
    design="§3, §4 C16"),
 "C17": dict(engine="mir-bmc",
    text="Same extraction and unrolling as C15 with a host thread that runs the real ThreadStateController::interrupt on a script thread's controller: can the target complete 3 further polls, all begun after interrupt() returned, without returning the interruption error. Round 3: a reachability query over the MIR of the interpreter's poll: the arm that delivers an interruption does not write the thread-state controller, so the request persists until the host clears it (a script that catches the error in a handler is still stopped).",
    note="As C15. Interpreter tier only. Outside: native-compiled loops, loops inside primitives that do not return to dispatch, the watchdog thread of interrupt.rs.",
    technique="SMT-based bounded model checking (z3, QF_BV) of MIR-extracted thread automata plus a host-interrupt role; native schedule replay",
    design="§3, §4 C17"),
}

NOT_APPLICABLE = {
 "C01": "whole-language semantics is decided only by the expander+passes+code generator+VM together; no bounded encoding of that pipeline is within reach of CBMC or a hand-written encoder (DESIGN §4 C01)",
 "C02": "needs execution of run-time generated Cranelift machine code and the C01 pipeline; no symbolic engine here executes generated code (DESIGN §4 C02)",
 "C08": "continuation capture/reinstatement are VmCore methods over a live frame stack; no unit-level state can be built without a running engine (DESIGN §4 C08)",
 "C09": "frame reuse is inlined in the 1400-line VmCore::vm dispatch loop whose static reach is the whole interpreter; the quantity (space over 10^7 iterations) is not a bounded-unrolling question (DESIGN §4 C09)",
 "C12": "measured: a 2-byte symbolic input through the real lexer does not leave CBMC's symbolic execution in 15 min / 5 GB; a smaller bound would be weaker than the existing lexer tests; only the number-literal kernel parse_real gets through (with the integer and float parsers stubbed) and is checked under C07 -- totality of the reader as a whole and the write/read round trip are not decided (DESIGN §4 C12)",
 "C13": "macro expansion is AST rewriting over interned identifiers; the observable (which binding an identifier resolves to) exists only after compiling and running the expansion (DESIGN §4 C13)",
 "C14": "module instantiation needs the C01 pipeline plus the file system and the engine's module table (DESIGN §4 C14)",
 "C18": "native stack use as a function of value depth up to 10^6 is exactly what a bounded unrolling cannot bound (DESIGN §4 C18)",
}

def main():
    props = [json.loads(l)["id"] for l in open(os.path.join(V, "properties.jsonl"))]
    pending = {p: "check not built yet in this revision of /verif (planned, see DESIGN §4)" for p in props if p not in CLAIMED and p not in NOT_APPLICABLE}
    checks = []
    for pid in props:
        if pid not in CLAIMED:
            continue
        c = CLAIMED[pid]
        checks.append({
            "property_id": pid,
            "quick_cmd": "./check %s --tier quick" % pid,
            "thorough_cmd": "./check %s --tier thorough" % pid,
            "evidence_file": "evidence/%s.json" % pid,
            "replay_cmd_template": "./check %s --replay {path}" % pid,
            "engine": c.get("engine", "kani-incrate"),
            "level_claimed": {"category": "model_checking", "text": c["text"], "design_ref": c["design"]},
            "level_note": c["note"],
            "technique": c["technique"],
        })
    na = [{"property_id": p, "reason": r} for p, r in sorted({**NOT_APPLICABLE, **pending}.items())]
    m = {
        "version": 1,
        "setup_cmd": "./setup.sh",
        "hooks": {
            "guard": "--cfg steel_verif",
            "enable": "RUSTFLAGS='--cfg steel_verif' (only the scratch copies built by ./check use it; /repo itself is never built with it)",
            "baseline_off_cmd": "/verif/tools/baseline.sh",
            "source_commits": json.load(open(os.path.join(V, "hooks.json"))) if os.path.exists(os.path.join(V, "hooks.json")) else [],
            "add_only": True,
        },
        "engines": [
            {"name": "kani-incrate", "path": "lib/kani.py", "serves_properties": sorted(p for p in CLAIMED if CLAIMED[p].get("engine", "kani-incrate") == "kani-incrate"),
             "kind_free_text": "Kani 0.68 / CBMC 6.11 (CaDiCaL) over a scratch copy of /repo/crates with harness modules #[path]-included inside the crates; native replay of counterexamples"},
            {"name": "mir-bmc", "path": "lib/mirbmc.py", "serves_properties": sorted(p for p in CLAIMED if CLAIMED[p].get("engine") == "mir-bmc"),
             "kind_free_text": "control-flow skeleton of the real synchronisation functions extracted from the nightly MIR dump, composed with a symbolic scheduler and unrolled into SMT (z3, cross-checked with cvc5)"},
        ],
        "checks": checks,
        "not_applicable": na,
        "notes": "All results are bounded: see each evidence file's coverage.bounds and assumptions. Exit 2 = inconclusive (never reported as a violation).",
    }
    json.dump(m, open(os.path.join(V, "MANIFEST.json"), "w"), indent=1)
    print("claimed:", [c["property_id"] for c in checks], "not_applicable:", [x["property_id"] for x in na])

main()
