#!/usr/bin/env python3
"""validate_evidence.py [file...] : validate evidence files against /root/.vp/EVIDENCE.schema.json"""
import json, sys, glob
import jsonschema
schema = json.load(open('/root/.vp/EVIDENCE.schema.json'))
bad = 0
for p in (sys.argv[1:] or sorted(glob.glob('/verif/evidence/*.json'))):
    e = json.load(open(p))
    errs = list(jsonschema.Draft202012Validator(schema).iter_errors(e))
    c = e.get('coverage', {})
    print("%s: %s (evaluations=%s distinct_nontrivial=%s states=%s)" % (p.split('/')[-1], "OK" if not errs else "INVALID", c.get('evaluations'), c.get('distinct_nontrivial'), c.get('states')))
    for er in errs[:3]:
        print("   ", er.message[:200]); bad += 1
sys.exit(1 if bad else 0)
