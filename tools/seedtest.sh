#!/bin/bash
# seedtest.sh <seed-id> <property> [tier]  : apply seeded/<id>/patch.diff to /repo, run the check, undo.
set -u
ID=$1; PROP=$2; TIER=${3:-quick}
D=/verif/seeded/$ID
cd /repo && git diff --quiet || { echo "/repo is dirty; refusing"; exit 3; }
git -C /repo apply "$D/patch.diff" || { echo "patch does not apply"; exit 3; }
cd /verif
VERIF_EVIDENCE_DIR=/var/tmp/seed-evidence ./check $PROP --tier $TIER > "$D/check_$PROP.$TIER.out" 2>&1
RC=$?
git -C /repo checkout -- .
echo "seed $ID property $PROP tier $TIER: exit $RC"
grep -E "VIOLATION|KNOWN-FINDING|INCONCLUSIVE|obligations" "$D/check_$PROP.$TIER.out" | cut -c1-400
exit $RC
