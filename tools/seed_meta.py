#!/usr/bin/env python3
"""seed_meta.py <seed-id> <property> <caught-by or '-'> : (re)writes seeded/<id>/meta.json from
notes.md (first lines), validation.txt and the last check output."""
import json, os, re, sys, glob
sid, prop, caught = sys.argv[1], sys.argv[2], sys.argv[3]
d = os.path.join(os.path.dirname(os.path.dirname(os.path.abspath(__file__))), "seeded", sid)
notes = open(os.path.join(d, "notes.md")).read() if os.path.exists(os.path.join(d, "notes.md")) else ""
val = open(os.path.join(d, "validation.txt")).read() if os.path.exists(os.path.join(d, "validation.txt")) else ""
m = dict(re.findall(r"(demo_unmodified_exit|demo_patched_exit)=(\d+)", val))
suite = re.search(r"suite_with_patch: (.*)", val)
outs = sorted(glob.glob(os.path.join(d, "check_%s.*.out" % prop)))
out = open(outs[-1]).read() if outs else ""
exitc = 1 if re.search(r"^VIOLATION", out, re.M) else (2 if "INCONCLUSIVE" in out else (0 if out else None))
first = [l.strip("# ").strip() for l in notes.split("\n") if l.strip()][:4]
meta = {
    "id": sid, "property": prop,
    "written_by": "independent sub-agent given only the property text (and the anchor file names) and its own scratch worktree",
    "what": first[0] if first else "", "needs_to_manifest": " ".join(first[1:4])[:700],
    "confirmed": {"demo_on_unmodified_tree_exit": int(m["demo_unmodified_exit"]) if "demo_unmodified_exit" in m else None,
                  "demo_with_patch_exit": int(m["demo_patched_exit"]) if "demo_patched_exit" in m else None,
                  "pinned_suite_with_patch": suite.group(1) if suite else None,
                  "how": "tools/validate_seed.sh %s (persistent validation worktree under /var/tmp, never /repo)" % sid},
    "check_result": {"cmd": "tools/seedtest.sh %s %s" % (sid, prop), "exit": exitc,
                     "violation_lines": [l for l in out.split("\n") if l.startswith("VIOLATION")][:3],
                     "caught_by": None if caught == "-" else caught},
}
json.dump(meta, open(os.path.join(d, "meta.json"), "w"), indent=1)
print(sid, "exit", exitc, "demo", m)
