#!/bin/bash
# valq.sh <seed>... : validate seeds one after another; runs are serialised by a lock file so that
# several queues can be started independently (they share one validation worktree).
exec 9>/var/tmp/seed_validate.lock
flock 9
for s in "$@"; do /verif/tools/validate_seed.sh "$s"; done
