#!/usr/bin/env python3
"""ob.py <PROPERTY> <function name in lib/props/cNN.py> : run ONE MIR-level obligation function of a property on
the tree VERIF_REPO points at (default /repo), print its verdict.  Development / seed-testing aid; evidence goes
to VERIF_EVIDENCE_DIR (default /var/tmp/ob-evidence), never to /verif/evidence."""
import os, sys
sys.path.insert(0, os.path.join(os.path.dirname(os.path.dirname(os.path.abspath(__file__))), "lib"))
os.environ.setdefault("CARGO_NET_OFFLINE", "true")
os.environ.setdefault("VERIF_EVIDENCE_DIR", "/var/tmp/ob-evidence")
import core, props
pid, fn = sys.argv[1], sys.argv[2]
mod = props.REGISTRY[pid]
run = core.Run(pid, "quick", 0)
getattr(mod, fn)(run)
sys.exit(run.finish(mod.RULE))
