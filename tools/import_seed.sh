#!/bin/bash
# import_seed.sh <deliver-dir> <seed-id> : copy a sub-agent's delivery into /verif/seeded/<id>/
set -eu
SRC=$1; ID=$2; D=/verif/seeded/$ID
mkdir -p $D
for f in patch.diff demo.rs demo_where.txt notes.md; do cp $SRC/$f $D/$f; done
git -C /repo apply --check $D/patch.diff && echo "$ID: patch applies to /repo HEAD"
