#!/bin/bash
# seedtest2.sh <seed-id> <property> [tier] : apply seeded/<id>/patch.diff to a scratch worktree of /repo's HEAD,
# run the property's check against THAT tree (VERIF_REPO), remove the worktree.  /repo itself is not touched, so
# several seed tests (and the registered checks) can run at the same time.
set -u
ID=$1; PROP=$2; TIER=${3:-quick}
D=/verif/seeded/$ID
WT=/var/tmp/wt_seed_${ID}_$PROP
git -C /repo worktree remove --force $WT 2>/dev/null
git -C /repo worktree add -q --detach $WT HEAD || exit 3
git -C $WT apply "$D/patch.diff" || { echo "patch does not apply"; git -C /repo worktree remove --force $WT; exit 3; }
cd /verif
VERIF_REPO=$WT VERIF_EVIDENCE_DIR=/var/tmp/seed-evidence/$ID ./check $PROP --tier $TIER > "$D/check_$PROP.$TIER.out" 2>&1
RC=$?
git -C /repo worktree remove --force $WT
echo "seed $ID property $PROP tier $TIER: exit $RC"
grep -E "VIOLATION|KNOWN-FINDING|INCONCLUSIVE|obligations" "$D/check_$PROP.$TIER.out" | cut -c1-400
exit $RC
