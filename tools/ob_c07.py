#!/usr/bin/env python3
"""ob_c07.py [obligation function ...] : run only MIR-level obligations of C07 (default: bounds + kinds + idxguard)."""
import os, sys
sys.path.insert(0, os.path.join(os.path.dirname(os.path.dirname(os.path.abspath(__file__))), "lib"))
os.environ.setdefault("CARGO_NET_OFFLINE", "true")
os.environ.setdefault("VERIF_EVIDENCE_DIR", "/var/tmp/ob-evidence")
import core, props
from props import c07
run = core.Run("C07", "quick", 0)
c07.bounds_obligations(run)
for fn in (sys.argv[1:] or ["kinds_obligations", "idxguard_obligation"]):
    getattr(c07, fn)(run)
sys.exit(run.finish(c07.RULE))
