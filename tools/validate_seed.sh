#!/bin/bash
# validate_seed.sh <seed-id> : in the persistent validation worktree (never /repo):
#   1. demo passes on the unmodified tree   2. patch applies, workspace builds, pinned suite passes
#   3. demo fails with the patch.   Writes seeded/<id>/validation.txt
set -u
ID=$1
D=/verif/seeded/$ID
WT=/var/tmp/wt_validate
export CARGO_TARGET_DIR=$WT/target CARGO_NET_OFFLINE=true
unset RUSTFLAGS
if [ ! -d $WT ]; then git -C /repo worktree add -q --detach $WT HEAD; fi
cd $WT && git checkout -q --detach $(git -C /repo rev-parse HEAD) && git checkout -- . && git clean -fdq -e target
META=$D/demo_where.txt   # line 1: target file (relative to repo) ; line 2: mode append|new ; line 3: cargo test args
TARGET=$(sed -n 1p $META); MODE=$(sed -n 2p $META); ARGS=$(sed -n 3p $META)
place_demo() { mkdir -p $(dirname $WT/$TARGET); if [ "$MODE" = append ]; then cat $D/demo.rs >> $WT/$TARGET; else cp $D/demo.rs $WT/$TARGET; fi; }
OUT=$D/validation.txt; : > $OUT
echo "== demo on unmodified tree" >> $OUT
place_demo
( cd $WT && cargo test --offline $ARGS 2>&1 | tail -15 ) >> $OUT 2>&1
cd $WT && cargo test --offline $ARGS > /dev/null 2>&1; R1=$?
echo "demo_unmodified_exit=$R1" >> $OUT
git checkout -- . && git clean -fdq -e target
echo "== patch + pinned suite" >> $OUT
git apply $D/patch.diff || { echo "PATCH DOES NOT APPLY" >> $OUT; exit 1; }
cargo nextest run --workspace --no-fail-fast --tool-config-file pb:/w/lib/nextest.toml --profile pb --test-threads 8 --offline > $D/nextest.log 2>&1
python3 - $WT/target/nextest/pb/junit.xml >> $OUT <<'PY'
import json, sys, xml.etree.ElementTree as ET
base = set(json.load(open('/root/.vp/BASELINE.json'))['stable_pass'])
root = ET.parse(sys.argv[1]).getroot()
passed=set()
for tc in root.iter('testcase'):
    tid=(tc.get('classname') or '')+'::'+(tc.get('name') or '')
    if tc.find('failure') is None and tc.find('error') is None and tc.find('skipped') is None: passed.add(tid)
missing=sorted(base-passed)
print('suite_with_patch: stable=%d passing=%d missing=%d %s' % (len(base), len(passed & base), len(missing), missing[:5]))
PY
echo "== demo with patch" >> $OUT
place_demo
( cd $WT && cargo test --offline $ARGS 2>&1 | tail -25 ) >> $OUT 2>&1
cd $WT && cargo test --offline $ARGS > /dev/null 2>&1; R2=$?
echo "demo_patched_exit=$R2" >> $OUT
git checkout -- . && git clean -fdq -e target
tail -3 $OUT | head -1 > /dev/null
grep -E "demo_unmodified_exit|suite_with_patch|demo_patched_exit" $OUT
