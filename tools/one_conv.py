import sys; sys.path.insert(0,'/verif/lib')
import core, p_kani, props.c20 as c
hs=sys.argv[1:]
run=p_kani.check('C20','quick',0,c.SPECS,[{"h":h,"sym":""} for h in hs],c.FUNCS,{},c.ASSUME,c.RULE,slots=3)
for v in run.violations: print('VIOL',v['key'],v['what'][:600])
print([(o['id'],o['status'],(o.get('reason') or '')[:300]) for o in run.obligations])
