#!/bin/bash
# Nothing to build ahead of time: every check regenerates its encoding from /repo's working tree.
# This only verifies that the tools the checks call are present.
set -e
cd "$(dirname "$0")"
for t in cargo rsync python3 valgrind z3; do command -v $t >/dev/null || { echo "missing tool: $t"; exit 1; }; done
cargo kani --version >/dev/null
python3 -c "import json,sys; json.load(open('MANIFEST.json'))"
chmod +x check tools/*.sh tools/*.py 2>/dev/null || true
echo setup ok
