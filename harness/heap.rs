// Kani harnesses for the mutable-storage allocator (C04: never hands out / reclaims a slot that is
// still referenced; C19: accounting and reuse of unreferenced slots).  Child module of a scratch
// copy of steel-core/src/values/closed.rs.  The generic FreeList<T> code is the repository's; it
// is instantiated at T = u8 (a HeapAble impl for u8 lives here).
#![allow(dead_code, unused_imports, static_mut_refs)]
use super::*;

fn noop() {}
fn fmt_stub(_a: core::fmt::Arguments<'_>) -> String {
    String::new()
}

impl HeapAble for u8 {
    fn empty() -> Self {
        0
    }
}

const N: usize = 3;

struct Pre {
    reachable: [bool; N],
    value: [u8; N],
    held: [bool; N], // a handle (HeapRef) to the slot is held by reachable program state
    cursor: usize,
}

fn any_pre() -> Pre {
    let p = Pre { reachable: kani::any(), value: kani::any(), held: kani::any(), cursor: kani::any() };
    kani::assume(p.cursor < N);
    // representation invariant between operations
    kani::assume(!p.reachable[p.cursor]); // the cursor rests on a free slot
    let mut i = 0;
    while i < N {
        kani::assume(!p.held[i] || p.reachable[i]); // a held handle points to an allocated slot
        i += 1;
    }
    p
}

fn free_count(r: &[bool; N]) -> usize {
    let mut c = 0;
    let mut i = 0;
    while i < N {
        if !r[i] {
            c += 1;
        }
        i += 1;
    }
    c
}

/// Builds the real FreeList in the representation of `p`; returns it with the held handles.
fn build(p: &Pre) -> (FreeList<u8>, [Option<HeapRef<u8>>; N]) {
    let mut elements: Vec<HeapElement<u8>> = Vec::with_capacity(N);
    let mut handles: [Option<HeapRef<u8>>; N] = [None, None, None];
    let mut i = 0;
    while i < N {
        let mut h = HeapAllocated::new(p.value[i]);
        h.reachable = p.reachable[i];
        let slot = StandardShared::new(MutContainer::new(h));
        if p.held[i] {
            handles[i] = Some(HeapRef { inner: StandardShared::downgrade(&slot) });
        }
        elements.push(slot);
        i += 1;
    }
    let fl = FreeList {
        elements,
        cursor: p.cursor,
        alloc_count: free_count(&p.reachable),
        grow_count: 0,
        forward: None,
        backward: None,
        should_run_weak: true,
    };
    (fl, handles)
}

fn slot_state(fl: &FreeList<u8>, i: usize) -> (bool, u8) {
    let g = fl.elements[i].read();
    (g.reachable, g.value)
}

// ------------------------------------------------------------------ allocate: one step
#[kani::proof]
#[kani::unwind(5)]
#[kani::stub(std::rt::thread_cleanup, noop)]
#[kani::stub(alloc::fmt::format, fmt_stub)]
fn heap_allocate_step() {
    tag_init();
    let p = any_pre();
    // at least two free slots: growth (EXTEND_CHUNK = 25600 slots) is outside the bound
    kani::assume(free_count(&p.reachable) >= 2);
    let (mut fl, handles) = build(&p);
    let v: u8 = kani::any();
    let new = fl.allocate(v);
    kani::cover!(p.cursor == N - 1, "cursor wrapped around");
    kani::cover!(p.held[0] || p.held[1] || p.held[2], "some handle is held");
    vassert!(new.get() == v, "the new handle does not read back the stored value");
    let mut i = 0;
    while i < N {
        if p.held[i] {
            let (r, val) = slot_state(&fl, i);
            vassert!(r && val == p.value[i], "allocation overwrote or freed a slot that is still referenced");
            vassert!(handles[i].as_ref().unwrap().get() == p.value[i], "a held handle no longer reads its value");
        }
        i += 1;
    }
    // invariant re-established
    let mut free = 0;
    i = 0;
    while i < N {
        if !slot_state(&fl, i).0 {
            free += 1;
        }
        i += 1;
    }
    vassert!(fl.alloc_count == free, "free-slot count out of step with the slots");
    vassert!(fl.cursor < N && !slot_state(&fl, fl.cursor).0, "cursor does not rest on a free slot after allocation");
    core::mem::forget(fl);
    core::mem::forget(handles);
    core::mem::forget(new);
}

// ------------------------------------------------------------------ weak collection: one step
#[kani::proof]
#[kani::unwind(5)]
#[kani::stub(std::rt::thread_cleanup, noop)]
#[kani::stub(alloc::fmt::format, fmt_stub)]
fn heap_weak_collection_step() {
    tag_init();
    let p = any_pre();
    let (mut fl, handles) = build(&p);
    let dropped = fl.weak_collection();
    kani::cover!(dropped > 0, "something reclaimed");
    kani::cover!(dropped == 0 && p.reachable[0], "nothing reclaimed");
    let mut i = 0;
    let mut free = 0;
    while i < N {
        let (r, val) = slot_state(&fl, i);
        if p.held[i] {
            vassert!(r && val == p.value[i], "weak collection reclaimed a slot that still has a handle");
        } else {
            vassert!(!r, "a slot without any handle was not reclaimed by the weak collection");
        }
        if !r {
            free += 1;
        }
        i += 1;
    }
    vassert!(fl.alloc_count == free, "free-slot count out of step with the slots");
    core::mem::forget(fl);
    core::mem::forget(handles);
}

// ------------------------------------------------------------------ mark-all-unreachable / recount
#[kani::proof]
#[kani::unwind(5)]
#[kani::stub(std::rt::thread_cleanup, noop)]
#[kani::stub(alloc::fmt::format, fmt_stub)]
fn heap_reset_and_recount_step() {
    tag_init();
    let p = any_pre();
    let (mut fl, handles) = build(&p);
    let marked: [bool; N] = kani::any(); // what the marker reaches afterwards
    fl.mark_all_unreachable();
    let mut i = 0;
    while i < N {
        vassert!(!slot_state(&fl, i).0, "mark_all_unreachable left a slot marked");
        vassert!(slot_state(&fl, i).1 == p.value[i], "mark_all_unreachable changed a stored value");
        if marked[i] {
            fl.elements[i].write().mark_reachable();
        }
        i += 1;
    }
    fl.recount();
    vassert!(fl.alloc_count == free_count(&marked), "recount disagrees with the marks");
    let pf = fl.percent_full();
    vassert!(pf >= 0.0 && pf <= 1.0, "fill ratio outside [0,1]");
    kani::cover!(free_count(&marked) == 0, "everything reached");
    kani::cover!(free_count(&marked) == N, "nothing reached");
    core::mem::forget(fl);
    core::mem::forget(handles);
}

// ------------------------------------------------------------------ growth: one step
// `grow_by(amount)` is what `allocate` / `compact` reach through `grow()` when no free slot is left (there with
// amount = EXTEND_CHUNK = 25 600, which a bounded unrolling cannot follow); the body is the same for a small
// amount.  From EVERY valid 3-slot state -- including a full heap -- `grow_by(2)`: no existing slot changes,
// the new slots are free, the free count is exact and the cursor rests on a free slot.
#[kani::proof]
#[kani::unwind(8)]
#[kani::stub(std::rt::thread_cleanup, noop)]
#[kani::stub(alloc::fmt::format, fmt_stub)]
fn heap_grow_step() {
    tag_init();
    let p = Pre { reachable: kani::any(), value: kani::any(), held: kani::any(), cursor: kani::any() };
    kani::assume(p.cursor < N);
    let full = free_count(&p.reachable) == 0;
    // between operations the cursor rests on a free slot, except on a full heap (where growth is due)
    kani::assume(full || !p.reachable[p.cursor]);
    let mut i = 0;
    while i < N {
        kani::assume(!p.held[i] || p.reachable[i]);
        i += 1;
    }
    let (mut fl, handles) = build(&p);
    let before = fl.alloc_count;
    fl.grow_by(2);
    kani::cover!(full, "heap was full");
    kani::cover!(!full && p.held[0], "heap had room and a held handle");
    let n2 = fl.elements.len();
    vassert!(n2 > N, "growth added no slots");
    i = 0;
    while i < N {
        let (r, val) = slot_state(&fl, i);
        vassert!(r == p.reachable[i] && val == p.value[i], "growth changed an existing slot");
        if p.held[i] {
            vassert!(handles[i].as_ref().unwrap().get() == p.value[i], "a held handle no longer reads its value after growth");
        }
        i += 1;
    }
    let mut free = 0;
    i = 0;
    while i < n2 {
        if !slot_state(&fl, i).0 {
            free += 1;
        }
        i += 1;
    }
    vassert!(fl.alloc_count == free, "free-slot count out of step with the slots after growth");
    vassert!(fl.alloc_count == before + (n2 - N), "growth did not add exactly the new slots to the free count");
    vassert!(fl.cursor < n2 && !slot_state(&fl, fl.cursor).0, "cursor does not rest on a free slot after growth");
    core::mem::forget(fl);
    core::mem::forget(handles);
}

// ------------------------------------------------------------------ host roots: a short symbolic history
// `Roots` keeps the values a host has rooted, keyed by (generation, offset); a `RootToken` releases its entry
// when dropped.  History: root(a); g1 generation increments; root(b); g2 increments; free one of the two
// tokens (symbolic choice).  Afterwards exactly the other value is still rooted -- a released root no longer
// keeps its value (C19), a root that has not been released still does (C04).  The FxHashMap is replaced by a
// 4-entry association list (trusted: a finite map), as for the symbol table.
use std::alloc::Allocator;
const RCAP: usize = 4;
static mut RK: [(usize, usize); RCAP] = [(0, 0); RCAP];
static mut RV: [isize; RCAP] = [0; RCAP];
static mut RU: [bool; RCAP] = [false; RCAP];

pub struct RootMapStub<K, V, S, A>(core::marker::PhantomData<(K, V, S, A)>);
impl<K, V, S, A: Allocator> RootMapStub<K, V, S, A> {
    pub fn insert(_m: &mut std::collections::HashMap<K, V, S, A>, k: K, v: V) -> Option<V> {
        assert!(core::mem::size_of::<K>() == core::mem::size_of::<(usize, usize)>());
        let key: (usize, usize) = unsafe { core::mem::transmute_copy(&k) };
        let sv: &SteelVal = unsafe { &*(&v as *const V as *const SteelVal) };
        let val = match sv {
            SteelVal::IntV(i) => *i,
            _ => {
                kani::assume(false);
                0
            }
        };
        core::mem::forget(k);
        core::mem::forget(v);
        unsafe {
            let mut i = 0;
            while i < RCAP {
                if RU[i] && RK[i] == key {
                    RV[i] = val;
                    kani::assume(false); // the histories below never overwrite an entry
                    return None;
                }
                i += 1;
            }
            i = 0;
            while i < RCAP {
                if !RU[i] {
                    RU[i] = true;
                    RK[i] = key;
                    RV[i] = val;
                    return None;
                }
                i += 1;
            }
        }
        kani::assume(false);
        None
    }
    pub fn remove<Q: ?Sized>(_m: &mut std::collections::HashMap<K, V, S, A>, k: &Q) -> Option<V> {
        let key: (usize, usize) = unsafe { core::ptr::read(k as *const Q as *const (usize, usize)) };
        unsafe {
            let mut i = 0;
            while i < RCAP {
                if RU[i] && RK[i] == key {
                    RU[i] = false;
                    return None; // the removed value is only dropped by the caller; IntV has nothing to drop
                }
                i += 1;
            }
        }
        None
    }
}
fn rooted(key: (usize, usize)) -> Option<isize> {
    unsafe {
        let mut i = 0;
        while i < RCAP {
            if RU[i] && RK[i] == key {
                return Some(RV[i]);
            }
            i += 1;
        }
    }
    None
}
fn random_state_stub2() -> std::hash::RandomState {
    unsafe { core::mem::transmute::<[u64; 2], std::hash::RandomState>([1, 2]) }
}

#[kani::proof]
#[kani::unwind(6)]
#[kani::stub(std::rt::thread_cleanup, noop)]
#[kani::stub(alloc::fmt::format, fmt_stub)]
#[kani::stub(std::collections::HashMap::insert, RootMapStub::insert)]
#[kani::stub(std::collections::HashMap::remove, RootMapStub::remove)]
#[kani::stub(std::hash::RandomState::new, random_state_stub2)]
fn heap_roots_history() {
    tag_init();
    let mut roots = Roots::default();
    let a: isize = kani::any();
    let b: isize = kani::any();
    let g1: u8 = kani::any();
    let g2: u8 = kani::any();
    kani::assume(g1 <= 2 && g2 <= 2);
    let t1 = roots.root(SteelVal::IntV(a));
    let mut i = 0;
    while i < g1 {
        roots.increment_generation();
        i += 1;
    }
    let t2 = roots.root(SteelVal::IntV(b));
    i = 0;
    while i < g2 {
        roots.increment_generation();
        i += 1;
    }
    let k1 = (t1.generation, t1.offset);
    let k2 = (t2.generation, t2.offset);
    vassert!(k1 != k2, "two live roots share a key");
    vassert!(rooted(k1) == Some(a) && rooted(k2) == Some(b), "a value that was just rooted is not in the root set");
    let first: bool = kani::any();
    if first {
        roots.free(&t1);
    } else {
        roots.free(&t2);
    }
    kani::cover!(first && g1 + g2 > 0, "released a root made in an earlier generation");
    kani::cover!(!first && g2 == 0, "released a root made in the current generation");
    let (gone, kept, kept_val) = if first { (k1, k2, b) } else { (k2, k1, a) };
    vassert!(rooted(gone).is_none(), "a released root still keeps its value alive");
    vassert!(rooted(kept) == Some(kept_val), "releasing one root dropped another one");
    core::mem::forget(t1);
    core::mem::forget(t2);
    core::mem::forget(roots);
}
