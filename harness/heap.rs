// Kani harnesses for the mutable-storage allocator (C04: never hands out / reclaims a slot that is
// still referenced; C19: accounting and reuse of unreferenced slots).  Child module of a scratch
// copy of steel-core/src/values/closed.rs.  The generic FreeList<T> code is the repository's; it
// is instantiated at T = u8 (a HeapAble impl for u8 lives here).
#![allow(dead_code, unused_imports, static_mut_refs)]
use super::*;

fn noop() {}
fn fmt_stub(_a: core::fmt::Arguments<'_>) -> String {
    String::new()
}

impl HeapAble for u8 {
    fn empty() -> Self {
        0
    }
}

const N: usize = 3;

struct Pre {
    reachable: [bool; N],
    value: [u8; N],
    held: [bool; N], // a handle (HeapRef) to the slot is held by reachable program state
    cursor: usize,
}

fn any_pre() -> Pre {
    let p = Pre { reachable: kani::any(), value: kani::any(), held: kani::any(), cursor: kani::any() };
    kani::assume(p.cursor < N);
    // representation invariant between operations
    kani::assume(!p.reachable[p.cursor]); // the cursor rests on a free slot
    let mut i = 0;
    while i < N {
        kani::assume(!p.held[i] || p.reachable[i]); // a held handle points to an allocated slot
        i += 1;
    }
    p
}

fn free_count(r: &[bool; N]) -> usize {
    let mut c = 0;
    let mut i = 0;
    while i < N {
        if !r[i] {
            c += 1;
        }
        i += 1;
    }
    c
}

/// Builds the real FreeList in the representation of `p`; returns it with the held handles.
fn build(p: &Pre) -> (FreeList<u8>, [Option<HeapRef<u8>>; N]) {
    let mut elements: Vec<HeapElement<u8>> = Vec::with_capacity(N);
    let mut handles: [Option<HeapRef<u8>>; N] = [None, None, None];
    let mut i = 0;
    while i < N {
        let mut h = HeapAllocated::new(p.value[i]);
        h.reachable = p.reachable[i];
        let slot = StandardShared::new(MutContainer::new(h));
        if p.held[i] {
            handles[i] = Some(HeapRef { inner: StandardShared::downgrade(&slot) });
        }
        elements.push(slot);
        i += 1;
    }
    let fl = FreeList {
        elements,
        cursor: p.cursor,
        alloc_count: free_count(&p.reachable),
        grow_count: 0,
        forward: None,
        backward: None,
        should_run_weak: true,
    };
    (fl, handles)
}

fn slot_state(fl: &FreeList<u8>, i: usize) -> (bool, u8) {
    let g = fl.elements[i].read();
    (g.reachable, g.value)
}

// ------------------------------------------------------------------ allocate: one step
#[kani::proof]
#[kani::unwind(5)]
#[kani::stub(std::rt::thread_cleanup, noop)]
#[kani::stub(alloc::fmt::format, fmt_stub)]
fn heap_allocate_step() {
    tag_init();
    let p = any_pre();
    // at least two free slots: growth (EXTEND_CHUNK = 25600 slots) is outside the bound
    kani::assume(free_count(&p.reachable) >= 2);
    let (mut fl, handles) = build(&p);
    let v: u8 = kani::any();
    let new = fl.allocate(v);
    kani::cover!(p.cursor == N - 1, "cursor wrapped around");
    kani::cover!(p.held[0] || p.held[1] || p.held[2], "some handle is held");
    vassert!(new.get() == v, "the new handle does not read back the stored value");
    let mut i = 0;
    while i < N {
        if p.held[i] {
            let (r, val) = slot_state(&fl, i);
            vassert!(r && val == p.value[i], "allocation overwrote or freed a slot that is still referenced");
            vassert!(handles[i].as_ref().unwrap().get() == p.value[i], "a held handle no longer reads its value");
        }
        i += 1;
    }
    // invariant re-established
    let mut free = 0;
    i = 0;
    while i < N {
        if !slot_state(&fl, i).0 {
            free += 1;
        }
        i += 1;
    }
    vassert!(fl.alloc_count == free, "free-slot count out of step with the slots");
    vassert!(fl.cursor < N && !slot_state(&fl, fl.cursor).0, "cursor does not rest on a free slot after allocation");
    core::mem::forget(fl);
    core::mem::forget(handles);
    core::mem::forget(new);
}

// ------------------------------------------------------------------ weak collection: one step
#[kani::proof]
#[kani::unwind(5)]
#[kani::stub(std::rt::thread_cleanup, noop)]
#[kani::stub(alloc::fmt::format, fmt_stub)]
fn heap_weak_collection_step() {
    tag_init();
    let p = any_pre();
    let (mut fl, handles) = build(&p);
    let dropped = fl.weak_collection();
    kani::cover!(dropped > 0, "something reclaimed");
    kani::cover!(dropped == 0 && p.reachable[0], "nothing reclaimed");
    let mut i = 0;
    let mut free = 0;
    while i < N {
        let (r, val) = slot_state(&fl, i);
        if p.held[i] {
            vassert!(r && val == p.value[i], "weak collection reclaimed a slot that still has a handle");
        } else {
            vassert!(!r, "a slot without any handle was not reclaimed by the weak collection");
        }
        if !r {
            free += 1;
        }
        i += 1;
    }
    vassert!(fl.alloc_count == free, "free-slot count out of step with the slots");
    core::mem::forget(fl);
    core::mem::forget(handles);
}

// ------------------------------------------------------------------ mark-all-unreachable / recount
#[kani::proof]
#[kani::unwind(5)]
#[kani::stub(std::rt::thread_cleanup, noop)]
#[kani::stub(alloc::fmt::format, fmt_stub)]
fn heap_reset_and_recount_step() {
    tag_init();
    let p = any_pre();
    let (mut fl, handles) = build(&p);
    let marked: [bool; N] = kani::any(); // what the marker reaches afterwards
    fl.mark_all_unreachable();
    let mut i = 0;
    while i < N {
        vassert!(!slot_state(&fl, i).0, "mark_all_unreachable left a slot marked");
        vassert!(slot_state(&fl, i).1 == p.value[i], "mark_all_unreachable changed a stored value");
        if marked[i] {
            fl.elements[i].write().mark_reachable();
        }
        i += 1;
    }
    fl.recount();
    vassert!(fl.alloc_count == free_count(&marked), "recount disagrees with the marks");
    let pf = fl.percent_full();
    vassert!(pf >= 0.0 && pf <= 1.0, "fill ratio outside [0,1]");
    kani::cover!(free_count(&marked) == 0, "everything reached");
    kani::cover!(free_count(&marked) == N, "nothing reached");
    core::mem::forget(fl);
    core::mem::forget(handles);
}
