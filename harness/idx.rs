// Kani harnesses for index- and size-taking built-in procedures (C07: no argument magnitude may
// panic the host; C11: collections behave as their mathematical models at boundary indices).
// Included as a child module of a scratch copy of steel-core/src/primitives.rs.  Every procedure
// is called through its REGISTERED wrapper `steel_<fn>(args)` (arity test and argument
// conversions included); the container is small and concrete in shape, the integer arguments
// are symbolic at full width.
#![allow(dead_code, unused_imports)]
use super::*;
use crate::rvals::SteelVal::*;
use crate::rvals::{SteelByteVector, SteelString, SteelVector};
use crate::values::lists::List;

fn noop() {}
fn fmt_stub(_a: core::fmt::Arguments<'_>) -> String {
    String::new()
}

macro_rules! idx_harness {
    ($name:ident, $unwind:expr, $body:block) => {
        #[kani::proof]
        #[kani::unwind($unwind)]
        #[kani::stub(std::rt::thread_cleanup, noop)]
        #[kani::stub(alloc::fmt::format, fmt_stub)]
        fn $name() {
            tag_init();
            $body
        }
    };
}

fn bv2(a: u8, b: u8) -> SteelVal {
    ByteVector(SteelByteVector::new(vec![a, b]))
}

fn bv_contents(v: &SteelVal) -> (usize, u8, u8) {
    if let ByteVector(b) = v {
        let g = b.vec.read();
        (g.len(), if g.len() > 0 { g[0] } else { 0 }, if g.len() > 1 { g[1] } else { 0 })
    } else {
        (usize::MAX, 0, 0)
    }
}

// ------------------------------------------------------------------ byte vectors
// (bytes-ref (bytes a b) i): the byte at i for 0 <= i < 2, an error otherwise
idx_harness!(idx_bytes_ref, 6, {
    let a: u8 = kani::any();
    let b: u8 = kani::any();
    let i: isize = kani::any();
    let args = [bv2(a, b), IntV(i)];
    let r = bytevectors::steel_bytes_ref(&args);
    kani::cover!(r.is_ok(), "index accepted");
    kani::cover!(r.is_err() && i >= 2, "index beyond the end refused");
    kani::cover!(r.is_err() && i < 0, "negative index refused");
    match &r {
        Ok(IntV(v)) => {
            vassert!(i == 0 || i == 1, "bytes-ref accepted an index outside the byte vector");
            vassert!(*v == (if i == 0 { a } else { b }) as isize, "bytes-ref returned the wrong byte");
        }
        Ok(_) => {
            vassert!(false, "bytes-ref returned a non-integer");
        }
        Err(_) => {
            vassert!(i < 0 || i >= 2, "bytes-ref refused an index inside the byte vector");
        }
    }
    core::mem::forget(r);
    core::mem::forget(args);
});

// (bytes-set! (bytes a b) i x): stores x at i for 0 <= i < 2 and 0 <= x < 256, an error (and no
// change) otherwise
idx_harness!(idx_bytes_set, 6, {
    let a: u8 = kani::any();
    let b: u8 = kani::any();
    let i: isize = kani::any();
    let x: isize = kani::any();
    let mut args = [bv2(a, b), IntV(i), IntV(x)];
    let r = bytevectors::steel_bytes_set(&mut args);
    let ok_in = (i == 0 || i == 1) && x >= 0 && x < 256;
    kani::cover!(r.is_ok(), "store accepted");
    kani::cover!(r.is_err() && i == 2, "index one past the end refused");
    let (len, c0, c1) = bv_contents(&args[0]);
    match &r {
        Ok(_) => {
            vassert!(ok_in, "bytes-set! accepted an index outside the byte vector or a non-byte value");
            vassert!(len == 2, "bytes-set! changed the length");
            vassert!(if i == 0 { c0 as isize == x && c1 == b } else { c1 as isize == x && c0 == a }, "bytes-set! stored the wrong byte or touched another one");
        }
        Err(_) => {
            vassert!(!ok_in, "bytes-set! refused a valid index and byte");
            vassert!(len == 2 && c0 == a && c1 == b, "a refused bytes-set! changed the byte vector");
        }
    }
    core::mem::forget(r);
    core::mem::forget(args);
});

// (bytes-copy (bytes a b) s e): the sub-sequence [s, e) for 0 <= s <= e <= 2, an error otherwise
idx_harness!(idx_bytes_copy, 6, {
    let a: u8 = kani::any();
    let b: u8 = kani::any();
    let s: isize = kani::any();
    let e: isize = kani::any();
    let args = [bv2(a, b), IntV(s), IntV(e)];
    let r = bytevectors::steel_bytevector_copy_new(&args);
    let ok_in = 0 <= s && s <= e && e <= 2;
    kani::cover!(r.is_ok() && s == 1 && e == 2, "inner range copied");
    kani::cover!(r.is_err() && e == 3, "end beyond the length refused");
    match &r {
        Ok(o) => {
            let (len, c0, _c1) = bv_contents(o);
            vassert!(ok_in, "bytes-copy accepted a range outside the byte vector");
            vassert!(len as isize == e - s, "bytes-copy returned the wrong number of bytes");
            vassert!(len == 0 || c0 == (if s == 0 { a } else { b }), "bytes-copy returned the wrong bytes");
        }
        Err(_) => {
            vassert!(!ok_in, "bytes-copy refused a valid range");
        }
    }
    core::mem::forget(r);
    core::mem::forget(args);
});

// (bytes->string/utf8 (bytes a b) s e) with ASCII a, b: the characters [s, e) for
// 0 <= s <= e <= 2, an error otherwise
idx_harness!(idx_bytes_to_string, 8, {
    let a: u8 = kani::any();
    let b: u8 = kani::any();
    kani::assume(a < 128 && b < 128);
    let s: isize = kani::any();
    let e: isize = kani::any();
    let args = [bv2(a, b), IntV(s), IntV(e)];
    let r = bytevectors::steel_bytes_to_string(&args);
    let ok_in = 0 <= s && s <= e && e <= 2;
    kani::cover!(r.is_ok() && e - s == 2, "whole vector decoded");
    kani::cover!(r.is_err() && e == 3 && s == 0, "end beyond the length refused");
    match &r {
        Ok(StringV(st)) => {
            let n = st.as_str().len();
            let first = if n > 0 { st.as_str().as_bytes()[0] } else { 0 };
            vassert!(ok_in, "bytes->string/utf8 accepted a range outside the byte vector");
            vassert!(n as isize == e - s, "bytes->string/utf8 returned the wrong number of characters");
            vassert!(n == 0 || first == (if s == 0 { a } else { b }), "bytes->string/utf8 returned the wrong characters");
        }
        Ok(_) => {
            vassert!(false, "bytes->string/utf8 returned a non-string");
        }
        Err(_) => {
            vassert!(!ok_in, "bytes->string/utf8 refused a valid range");
        }
    }
    core::mem::forget(r);
    core::mem::forget(args);
});

// (make-bytes k x), k <= 3: k copies of x for 0 <= x < 256, an error otherwise.  Sizes beyond 3
// are outside the claim (allocation of a symbolic size).
idx_harness!(idx_make_bytes, 8, {
    let k: isize = kani::any();
    kani::assume(k <= 3);
    let x: isize = kani::any();
    let args = [IntV(k), IntV(x)];
    let r = bytevectors::steel_make_bytes(&args);
    let ok_in = k >= 0 && x >= 0 && x < 256;
    kani::cover!(r.is_ok() && k == 3, "three bytes made");
    kani::cover!(r.is_err() && k < 0, "negative length refused");
    kani::cover!(r.is_err() && x == 256, "non-byte fill refused");
    match &r {
        Ok(o) => {
            let (len, c0, c1) = bv_contents(o);
            vassert!(ok_in, "make-bytes accepted a negative length or a non-byte fill value");
            vassert!(len as isize == k, "make-bytes returned the wrong length");
            vassert!((len < 1 || c0 as isize == x) && (len < 2 || c1 as isize == x), "make-bytes filled with the wrong value");
        }
        Err(_) => {
            vassert!(!ok_in, "make-bytes refused valid arguments");
        }
    }
    core::mem::forget(r);
    core::mem::forget(args);
});

// ------------------------------------------------------------------ strings
// "aβc": 3 characters in 4 bytes, so character and byte indices differ
fn s3() -> SteelVal {
    StringV(SteelString::from("a\u{3b2}c"))
}
const S3: [char; 3] = ['a', '\u{3b2}', 'c'];

idx_harness!(idx_string_ref, 8, {
    let i: isize = kani::any();
    let args = [s3(), IntV(i)];
    let r = strings::steel_string_ref(&args);
    kani::cover!(r.is_ok() && i == 2, "last character read");
    kani::cover!(r.is_err() && i == 3, "index = character count refused");
    match &r {
        Ok(CharV(c)) => {
            vassert!(0 <= i && i < 3, "string-ref accepted an index outside the string");
            vassert!(*c == S3[i as usize], "string-ref returned the wrong character");
        }
        Ok(_) => {
            vassert!(false, "string-ref returned a non-character");
        }
        Err(_) => {
            vassert!(i < 0 || i >= 3, "string-ref refused an index inside the string");
        }
    }
    core::mem::forget(r);
    core::mem::forget(args);
});

// (substring "aβc" i j): characters [i, j) for 0 <= i <= j <= 3, an error otherwise
idx_harness!(idx_substring, 10, {
    let i: isize = kani::any();
    let j: isize = kani::any();
    let args = [s3(), IntV(i), IntV(j)];
    let r = strings::steel_substring(&args);
    let ok_in = 0 <= i && i <= j && j <= 3;
    kani::cover!(r.is_ok() && i == 1 && j == 3, "inner range taken");
    kani::cover!(r.is_err() && j == 4, "end beyond the character count refused");
    match &r {
        Ok(StringV(st)) => {
            let s = st.as_str();
            let off = [0usize, 1, 3, 4];
            let good = ok_in && s.len() == off[j as usize] - off[i as usize] && (s.len() == 0 || s.as_bytes()[0] == "a\u{3b2}c".as_bytes()[off[i as usize]]);
            vassert!(ok_in, "substring accepted a range outside the string");
            vassert!(good, "substring returned the wrong characters");
        }
        Ok(_) => {
            vassert!(false, "substring returned a non-string");
        }
        Err(_) => {
            vassert!(!ok_in, "substring refused a valid range");
        }
    }
    core::mem::forget(r);
    core::mem::forget(args);
});

// (integer->char n): a character exactly for the Unicode scalar values
idx_harness!(idx_integer_to_char, 4, {
    let n: isize = kani::any();
    let args = [IntV(n)];
    let r = strings::steel_integer_to_char(&args);
    let scalar = (0 <= n && n < 0xD800) || (0xE000 <= n && n <= 0x10FFFF);
    kani::cover!(r.is_ok(), "scalar value accepted");
    kani::cover!(r.is_err() && n >= 0xD800 && n < 0xE000, "surrogate refused");
    kani::cover!(r.is_err() && n > (u32::MAX as isize), "beyond 32 bits refused");
    match &r {
        Ok(CharV(c)) => {
            vassert!(scalar, "integer->char accepted a non-scalar value");
            vassert!(*c as isize == n, "integer->char returned another character");
        }
        Ok(_) => {
            vassert!(false, "integer->char returned a non-character");
        }
        Err(_) => {
            vassert!(!scalar, "integer->char refused a scalar value");
        }
    }
    core::mem::forget(r);
    core::mem::forget(args);
});

// ------------------------------------------------------------------ lists
fn l2(a: isize, b: isize) -> SteelVal {
    ListV(vec![IntV(a), IntV(b)].into_iter().collect::<List<SteelVal>>())
}

idx_harness!(idx_list_ref, 8, {
    let a: isize = kani::any();
    let b: isize = kani::any();
    let i: isize = kani::any();
    let args = [l2(a, b), IntV(i)];
    let r = lists::steel_list_ref(&args);
    kani::cover!(r.is_ok() && i == 1, "last element read");
    kani::cover!(r.is_err() && i == 2, "index = length refused");
    match &r {
        Ok(IntV(v)) => {
            vassert!(i == 0 || i == 1, "list-ref accepted an index outside the list");
            vassert!(*v == (if i == 0 { a } else { b }), "list-ref returned the wrong element");
        }
        Ok(_) => {
            vassert!(false, "list-ref returned something that is not an element");
        }
        Err(_) => {
            vassert!(i < 0 || i >= 2, "list-ref refused an index inside the list");
        }
    }
    core::mem::forget(r);
    core::mem::forget(args);
});

fn list_len_first(v: &SteelVal) -> (usize, isize) {
    if let ListV(l) = v {
        (l.len(), match l.get(0) { Some(IntV(x)) => *x, _ => -1 })
    } else {
        (usize::MAX, -1)
    }
}

// (list-tail (list a b) k): the list without its first k elements for 0 <= k <= 2, else an error
idx_harness!(idx_list_tail, 8, {
    let a: isize = kani::any();
    let b: isize = kani::any();
    kani::assume(a >= 0 && b >= 0);
    let k: isize = kani::any();
    let args = [l2(a, b), IntV(k)];
    let r = lists::steel_list_tail(&args);
    kani::cover!(r.is_ok() && k == 2, "whole list skipped");
    kani::cover!(r.is_err() && k == 3, "more than the length refused");
    match &r {
        Ok(o) => {
            let (len, first) = list_len_first(o);
            vassert!(0 <= k && k <= 2, "list-tail accepted a position outside the list");
            vassert!(len as isize == 2 - k, "list-tail returned a list of the wrong length");
            vassert!(len == 0 || first == (if k == 0 { a } else { b }), "list-tail returned the wrong elements");
        }
        Err(_) => {
            vassert!(k < 0 || k > 2, "list-tail refused a position inside the list");
        }
    }
    core::mem::forget(r);
    core::mem::forget(args);
});

// (take (list a b) n): the first min(n, 2) elements for n >= 0, an error for n < 0
idx_harness!(idx_take, 8, {
    let a: isize = kani::any();
    let b: isize = kani::any();
    kani::assume(a >= 0 && b >= 0);
    let n: isize = kani::any();
    let args = [l2(a, b), IntV(n)];
    let r = lists::steel_take(&args);
    kani::cover!(r.is_ok() && n == 1, "one element taken");
    kani::cover!(r.is_ok() && n > 2, "more than the length asked for");
    match &r {
        Ok(o) => {
            let (len, first) = list_len_first(o);
            vassert!(n >= 0, "take accepted a negative count");
            vassert!(len as isize == (if n > 2 { 2 } else { n }), "take returned a list of the wrong length");
            vassert!(len == 0 || first == a, "take returned the wrong elements");
        }
        Err(_) => {
            vassert!(n < 0, "take refused a valid count");
        }
    }
    core::mem::forget(r);
    core::mem::forget(args);
});

// ------------------------------------------------------------------ immutable vectors
fn v2(a: isize, b: isize) -> SteelVal {
    VectorV(vec![IntV(a), IntV(b)].into_iter().collect::<SteelVector>())
}

idx_harness!(idx_vector_ref, 8, {
    let a: isize = kani::any();
    let b: isize = kani::any();
    let i: isize = kani::any();
    let args = [v2(a, b), IntV(i)];
    let r = vectors::steel_vec_ref(&args);
    kani::cover!(r.is_ok() && i == 1, "last element read");
    kani::cover!(r.is_err() && i == 2, "index = length refused");
    match &r {
        Ok(IntV(v)) => {
            vassert!(i == 0 || i == 1, "vector-ref accepted an index outside the vector");
            vassert!(*v == (if i == 0 { a } else { b }), "vector-ref returned the wrong element");
        }
        Ok(_) => {
            vassert!(false, "vector-ref returned something that is not an element");
        }
        Err(_) => {
            vassert!(i < 0 || i >= 2, "vector-ref refused an index inside the vector");
        }
    }
    core::mem::forget(r);
    core::mem::forget(args);
});

fn vec_len_first(v: &SteelVal) -> (usize, isize) {
    if let VectorV(l) = v {
        (l.0.len(), match l.0.get(0) { Some(IntV(x)) => *x, _ => -1 })
    } else {
        (usize::MAX, -1)
    }
}

// (immutable-vector-take (immutable-vector a b) n): the first min(n, 2) elements (an error is
// also acceptable for n > 2; a panic is not), shared and unshared vector
idx_harness!(idx_vector_take, 8, {
    let a: isize = kani::any();
    let b: isize = kani::any();
    kani::assume(a >= 0 && b >= 0);
    let n: isize = kani::any();
    let shared: bool = kani::any();
    let v = v2(a, b);
    let alias = if shared { Some(v.clone()) } else { None };
    let mut args = [v, IntV(n)];
    let r = vectors::steel_immutable_vector_take(&mut args);
    kani::cover!(r.is_ok() && n == 1 && shared, "one element taken from a shared vector");
    kani::cover!(r.is_ok() && n == 1 && !shared, "one element taken from an unshared vector");
    match &r {
        Ok(o) => {
            let (len, first) = vec_len_first(o);
            vassert!(n >= 0, "immutable-vector-take accepted a negative count");
            vassert!(len as isize == (if n > 2 { 2 } else { n }), "immutable-vector-take returned a vector of the wrong length");
            vassert!(len == 0 || first == a, "immutable-vector-take returned the wrong elements");
        }
        Err(_) => {
            vassert!(n < 0 || n > 2, "immutable-vector-take refused a valid count");
        }
    }
    if let Some(al) = alias {
        let (len, first) = vec_len_first(&al);
        vassert!(len == 2 && first == a, "immutable-vector-take changed a vector that another holder still has");
        core::mem::forget(al);
    }
    core::mem::forget(r);
    core::mem::forget(args);
});
