// Native replay for the arity check (C20, E3): registers host functions of 0..4 by-value
// parameters on an Engine and on a BuiltInModule and calls each from a script with the argument
// counts the solver returned (VERIF_ARITY_LENS="l1,l2").  A host function that runs although the
// script passed a different number of arguments is the violation.
use std::sync::atomic::{AtomicUsize, Ordering};
use steel::steel_vm::builtin::BuiltInModule;
use steel::steel_vm::engine::Engine;
use steel::steel_vm::register_fn::RegisterFn;

static CALLS: AtomicUsize = AtomicUsize::new(0);

fn h0() -> isize {
    CALLS.fetch_add(1, Ordering::SeqCst);
    0
}
fn h1(a: isize) -> isize {
    CALLS.fetch_add(1, Ordering::SeqCst);
    a
}
fn h2(a: isize, b: isize) -> isize {
    CALLS.fetch_add(1, Ordering::SeqCst);
    a + b
}
fn h3(a: isize, b: isize, c: isize) -> isize {
    CALLS.fetch_add(1, Ordering::SeqCst);
    a + b + c
}
fn h4(a: isize, b: isize, c: isize, d: isize) -> isize {
    CALLS.fetch_add(1, Ordering::SeqCst);
    a + b + c + d
}

#[test]
fn arity_replay() {
    let lens: Vec<usize> = std::env::var("VERIF_ARITY_LENS")
        .expect("VERIF_ARITY_LENS")
        .split(',')
        .filter_map(|x| x.trim().parse().ok())
        .filter(|l| *l <= 12)
        .collect();
    let mut engine = Engine::new();
    engine.register_fn("host0", h0);
    engine.register_fn("host1", h1);
    engine.register_fn("host2", h2);
    engine.register_fn("host3", h3);
    engine.register_fn("host4", h4);
    let mut module = BuiltInModule::new("verif/arity");
    module.register_fn("mhost0", h0);
    module.register_fn("mhost1", h1);
    module.register_fn("mhost2", h2);
    module.register_fn("mhost3", h3);
    module.register_fn("mhost4", h4);
    engine.register_module(module);
    engine.run("(require-builtin verif/arity)".to_string()).unwrap();
    let mut bad = Vec::new();
    for n in 0..=4usize {
        for l in &lens {
            if *l == n {
                continue;
            }
            for prefix in ["host", "mhost"] {
                let args: Vec<String> = (0..*l).map(|i| (i + 1).to_string()).collect();
                let prog = format!("({}{} {})", prefix, n, args.join(" "));
                let before = CALLS.load(Ordering::SeqCst);
                let res = engine.run(prog.clone());
                if CALLS.load(Ordering::SeqCst) != before {
                    bad.push(format!("{} invoked the {}-parameter host function (result {:?})", prog, n, res.map(|v| format!("{:?}", v)).map_err(|e| e.to_string())));
                }
            }
        }
    }
    if bad.is_empty() {
        println!("COMPLETED: every call with a wrong number of arguments was refused");
    } else {
        println!("OBSERVED: {}", bad.join("; "));
        std::process::exit(3);
    }
}

// Native replay for the argument-vector bounds check (C07, E3b): VERIF_BOUNDS_NAME is the script
// name of a built-in procedure, VERIF_BOUNDS_LEN the argument count the solver returned.  The
// procedure is called from a script with that many arguments, for several kinds of filler
// values; a panic in the host is the violation.
#[test]
fn bounds_replay() {
    let name = std::env::var("VERIF_BOUNDS_NAME").expect("VERIF_BOUNDS_NAME");
    let len: usize = std::env::var("VERIF_BOUNDS_LEN").ok().and_then(|x| x.parse().ok()).expect("VERIF_BOUNDS_LEN");
    if len > 12 {
        println!("NOT-REPLAYABLE: argument count {} is not something a script writes down", len);
        return;
    }
    let fillers = ["1", "\"s\"", "(list 1 2)", "(vector 1 2)", "(hash)", "#\\a", "1.5", "(lambda (x) x)", "(box 1)", "'sym"];
    std::panic::set_hook(Box::new(|_| {}));
    for f in fillers.iter() {
        let args: Vec<&str> = (0..len).map(|_| *f).collect();
        let src = format!("({} {})", name, args.join(" "));
        let src2 = src.clone();
        let r = std::panic::catch_unwind(std::panic::AssertUnwindSafe(move || {
            let mut engine = Engine::new();
            let _ = engine.run("(require-builtin steel/time)".to_string());
            engine.run(src2).map(|_| ()).map_err(|e| e.to_string())
        }));
        if let Err(p) = r {
            let msg = p.downcast_ref::<String>().cloned().or_else(|| p.downcast_ref::<&str>().map(|s| s.to_string())).unwrap_or_default();
            println!("OBSERVED: evaluating {} panicked in the host instead of returning an error: {}", src, msg.chars().take(160).collect::<String>());
            return;
        }
    }
    println!("COMPLETED: ({} ...) with {} arguments returned a value or an error for every filler kind", name, len);
}

// Native replay for the argument-mapping check (C20, E3): VERIF_MAP_N = number of parameters of
// the host function, VERIF_MAP_K = the parameter position the solver says is fed from another
// argument.  A host function of N integer parameters that returns them as a list is registered
// (Engine and BuiltInModule) and called with N distinct integers; any parameter that did not
// receive the argument written at its position is the violation.
macro_rules! host_list_fns {
    ($( $name:ident ( $($p:ident),* ) ),* $(,)?) => {
        $( fn $name($($p: isize),*) -> Vec<isize> { vec![$($p),*] } )*
    };
}
host_list_fns!(
    m1(a), m2(a, b), m3(a, b, c), m4(a, b, c, d), m5(a, b, c, d, e), m6(a, b, c, d, e, f), m7(a, b, c, d, e, f, g),
    m8(a, b, c, d, e, f, g, h), m9(a, b, c, d, e, f, g, h, i), m10(a, b, c, d, e, f, g, h, i, j),
    m11(a, b, c, d, e, f, g, h, i, j, k), m12(a, b, c, d, e, f, g, h, i, j, k, l), m13(a, b, c, d, e, f, g, h, i, j, k, l, m),
    m14(a, b, c, d, e, f, g, h, i, j, k, l, m, n), m15(a, b, c, d, e, f, g, h, i, j, k, l, m, n, o),
    m16(a, b, c, d, e, f, g, h, i, j, k, l, m, n, o, p),
);

#[test]
fn mapping_replay() {
    let n: usize = std::env::var("VERIF_MAP_N").ok().and_then(|x| x.parse().ok()).expect("VERIF_MAP_N");
    let mut engine = Engine::new();
    let mut module = BuiltInModule::new("verif/mapping");
    macro_rules! reg {
        ($($k:expr => $f:ident),*) => { $( engine.register_fn(concat!("map", stringify!($k)), $f); module.register_fn(concat!("mmap", stringify!($k)), $f); )* };
    }
    reg!(1 => m1, 2 => m2, 3 => m3, 4 => m4, 5 => m5, 6 => m6, 7 => m7, 8 => m8, 9 => m9, 10 => m10, 11 => m11, 12 => m12, 13 => m13, 14 => m14, 15 => m15, 16 => m16);
    engine.register_module(module);
    engine.run("(require-builtin verif/mapping)".to_string()).unwrap();
    if n == 0 || n > 16 {
        println!("NOT-REPLAYABLE: no host function of {} parameters in the replay harness", n);
        return;
    }
    let mut bad = Vec::new();
    for prefix in ["map", "mmap"] {
        let args: Vec<String> = (0..n).map(|i| (100 + i).to_string()).collect();
        let prog = format!("({}{} {})", prefix, n, args.join(" "));
        match engine.run(prog.clone()) {
            Ok(vals) => {
                let got: Vec<isize> = match vals.last() {
                    Some(v) => <Vec<isize> as steel::rvals::FromSteelVal>::from_steelval(v).unwrap_or_default(),
                    None => Vec::new(),
                };
                for (i, g) in got.iter().enumerate() {
                    if *g != 100 + i as isize {
                        bad.push(format!("{}: parameter {} of the host function received {} (the argument written at position {}) instead of {}", prog, i, g, g - 100, 100 + i));
                    }
                }
                if got.len() != n {
                    bad.push(format!("{}: host function returned {} parameters", prog, got.len()));
                }
            }
            Err(e) => bad.push(format!("{}: refused: {}", prog, e)),
        }
    }
    if bad.is_empty() {
        println!("COMPLETED: every parameter received the argument written at its position");
    } else {
        println!("OBSERVED: {}", bad.join("; "));
    }
}

// Native replay for the argument-kind check (C07 / C10, E3c): VERIF_KINDS_CALL is a script call whose
// argument kinds (and integer payloads) are the solver's model.  A panic in the host is the violation.
#[test]
fn kinds_replay() {
    let call = std::env::var("VERIF_KINDS_CALL").expect("VERIF_KINDS_CALL");
    std::panic::set_hook(Box::new(|_| {}));
    let src = call.clone();
    let r = std::panic::catch_unwind(std::panic::AssertUnwindSafe(move || {
        let mut engine = Engine::new();
        let _ = engine.run("(require-builtin steel/time)".to_string());
        engine.run(src).map(|_| ()).map_err(|e| e.to_string())
    }));
    match r {
        Err(p) => {
            let msg = p.downcast_ref::<String>().cloned().or_else(|| p.downcast_ref::<&str>().map(|s| s.to_string())).unwrap_or_default();
            println!("OBSERVED: evaluating {} panicked in the host instead of returning a value or an error: {}", call, msg.chars().take(160).collect::<String>());
        }
        Ok(res) => println!("COMPLETED: {} returned {:?}", call, res.map_err(|e| e.chars().take(80).collect::<String>())),
    }
}

// Native replay for the tracing-table check (C04 / C06, E3d): VERIF_TRACE_KIND names a value kind the
// solver says the marker never looks into.  A box holding 42 is made reachable ONLY through a value of
// that kind, a full collection runs, the box heap is churned so that any slot believed free is handed
// out again, and the box is read back.
#[test]
fn trace_replay() {
    let kind = std::env::var("VERIF_TRACE_KIND").expect("VERIF_TRACE_KIND");
    // (constructor of the holder around X, accessor giving X back from `h`)
    let (wrap, unwrap) = match kind.as_str() {
        "Boxed" => ("(box-strong X)", "(unbox-strong h)"),
        "VectorV" => ("(immutable-vector 1 X)", "(vector-ref h 1)"),
        "ListV" => ("(list 1 X)", "(list-ref h 1)"),
        "Pair" => ("(cons 1 X)", "(cdr h)"),
        "HashMapV" => ("(hash 'k X)", "(hash-ref h 'k)"),
        "HashSetV" => ("(hashset X)", "(car (hashset->list h))"),
        "Closure" => ("(let ((b X)) (lambda () b))", "(h)"),
        "MutableVector" => ("(vector 1 X)", "(vector-ref h 1)"),
        "HeapAllocated" => ("(box X)", "(unbox h)"),
        _ => {
            println!("NOT-REPLAYABLE: no recipe for a holder of kind {}", kind);
            return;
        }
    };
    let program = format!(
        r#"
        (define h {})
        (#%gc-collect)
        (define (churn n) (if (= n 0) 'done (begin (box (+ n 1000)) (churn (- n 1)))))
        (churn 300000)
        (#%gc-collect)
        (churn 300000)
        (unbox {})
    "#,
        wrap.replace("X", "(box 42)"),
        unwrap
    );
    let mut engine = Engine::new();
    match engine.compile_and_run_raw_program(program) {
        Ok(vals) => {
            let got = vals.last().map(|v| v.to_string()).unwrap_or_default();
            if got == "42" {
                println!("COMPLETED: the box behind a {} kept its contents", kind);
            } else {
                println!("OBSERVED: a box reachable only through a value of kind {} read back {} instead of 42 after a collection and later allocations", kind, got);
            }
        }
        Err(e) => println!("OBSERVED: reading a box reachable only through a value of kind {} failed after a collection: {}", kind, e.to_string().chars().take(160).collect::<String>()),
    }
}

// Native replay for the tracing-table check on the global-slot recycler (C06, E3d): a function that
// refers to an earlier definition of `helper` is reachable ONLY through a value of kind
// VERIF_TRACE_KIND held by a global; `helper` is redefined, a thousand shadowed definitions trigger the
// recycling of global slots, new definitions take the released slots; the old function must still
// call its own `helper`.
#[test]
fn recycler_replay() {
    let kind = std::env::var("VERIF_TRACE_KIND").expect("VERIF_TRACE_KIND");
    let (wrap, unwrap) = match kind.as_str() {
        "Closure" => ("(let ((b X)) (lambda () b))", "(h)"),
        "Boxed" => ("(box-strong X)", "(unbox-strong h)"),
        "VectorV" => ("(immutable-vector 1 X)", "(vector-ref h 1)"),
        "ListV" => ("(list 1 X)", "(list-ref h 1)"),
        "Pair" => ("(cons 1 X)", "(cdr h)"),
        "HashMapV" => ("(hash 'k X)", "(hash-ref h 'k)"),
        "MutableVector" => ("(vector 1 X)", "(vector-ref h 1)"),
        "HeapAllocated" => ("(box X)", "(unbox h)"),
        _ => {
            println!("NOT-REPLAYABLE: no recipe for a holder of kind {}", kind);
            return;
        }
    };
    let mut engine = Engine::new();
    let mut eval = |src: String| -> Result<String, String> {
        engine.run(src).map(|vals| vals.last().map(|v| v.to_string()).unwrap_or_default()).map_err(|e| e.to_string())
    };
    eval("(define (helper) 'old)".to_string()).unwrap();
    // the function that refers to `helper` is a lambda literal of this top-level expression: its code is owned by
    // no global function, it is reachable only through the holder
    eval(format!("(define h {})", wrap.replace("X", "(lambda () (list (helper)))"))).unwrap();
    let call = format!("({})", unwrap);
    let before = eval(call.clone());
    eval("(define (helper) 'new)".to_string()).unwrap();
    for i in 0..1000 {
        eval(format!("(define junk {})", i)).unwrap();
    }
    for i in 0..50 {
        eval(format!("(define (intruder{}) 'intruder)", i)).unwrap();
    }
    let after = eval(call.clone());
    if before == Ok("(old)".to_string()) && after != before {
        println!("OBSERVED: a function reachable only through a value of kind {} called {:?} instead of its own earlier definition after global slots were recycled", kind, after);
    } else {
        println!("COMPLETED: before {:?}, after {:?}", before, after);
    }
}

// Native replay for the mark-bit order check (C04, E3e): a mutable vector reachable only through a box and a
// box reachable only through a mutable vector, then pressure on BOTH slot lists (120 000 live vectors, 120 000
// live boxes) so that full collections triggered by either list run, then more churn; both must read back.
#[test]
fn order_replay() {
    let program = r#"
        (define b (box (vector 1 2 3)))
        (define v (vector 0 (box 42)))
        (define (make-cell) (let ((c (vector 'a 'b))) (lambda (msg) (if (eq? msg 'get) c (set! c (vector msg msg))))))
        (define cell (make-cell))
        (cell 'x)
        (define (fill-v i acc) (if (= i 120000) acc (fill-v (+ i 1) (cons (vector i) acc))))
        (define keep-v (fill-v 0 '()))
        (define (fill-b i acc) (if (= i 120000) acc (fill-b (+ i 1) (cons (box i) acc))))
        (define keep-b (fill-b 0 '()))
        (define (churn n) (if (= n 0) 'done (begin (box n) (vector n) (churn (- n 1)))))
        (churn 200000)
        (list (vector->list (unbox b)) (unbox (vector-ref v 1)) (vector->list (cell 'get)) (length keep-v) (length keep-b))
    "#;
    let mut engine = Engine::new();
    match engine.compile_and_run_raw_program(program) {
        Ok(vals) => {
            let got = vals.last().map(|v| v.to_string()).unwrap_or_default();
            let want = engine.compile_and_run_raw_program("(list (list 1 2 3) 42 (list 'x 'x) 120000 120000)").unwrap().pop().unwrap().to_string();
            if got == want {
                println!("COMPLETED: {}", got);
            } else {
                println!("OBSERVED: storage reachable only through a slot of the other list lost its contents across collections: got {} instead of {}", got, want);
            }
        }
        Err(e) => println!("OBSERVED: reading reachable storage failed after collections: {}", e.to_string().chars().take(160).collect::<String>()),
    }
    // second scenario: the full collection is started inside `make-vector` (Heap::allocate_vector_iter) while a vector
    // is reachable only through a box; then every free vector slot is handed out again
    let program2 = r#"
        (define holder (box (vector 'a 'b 'c)))
        (define (build n acc) (if (= n 0) acc (build (- n 1) (cons (make-vector 1 n) acc))))
        (define ballast (build 30000 '()))
        (define (vchurn n) (if (= n 0) 'done (begin (make-vector 3 'junk) (vchurn (- n 1)))))
        (vchurn 150000)
        (list (vector->list (unbox holder)) (length ballast))
    "#;
    let mut engine = Engine::new();
    match engine.compile_and_run_raw_program(program2) {
        Ok(vals) => {
            let got = vals.last().map(|v| v.to_string()).unwrap_or_default();
            let want = engine.compile_and_run_raw_program("(list (list 'a 'b 'c) 30000)").unwrap().pop().unwrap().to_string();
            if got != want {
                println!("OBSERVED: a vector reachable only through a box lost its contents across a collection started by make-vector: got {} instead of {}", got, want);
            } else {
                println!("COMPLETED (make-vector scenario): {}", got);
            }
        }
        Err(e) => println!("OBSERVED: reading a vector reachable only through a box failed after a collection started by make-vector: {}", e.to_string().chars().take(160).collect::<String>()),
    }
}

// Native replay for the opcode-scan check (C06, E3f): a function compiled earlier assigns a global with `set!`
// (opcode SET carrying the global's slot; `set!` returns the previous value).  The function is called once (the
// binding now holds 'first), the global is redefined (the old slot becomes a reclamation candidate whose only user
// is that SET instruction), a thousand shadowed definitions trigger the recycling of global slots and fifty new
// definitions follow.  Called again, the old function must still see ITS binding: the previous value it gets back
// is 'first, and no later definition changes.
#[test]
fn opscan_replay() {
    let mut engine = Engine::new();
    let mut eval = |src: String| -> Result<String, String> {
        engine.run(src).map(|vals| vals.last().map(|v| v.to_string()).unwrap_or_default()).map_err(|e| e.to_string())
    };
    eval("(define counter 0)".to_string()).unwrap();
    eval("(define (bump! v) (set! counter v))".to_string()).unwrap();
    let first = eval("(bump! 'first)".to_string());
    eval("(define counter 100)".to_string()).unwrap();
    for i in 0..1000 {
        eval(format!("(define junk {})", i)).unwrap();
    }
    for i in 0..50 {
        eval(format!("(define victim{} 'v{})", i, i)).unwrap();
    }
    let second = eval("(bump! 'second)".to_string());
    let mut bad = Vec::new();
    if first != Ok("0".to_string()) {
        println!("NOT-REPLAYABLE: set! did not return the previous value ({:?})", first);
        return;
    }
    if second != Ok("first".to_string()) {
        bad.push(format!("the old function's second (set! counter ..) found {:?} in its slot instead of 'first", second));
    }
    for i in 0..50 {
        let got = eval(format!("victim{}", i));
        if got != Ok(format!("v{}", i)) {
            bad.push(format!("victim{} = {:?}", i, got));
        }
    }
    let junk = eval("junk".to_string());
    let counter = eval("counter".to_string());
    if junk != Ok("999".to_string()) {
        bad.push(format!("junk = {:?}", junk));
    }
    if counter != Ok("100".to_string()) {
        bad.push(format!("counter = {:?}", counter));
    }
    if bad.is_empty() {
        println!("COMPLETED: the earlier function still assigns its own binding");
    } else {
        println!("OBSERVED: a function compiled before a redefinition assigns (set!) into a global slot that was recycled for later definitions: {}", bad.join(", "));
    }
}

// Native replay for the equality arm-table check (C11, E3g): VERIF_EQ_EXPR is an expression of the kind the solver
// named; two separately built equal values of that kind must be equal? on their own AND inside a list / a vector /
// a pair.
#[test]
fn eqtab_replay() {
    let x = std::env::var("VERIF_EQ_EXPR").expect("VERIF_EQ_EXPR");
    let mut engine = Engine::new();
    let mut eval = |src: String| -> Result<String, String> {
        engine.run(src).map(|vals| vals.last().map(|v| v.to_string()).unwrap_or_default()).map_err(|e| e.to_string())
    };
    let top = eval(format!("(equal? {} {})", x, x));
    let forms = [("list", format!("(equal? (list {} 1) (list {} 1))", x, x)), ("vector", format!("(equal? (immutable-vector {}) (immutable-vector {}))", x, x)), ("pair", format!("(equal? (cons 1 {}) (cons 1 {}))", x, x))];
    let mut bad = Vec::new();
    for (name, src) in forms.iter() {
        let r = eval(src.clone());
        if r != top {
            bad.push(format!("inside a {}: {:?}", name, r));
        }
    }
    if top == Ok("#true".to_string()) && !bad.is_empty() {
        println!("OBSERVED: (equal? {} {}) is #true but the same two values are not equal? {}", x, x, bad.join(", "));
    } else {
        println!("COMPLETED: top level {:?}, nested agrees: {}", top, bad.is_empty());
    }
}

// ---------------------------------------------------------------------------------------------
// E3i replay (C20): a reference DERIVED from a lent `&mut` parent through a registered
// `Fn(&mut SELF) -> &mut RET` / `Fn(&mut SELF) -> &RET` / `Fn(&mut SELF, ARG) -> &RET` must keep the
// parent from being used mutably while the script holds it, and must be dead once the lending call
// has ended.  Exercised for `Engine` and for `BuiltInModule` registrations.
mod lend {
    use steel::gc::unsafe_erased_pointers::CustomReference;
    use steel::rvals::{Result, SteelVal};
    use steel::steel_vm::builtin::BuiltInModule;
    use steel::steel_vm::engine::Engine;
    use steel::steel_vm::register_fn::{MarkerWrapper7, MarkerWrapper8, RegisterFn};

    pub struct Item {
        pub value: usize,
    }
    pub struct Shelf {
        pub items: Vec<Item>,
    }
    impl Shelf {
        fn first(&mut self) -> &Item {
            &self.items[0]
        }
        fn first_mut(&mut self) -> &mut Item {
            &mut self.items[0]
        }
        fn nth(&mut self, idx: usize) -> &Item {
            &self.items[idx]
        }
        fn grow(&mut self) -> usize {
            for i in 0..1024 {
                self.items.push(Item { value: i });
            }
            self.items.len()
        }
    }
    impl Item {
        fn value(&self) -> usize {
            self.value
        }
    }
    impl CustomReference for Item {}
    steel::custom_reference!(Item);
    impl CustomReference for Shelf {}
    steel::custom_reference!(Shelf);

    fn engine(module: bool) -> Engine {
        let mut engine = Engine::new();
        if module {
            let mut m = BuiltInModule::new("verif/lend");
            RegisterFn::<_, MarkerWrapper8<(Shelf, Item, Item, Shelf)>, Item>::register_fn(&mut m, "shelf-first", Shelf::first);
            RegisterFn::<_, MarkerWrapper8<(Shelf, usize, Item, Item, Shelf)>, Item>::register_fn(&mut m, "shelf-nth", Shelf::nth);
            RegisterFn::<_, MarkerWrapper7<(Shelf, Item, Item, Shelf)>, Item>::register_fn(&mut m, "shelf-first-mut", Shelf::first_mut);
            m.register_fn("shelf-grow!", Shelf::grow);
            m.register_fn("item-value", Item::value);
            engine.register_module(m);
            engine.run("(require-builtin verif/lend)".to_string()).unwrap();
        } else {
            RegisterFn::<_, MarkerWrapper8<(Shelf, Item, Item, Shelf)>, Item>::register_fn(&mut engine, "shelf-first", Shelf::first);
            RegisterFn::<_, MarkerWrapper8<(Shelf, usize, Item, Item, Shelf)>, Item>::register_fn(&mut engine, "shelf-nth", Shelf::nth);
            RegisterFn::<_, MarkerWrapper7<(Shelf, Item, Item, Shelf)>, Item>::register_fn(&mut engine, "shelf-first-mut", Shelf::first_mut);
            engine.register_fn("shelf-grow!", Shelf::grow);
            engine.register_fn("item-value", Item::value);
        }
        engine
    }

    fn run(engine: &mut Engine, shelf: &mut Shelf, script: &'static str) -> Result<SteelVal> {
        engine.run_thunk_with_reference::<Shelf, Shelf>(shelf, |engine, shelf| {
            engine.register_value("*shelf*", shelf);
            engine.compile_and_run_raw_program(script).map(|x| x.into_iter().last().unwrap_or(SteelVal::Void))
        })
    }

    pub fn probe() -> Vec<String> {
        let mut bad = Vec::new();
        for module in [false, true] {
            let how = if module { "BuiltInModule" } else { "Engine" };
            for (shape, derive) in [("Fn(&mut SELF) -> &RET", "(shelf-first *shelf*)"), ("Fn(&mut SELF, ARG) -> &RET", "(shelf-nth *shelf* 1)"),
                                    ("Fn(&mut SELF) -> &mut RET", "(shelf-first-mut *shelf*)")] {
                let mut e = engine(module);
                // sanity: the derived reference works inside the lending call
                let mut shelf = Shelf { items: vec![Item { value: 7 }, Item { value: 8 }] };
                let script: &'static str = Box::leak(format!("(define item {}) (item-value item)", derive).into_boxed_str());
                match run(&mut e, &mut shelf, script) {
                    Ok(SteelVal::IntV(7)) | Ok(SteelVal::IntV(8)) => {}
                    other => {
                        eprintln!("NOTE: {} via {}: derived reference unusable: {:?}", shape, how, other.map(|x| x.to_string()));
                        continue;
                    }
                }
                // (1) parent used mutably while the derived reference is held
                let mut shelf = Shelf { items: vec![Item { value: 7 }, Item { value: 8 }] };
                let script: &'static str = Box::leak(format!("(define item {}) (shelf-grow! *shelf*)", derive).into_boxed_str());
                let r = run(&mut e, &mut shelf, script);
                if r.is_ok() || shelf.items.len() != 2 {
                    bad.push(format!("{} registered on {}: the parent was mutated (grew to {} items) while the script held a reference derived from it", shape, how, shelf.items.len()));
                }
                // (2) the derived reference used after the lending call has ended
                let mut shelf = Shelf { items: vec![Item { value: 7 }, Item { value: 8 }] };
                let script: &'static str = Box::leak(format!("(define stash {}) 1", derive).into_boxed_str());
                let _ = run(&mut e, &mut shelf, script);
                drop(shelf);
                let r = e.compile_and_run_raw_program("(item-value stash)");
                if r.is_ok() {
                    bad.push(format!("{} registered on {}: a derived reference stashed in a global was still usable after the lending call ended", shape, how));
                }
            }
        }
        bad
    }
}

#[test]
fn lend_replay() {
    let bad = lend::probe();
    if !bad.is_empty() {
        println!("OBSERVED: {}", bad.join("; "));
    } else {
        println!("COMPLETED: every derived reference blocked its parent and died with the lending call");
    }
}

// ---------------------------------------------------------------------------------------------
// E3j replay (C11): `equal?` on pairs of values of one kind (VERIF_EQ_PAIRS = "A|B|t;;A|B|f;;..."), on the
// values themselves and nested in a list; an answer that differs from the expected one is the violation.
#[test]
fn eqsides_replay() {
    let spec = std::env::var("VERIF_EQ_PAIRS").expect("VERIF_EQ_PAIRS");
    let mut engine = Engine::new();
    // shared sub-objects for the DAG pairs (globals, so that the same object really occurs twice)
    engine
        .run("(define ys-list (list 1 2)) (define ys-vec (immutable-vector 1 2)) (define ys-pair (cons 1 2)) (define ys-hash (hash 1 2)) (define ys-mvec (vector 1 2))".to_string())
        .unwrap();
    let mut bad = Vec::new();
    for item in spec.split(";;").filter(|x| !x.trim().is_empty()) {
        let parts: Vec<&str> = item.split('|').collect();
        if parts.len() != 3 {
            continue;
        }
        let (a, b, want) = (parts[0], parts[1], if parts[2] == "t" { "#true" } else { "#false" });
        for src in [format!("(equal? {} {})", a, b), format!("(equal? (list {} 1) (list {} 1))", a, b)] {
            let got = engine.run(src.clone()).map(|vals| vals.last().map(|v| v.to_string()).unwrap_or_default()).map_err(|e| e.to_string());
            if got != Ok(want.to_string()) {
                bad.push(format!("{} => {:?} (expected {})", src, got, want));
            }
        }
    }
    if bad.is_empty() {
        println!("COMPLETED: all pairs answered as expected");
    } else {
        println!("OBSERVED: {}", bad.join("; "));
    }
}

// ---------------------------------------------------------------------------------------------
// E3d (bypass) replay, recycler: TWO instances of one lambda, each capturing a different function that was compiled
// against an earlier definition; both definitions are then shadowed and global slots are recycled.  If the recycler
// leaves a visit method early for the second instance, one of the captured functions loses its slot.
#[test]
fn recycler2_replay() {
    let mut engine = Engine::new();
    let mut eval = |src: String| -> Result<String, String> {
        engine.run(src).map(|vals| vals.last().map(|v| v.to_string()).unwrap_or_default()).map_err(|e| e.to_string())
    };
    eval("(define (helper-a) 'old-a) (define (helper-b) 'old-b)".to_string()).unwrap();
    eval("(define (make f) (lambda () (f)))".to_string()).unwrap();
    eval("(define keep (list (make (lambda () (list (helper-a)))) (make (lambda () (list (helper-b))))))".to_string()).unwrap();
    let call = "(list ((car keep)) ((cadr keep)))".to_string();
    let before = eval(call.clone());
    eval("(define (helper-a) 'new-a) (define (helper-b) 'new-b)".to_string()).unwrap();
    for i in 0..1000 {
        eval(format!("(define junk {})", i)).unwrap();
    }
    for i in 0..50 {
        eval(format!("(define (intruder{}) 'intruder)", i)).unwrap();
    }
    let after = eval(call.clone());
    if before == Ok("((old-a) (old-b))".to_string()) && after != before {
        println!("OBSERVED: two instances of one lambda, each holding a function compiled against an earlier definition: after global slots were recycled they answered {:?} instead of ((old-a) (old-b))", after);
    } else {
        println!("COMPLETED: before {:?}, after {:?}", before, after);
    }
}

// ---------------------------------------------------------------------------------------------
// E3k replay (C10): `(+ x N)`, `(- x N)`, `(<= x N)` with x a local and N the literal the solver returned
// (VERIF_IMM_LIT), against the same operations with N held in a variable (the generic code path).
#[test]
fn imm_replay() {
    let n: i128 = std::env::var("VERIF_IMM_LIT").expect("VERIF_IMM_LIT").parse().unwrap();
    let r = std::panic::catch_unwind(|| {
        let mut engine = Engine::new();
        let mut eval = |src: String| -> Result<String, String> {
            engine.run(src).map(|vals| vals.last().map(|v| v.to_string()).unwrap_or_default()).map_err(|e| e.to_string())
        };
        let mut bad = Vec::new();
        let _ = eval(format!("(define (f-add x) (+ x {n})) (define (f-sub x) (- x {n})) (define (f-lte x) (<= x {n}))", n = n));
        let _ = eval(format!("(define n {n}) (define (g-add x) (+ x n)) (define (g-sub x) (- x n)) (define (g-lte x) (<= x n))", n = n));
        for (a, b) in [("(f-add 1)", "(g-add 1)"), ("(f-sub 1)", "(g-sub 1)"), ("(f-lte 5)", "(g-lte 5)")] {
            let (x, y) = (eval(a.to_string()), eval(b.to_string()));
            if x != y {
                bad.push(format!("{} with the literal {} in the call => {:?}, with the same number in a variable => {:?}", a, n, x, y));
            }
        }
        bad
    });
    match r {
        Ok(bad) if bad.is_empty() => println!("COMPLETED: literal and variable operands agree"),
        Ok(bad) => println!("OBSERVED: {}", bad.join("; ")),
        Err(_) => println!("OBSERVED: compiling or running (+ x {}) with x a local variable panicked in the host", n),
    }
}

// ---------------------------------------------------------------------------------------------
// E3l replay (C07): script calls (VERIF_IDX_CALLS = "prelude ;; call ;; call ...") with an index that passes the
// procedure's guard but not the precondition of the indexing call behind it; a panic in the host is the violation.
#[test]
fn idxguard_replay() {
    let spec = std::env::var("VERIF_IDX_CALLS").expect("VERIF_IDX_CALLS");
    let mut parts = spec.split(";;").map(|x| x.trim().to_string());
    let prelude = parts.next().unwrap_or_default();
    let mut bad = Vec::new();
    for call in parts.filter(|x| !x.is_empty()) {
        let (p, c) = (prelude.clone(), call.clone());
        let r = std::panic::catch_unwind(move || {
            let mut engine = Engine::new();
            let _ = engine.run(p);
            engine.run(c).map(|vals| vals.last().map(|v| v.to_string()).unwrap_or_default()).map_err(|e| e.to_string())
        });
        match r {
            Err(_) => bad.push(format!("{} panicked in the host", call)),
            Ok(v) => eprintln!("NOTE: {} => {:?}", call, v),
        }
    }
    if bad.is_empty() {
        println!("COMPLETED: every call returned a value or an error");
    } else {
        println!("OBSERVED: {}", bad.join("; "));
    }
}

// ---------------------------------------------------------------------------------------------
// E3n replay (C11): two values of different kinds that are equal? (VERIF_HASH_PAIRS = "A|B;;A|B") must be the same
// hash-map key and the same hash-set member.
#[test]
fn hashkey_replay() {
    let spec = std::env::var("VERIF_HASH_PAIRS").expect("VERIF_HASH_PAIRS");
    let mut engine = Engine::new();
    let mut bad = Vec::new();
    for item in spec.split(";;").filter(|x| !x.trim().is_empty()) {
        let parts: Vec<&str> = item.split('|').collect();
        if parts.len() != 2 {
            continue;
        }
        let (a, b) = (parts[0], parts[1]);
        let mut eval = |src: String| engine.run(src).map(|vals| vals.last().map(|v| v.to_string()).unwrap_or_default()).map_err(|e| e.to_string());
        let eq = eval(format!("(equal? {} {})", a, b));
        if eq != Ok("#true".to_string()) {
            eprintln!("NOTE: (equal? {} {}) => {:?}: not an equal pair, nothing to compare", a, b, eq);
            continue;
        }
        for src in [format!("(hash-contains? (hash {} 'x) {})", a, b), format!("(hashset-contains? (hashset {}) {})", a, b)] {
            let got = eval(src.clone());
            if got != Ok("#true".to_string()) {
                bad.push(format!("(equal? {} {}) is #true but {} => {:?}", a, b, src, got));
            }
        }
    }
    if bad.is_empty() {
        println!("COMPLETED: equal? values were interchangeable as keys");
    } else {
        println!("OBSERVED: {}", bad.join("; "));
    }
}

// ---------------------------------------------------------------------------------------------
// E3o replay (C03): a two-operand collection primitive (VERIF_ROLE_CALL = "name|A|B", A and B expressions with an
// overlapping key) under the four sharing patterns -- each operand either held by a global (shared) or built in place
// (uniquely referenced).  The four answers must be equal?, and the operands held by globals must be unchanged.
#[test]
fn roles_replay() {
    let spec = std::env::var("VERIF_ROLE_CALL").expect("VERIF_ROLE_CALL");
    let parts: Vec<&str> = spec.split('|').collect();
    let (name, a, b) = (parts[0], parts[1], parts[2]);
    let mut engine = Engine::new();
    let mut eval = |src: String| engine.run(src).map(|vals| vals.last().map(|v| v.to_string()).unwrap_or_default()).map_err(|e| e.to_string());
    eval(format!("(define ga {}) (define gb {}) (define ga-copy {}) (define gb-copy {})", a, b, a, b)).unwrap();
    // canonical rendering: compare through equal? against the all-shared answer
    eval(format!("(define r-ss ({} ga gb))", name)).unwrap();
    let mut bad = Vec::new();
    for (pat, call) in [("left shared, right unique", format!("({} ga {})", name, b)), ("left unique, right shared", format!("({} {} gb)", name, a)),
                        ("both unique", format!("({} {} {})", name, a, b))] {
        let same = eval(format!("(equal? r-ss {})", call));
        if same != Ok("#true".to_string()) {
            let shown = eval(call.clone());
            bad.push(format!("{} ({}) => {:?}, but with both operands shared the answer is {:?}", call, pat, shown, eval("r-ss".to_string())));
        }
    }
    for (g, c) in [("ga", "ga-copy"), ("gb", "gb-copy")] {
        if eval(format!("(equal? {} {})", g, c)) != Ok("#true".to_string()) {
            bad.push(format!("the operand held by the global {} was changed by the calls: now {:?}", g, eval(g.to_string())));
        }
    }
    if bad.is_empty() {
        println!("COMPLETED: the four sharing patterns agree and shared operands are unchanged");
    } else {
        println!("OBSERVED: {}", bad.join("; "));
    }
}

// ---------------------------------------------------------------------------------------------
// E3e' replay (C19): boxes owned by SHADOWED self-recursive definitions are reclaimed.  400 generations of a
// self-recursive global that owns a box with a Drop-counting host value, then churn so that every free box slot is
// handed out again.
mod recycle_probe {
    use std::sync::atomic::{AtomicUsize, Ordering};
    pub static DROPPED: AtomicUsize = AtomicUsize::new(0);
    pub struct Probe;
    impl steel::rvals::Custom for Probe {}
    impl Drop for Probe {
        fn drop(&mut self) {
            DROPPED.fetch_add(1, Ordering::SeqCst);
        }
    }
}

#[test]
fn recycle_roots_replay() {
    use std::sync::atomic::Ordering;
    let mut e = Engine::new();
    e.register_fn("make-probe", || recycle_probe::Probe);
    e.run("(define (churn n) (if (= n 0) 'done (begin (box n) (churn (- n 1)))))".to_string()).unwrap();
    const GENERATIONS: usize = 400;
    for _ in 0..GENERATIONS {
        e.run("(define node (let ((cell (box (make-probe)))) (lambda (n) (if (= n 0) (unbox cell) (node (- n 1)))))) (node 3)".to_string()).unwrap();
    }
    e.run("(churn 150000)".to_string()).unwrap();
    let dropped = recycle_probe::DROPPED.load(Ordering::SeqCst);
    if dropped < GENERATIONS / 8 {
        println!("OBSERVED: after {} shadowed generations of a self-recursive definition that owns a box, only {} of the boxes' contents were ever released", GENERATIONS, dropped);
    } else {
        println!("COMPLETED: {} of {} shadowed generations released", dropped, GENERATIONS);
    }
}

// ---------------------------------------------------------------------------------------------
// E3m replay (C10): the specialised opcodes against the generic path.  `(op x N)` with x a local and N a literal
// (ADDIMMEDIATE / SUBIMMEDIATE / LTEIMMEDIATE, LTEIMMEDIATEIF inside an `if`), and `(op x y)` with two locals (the
// REGISTER / BINOP forms), against the same operation applied through a variable bound to the procedure (`(define plus +)`),
// for probe operands of every number kind.
#[test]
fn oparm_replay() {
    let probes = ["5/2", "1/2", "-1/2", "7/3", "(expt 10 30)", "(- (expt 10 30))", "(/ 1 (expt 10 30))", "1.5", "2.0", "-0.5", "2", "3", "0", "-1",
                  "9223372036854775807", "-9223372036854775808"];
    let r = std::panic::catch_unwind(|| {
        let mut engine = Engine::new();
        let mut eval = |src: String| -> Result<String, String> {
            engine.run(src).map(|vals| vals.last().map(|v| v.to_string()).unwrap_or_default()).map_err(|e| e.to_string())
        };
        let _ = eval("(define plus +) (define minus -) (define lte <=)".to_string());
        let mut bad = Vec::new();
        for n in ["2", "0", "1", "3"] {
            let _ = eval(format!(
                "(define (f-add x) (+ x {n})) (define (f-sub x) (- x {n})) (define (f-lte x) (<= x {n})) (define (f-if x) (if (<= x {n}) 'yes 'no)) \
                 (define (g-add x) (plus x {n})) (define (g-sub x) (minus x {n})) (define (g-lte x) (lte x {n})) (define (g-if x) (if (lte x {n}) 'yes 'no)) \
                 (define (r-add x y) (+ x y)) (define (r-sub x y) (- x y)) (define (r-lte x y) (<= x y)) \
                 (define (s-add x y) (plus x y)) (define (s-sub x y) (minus x y)) (define (s-lte x y) (lte x y))", n = n));
            for p in probes.iter() {
                for (a, b) in [("f-add", "g-add"), ("f-sub", "g-sub"), ("f-lte", "g-lte"), ("f-if", "g-if")] {
                    let (x, y) = (eval(format!("({} {})", a, p)), eval(format!("({} {})", b, p)));
                    if x != y {
                        bad.push(format!("({} {}) with the literal {} => {:?}; through the generic procedure => {:?}", &a[2..], p, n, x, y));
                    }
                }
                for (a, b) in [("r-add", "s-add"), ("r-sub", "s-sub"), ("r-lte", "s-lte")] {
                    let (x, y) = (eval(format!("({} {} {})", a, p, n)), eval(format!("({} {} {})", b, p, n)));
                    if x != y {
                        bad.push(format!("({} {} {}) on two locals => {:?}; through the generic procedure => {:?}", &a[2..], p, n, x, y));
                    }
                }
            }
        }
        bad
    });
    match r {
        Ok(bad) if bad.is_empty() => println!("COMPLETED: specialised and generic forms agree on every probe"),
        Ok(bad) => println!("OBSERVED: {} difference(s), e.g. {}", bad.len(), bad.iter().take(3).cloned().collect::<Vec<_>>().join("; ")),
        Err(_) => println!("OBSERVED: a specialised arithmetic form panicked in the host"),
    }
}

// ---------------------------------------------------------------------------------------------
// E3q replay (C17): a "serve forever" loop that runs each unit of work under an error handler and carries on.  One
// interrupt() 300 ms into the run must stop the evaluation (watchdog 12 s).
#[test]
fn interrupt_handler_replay() {
    use std::sync::mpsc;
    use std::time::Duration;
    let (ctl_tx, ctl_rx) = mpsc::channel();
    let (started_tx, started_rx) = mpsc::channel::<()>();
    let (out_tx, out_rx) = mpsc::channel::<Result<String, String>>();
    std::thread::spawn(move || {
        let mut engine = Engine::new();
        ctl_tx.send(engine.get_thread_state_controller()).unwrap();
        engine
            .run("(define (work) (with-handler (lambda (e) 'caught) (let loop ((i 0)) (if (< i 200000) (loop (+ i 1)) 'done)))) (define (serve n) (work) (serve (+ n 1)))".to_string())
            .unwrap();
        started_tx.send(()).unwrap();
        let r = engine.run("(serve 0)".to_string()).map(|v| v.last().map(|x| x.to_string()).unwrap_or_default()).map_err(|e| e.to_string());
        let _ = out_tx.send(r);
    });
    let controller = ctl_rx.recv().unwrap();
    started_rx.recv().unwrap();
    std::thread::sleep(Duration::from_millis(300));
    controller.interrupt();
    match out_rx.recv_timeout(Duration::from_secs(12)) {
        Ok(Err(e)) if e.contains("Interrupted") => println!("COMPLETED: the serving loop stopped with the interruption error"),
        Ok(other) => println!("COMPLETED: the evaluation ended with {:?}", other),
        Err(_) => println!("OBSERVED: a loop that runs its work under with-handler was still running 12 s after interrupt() returned: the handler caught the one interruption error and the request was gone"),
    }
}

// ---------------------------------------------------------------------------------------------
// E3r replay (C20): a script list of three elements extracted as the host pair (isize, isize) must be refused.
#[test]
fn tuple_len_replay() {
    use steel::rvals::FromSteelVal;
    let mut engine = Engine::new();
    let mut bad = Vec::new();
    for (src, ok) in [("(list 1 2 3)", false), ("(list 1)", false), ("(list)", false), ("(list 1 2)", true)] {
        let v = engine.run(src.to_string()).unwrap().pop().unwrap();
        let r = <(isize, isize)>::from_steelval(&v);
        if r.is_ok() != ok {
            bad.push(format!("{} extracted as (isize, isize) => {:?}", src, r.map_err(|e| e.to_string())));
        }
    }
    if bad.is_empty() {
        println!("COMPLETED: only the two-element list converts to a pair");
    } else {
        println!("OBSERVED: {}", bad.join("; "));
    }
}

// ---------------------------------------------------------------------------------------------
// E3t replay (C04): the value being boxed survives the collection that its own allocation triggers.  13000 live
// pairs (box (box i)) cross the 95 % line of the initial 25600-slot box space once, with everything alive, so a full
// collection runs inside one of the outer `box` calls while the inner box is reachable only as that call's argument;
// then 60000 short-lived boxes hand every free slot out again.  Run for both parities of the slot cursor.
#[test]
fn alloc_roots_replay() {
    let mut bad = Vec::new();
    for shift in [0usize, 1] {
        let mut engine = Engine::new();
        let program = format!(
            r#"
            (define parity-shift (map (lambda (i) (box i)) (range 0 {shift})))
            (define keep '())
            (define (fill! n) (let loop ((i 0)) (when (< i n) (set! keep (cons (#%box (#%box i)) keep)) (loop (+ i 1)))))
            (define (churn! n) (let loop ((i 0)) (when (< i n) (#%box 'junk) (loop (+ i 1)))))
            (define (count-damaged lst expected acc)
              (if (null? lst) acc (count-damaged (cdr lst) (- expected 1) (if (equal? (unbox (unbox (car lst))) expected) acc (+ acc 1)))))
            (fill! 13000)
            (churn! 60000)
            (count-damaged keep 12999 0)
            "#,
            shift = shift
        );
        match engine.run(program) {
            Ok(vals) => {
                let got = vals.last().map(|v| v.to_string()).unwrap_or_default();
                if got != "0" {
                    bad.push(format!("{} of 13000 reachable inner boxes lost their contents (cursor parity {})", got, shift));
                }
            }
            Err(e) => bad.push(format!("reading a reachable inner box failed: {}", e.to_string().chars().take(120).collect::<String>())),
        }
    }
    if bad.is_empty() {
        println!("COMPLETED: every inner box kept its contents");
    } else {
        println!("OBSERVED: {}", bad.join("; "));
    }
}

// ---------------------------------------------------------------------------------------------
// E3u replay (C04): storage reachable only through thread-local slots survives the recycling of global slots
// (the recycler's marking pass reaches only what the globals reach; the count that follows must not clear the rest).
#[test]
fn recount_replay() {
    let mut engine = Engine::new();
    engine
        .run("(define tls-box (make-tls (box 42))) (define tls-vec (make-tls (mutable-vector 1 2 3))) (define tls-nested (make-tls (box (mutable-vector (box \"inner\")))))".to_string())
        .unwrap();
    for i in 0..150 {
        engine.run(format!("(define heap-demo-shadowed-global {})", i)).unwrap();
    }
    let r = engine
        .run("(list (unbox (get-tls tls-box)) (vector->list (get-tls tls-vec)) (unbox (vector-ref (unbox (get-tls tls-nested)) 0)))".to_string())
        .map(|v| v.last().map(|x| x.to_string()).unwrap_or_default())
        .map_err(|e| e.to_string());
    if r == Ok("(42 (1 2 3) \"inner\")".to_string()) {
        println!("COMPLETED: {:?}", r);
    } else {
        println!("OBSERVED: storage held only by thread-local slots changed across the recycling of global slots: {:?} instead of (42 (1 2 3) \"inner\")", r);
    }
}
