// Native replay for the arity check (C20, E3): registers host functions of 0..4 by-value
// parameters on an Engine and on a BuiltInModule and calls each from a script with the argument
// counts the solver returned (VERIF_ARITY_LENS="l1,l2").  A host function that runs although the
// script passed a different number of arguments is the violation.
use std::sync::atomic::{AtomicUsize, Ordering};
use steel::steel_vm::builtin::BuiltInModule;
use steel::steel_vm::engine::Engine;
use steel::steel_vm::register_fn::RegisterFn;

static CALLS: AtomicUsize = AtomicUsize::new(0);

fn h0() -> isize {
    CALLS.fetch_add(1, Ordering::SeqCst);
    0
}
fn h1(a: isize) -> isize {
    CALLS.fetch_add(1, Ordering::SeqCst);
    a
}
fn h2(a: isize, b: isize) -> isize {
    CALLS.fetch_add(1, Ordering::SeqCst);
    a + b
}
fn h3(a: isize, b: isize, c: isize) -> isize {
    CALLS.fetch_add(1, Ordering::SeqCst);
    a + b + c
}
fn h4(a: isize, b: isize, c: isize, d: isize) -> isize {
    CALLS.fetch_add(1, Ordering::SeqCst);
    a + b + c + d
}

#[test]
fn arity_replay() {
    let lens: Vec<usize> = std::env::var("VERIF_ARITY_LENS")
        .expect("VERIF_ARITY_LENS")
        .split(',')
        .filter_map(|x| x.trim().parse().ok())
        .filter(|l| *l <= 12)
        .collect();
    let mut engine = Engine::new();
    engine.register_fn("host0", h0);
    engine.register_fn("host1", h1);
    engine.register_fn("host2", h2);
    engine.register_fn("host3", h3);
    engine.register_fn("host4", h4);
    let mut module = BuiltInModule::new("verif/arity");
    module.register_fn("mhost0", h0);
    module.register_fn("mhost1", h1);
    module.register_fn("mhost2", h2);
    module.register_fn("mhost3", h3);
    module.register_fn("mhost4", h4);
    engine.register_module(module);
    engine.run("(require-builtin verif/arity)".to_string()).unwrap();
    let mut bad = Vec::new();
    for n in 0..=4usize {
        for l in &lens {
            if *l == n {
                continue;
            }
            for prefix in ["host", "mhost"] {
                let args: Vec<String> = (0..*l).map(|i| (i + 1).to_string()).collect();
                let prog = format!("({}{} {})", prefix, n, args.join(" "));
                let before = CALLS.load(Ordering::SeqCst);
                let res = engine.run(prog.clone());
                if CALLS.load(Ordering::SeqCst) != before {
                    bad.push(format!("{} invoked the {}-parameter host function (result {:?})", prog, n, res.map(|v| format!("{:?}", v)).map_err(|e| e.to_string())));
                }
            }
        }
    }
    if bad.is_empty() {
        println!("COMPLETED: every call with a wrong number of arguments was refused");
    } else {
        println!("OBSERVED: {}", bad.join("; "));
        std::process::exit(3);
    }
}

// Native replay for the argument-vector bounds check (C07, E3b): VERIF_BOUNDS_NAME is the script
// name of a built-in procedure, VERIF_BOUNDS_LEN the argument count the solver returned.  The
// procedure is called from a script with that many arguments, for several kinds of filler
// values; a panic in the host is the violation.
#[test]
fn bounds_replay() {
    let name = std::env::var("VERIF_BOUNDS_NAME").expect("VERIF_BOUNDS_NAME");
    let len: usize = std::env::var("VERIF_BOUNDS_LEN").ok().and_then(|x| x.parse().ok()).expect("VERIF_BOUNDS_LEN");
    if len > 12 {
        println!("NOT-REPLAYABLE: argument count {} is not something a script writes down", len);
        return;
    }
    let fillers = ["1", "\"s\"", "(list 1 2)", "(vector 1 2)", "(hash)", "#\\a", "1.5", "(lambda (x) x)", "(box 1)", "'sym"];
    std::panic::set_hook(Box::new(|_| {}));
    for f in fillers.iter() {
        let args: Vec<&str> = (0..len).map(|_| *f).collect();
        let src = format!("({} {})", name, args.join(" "));
        let src2 = src.clone();
        let r = std::panic::catch_unwind(std::panic::AssertUnwindSafe(move || {
            let mut engine = Engine::new();
            let _ = engine.run("(require-builtin steel/time)".to_string());
            engine.run(src2).map(|_| ()).map_err(|e| e.to_string())
        }));
        if let Err(p) = r {
            let msg = p.downcast_ref::<String>().cloned().or_else(|| p.downcast_ref::<&str>().map(|s| s.to_string())).unwrap_or_default();
            println!("OBSERVED: evaluating {} panicked in the host instead of returning an error: {}", src, msg.chars().take(160).collect::<String>());
            return;
        }
    }
    println!("COMPLETED: ({} ...) with {} arguments returned a value or an error for every filler kind", name, len);
}
