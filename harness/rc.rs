// Kani harnesses for steel-rc (properties C05, C03a).  This file is textually
// included as a child module at the end of a scratch copy of
// crates/steel-rc/src/lib.rs, so `super::*` gives access to private items.
//
// Shape (DESIGN §2.3): ONE real operation from a SYMBOLIC pre-state that
// satisfies the representation invariant `inv`; the acting thread is symbolic.
#![allow(dead_code, unused_imports, static_mut_refs)]
use super::*;

// ---------------------------------------------------------------- stubs
pub static mut CUR_TID: usize = 1;
pub static mut DROPS: u32 = 0; // payload destructor runs
pub static mut ENQUEUED: u32 = 0; // QueueHandle::enqueue calls
// Kani de-duplicates concrete playbacks with identical values; a tag that every
// counterexample cover pins to its own number keeps each playback distinct.
pub static mut TAG: u8 = 0;
fn tag_init() {
    unsafe { TAG = kani::any() };
}

fn cur_tid_stub() -> ThreadId {
    ThreadId::new(NonZeroUsize::new(unsafe { CUR_TID }).unwrap())
}
fn noop() {}
fn fmt_stub(_a: core::fmt::Arguments<'_>) -> String {
    String::new()
}
fn enqueue_stub<T: ?Sized + 'static>(_value: &BiasedRc<T>) {
    unsafe { ENQUEUED += 1 };
}

pub struct P(pub u8);
impl Drop for P {
    fn drop(&mut self) {
        unsafe { DROPS += 1 };
    }
}
impl Clone for P {
    fn clone(&self) -> Self {
        P(self.0)
    }
}

const OWNER: usize = 1;
const LIM: u32 = 1 << 20; // stated bound on every counter magnitude (30-bit field: |S| < 2^29)

// Every assertion with a message is preceded by a cover of its negation ("CEX:<message>"):
// the cover's concrete playback is the counterexample (Kani does not always emit a playback
// for a failed assertion; for covers it does).  These covers are expected UNSATISFIABLE.

// ---------------------------------------------------------------- ghost state
#[derive(Clone, Copy)]
pub struct G {
    pub merged: bool,
    pub queued: bool,
    pub owner_none: bool, // owner cell is None
    pub b: u32,
    pub s: i32,
    pub h: [u32; 3], // live handles held by logical threads 1(owner),2,3
    pub in_queue: bool, // the owner's merge queue holds an (uncounted) entry
}
impl G {
    pub fn total(&self) -> i64 {
        self.h[0] as i64 + self.h[1] as i64 + self.h[2] as i64
    }
}

/// Representation invariant of a live (not yet deallocated) box, written from
/// the biased-reference-counting scheme.  Sequential (between operations).
pub fn bounded(g: &G) -> bool {
    g.b <= LIM && g.s <= LIM as i32 && g.s >= -(LIM as i32) && g.h[0] <= LIM && g.h[1] <= LIM && g.h[2] <= LIM
}

pub fn inv(g: &G) -> bool {
    let t = g.total();
    if !g.merged {
        // biased: owner cell names the owner, B>=1, B+S = live handles,
        // negative S implies queued, queue entry iff queued flag
        !g.owner_none
            && g.b >= 1
            && (g.b as i64 + g.s as i64) == t
            && (g.s >= 0 || g.queued)
            && (g.in_queue == g.queued)
    } else {
        // merged: owner cell cleared, S = live handles >= 1.  A stale queue
        // entry can only remain when the owner's own last decrement merged
        // (then B == 0), so that the later explicit merge adds nothing.
        g.owner_none && (g.s as i64) == t && t >= 1 && (!g.in_queue || (g.queued && g.b == 0))
    }
}

/// `small`: used only to obtain a counterexample with small counters for native replay
pub fn any_g_s(small: bool) -> G {
    let g = any_g();
    if small {
        kani::assume(g.b <= 3 && g.s <= 3 && g.s >= -3 && g.h[0] <= 3 && g.h[1] <= 3 && g.h[2] <= 3);
    }
    g
}

pub fn any_g() -> G {
    let g = G {
        merged: kani::any(),
        queued: kani::any(),
        owner_none: kani::any(),
        b: kani::any(),
        s: kani::any(),
        h: [kani::any(), kani::any(), kani::any()],
        in_queue: kani::any(),
    };
    kani::assume(bounded(&g) && inv(&g));
    g
}

pub fn any_tid() -> usize {
    let t: usize = kani::any();
    kani::assume(t >= 1 && t <= 3);
    t
}

/// Build a real heap box in the concrete representation of `g`.
pub fn build(g: &G) -> BiasedRc<P> {
    unsafe { CUR_TID = OWNER };
    let a = BiasedRc::new(P(7));
    let w = a.meta();
    w.thread_id.set(if g.owner_none {
        None
    } else {
        Some(ThreadId::new(NonZeroUsize::new(OWNER).unwrap()))
    });
    w.biased_counter.set(g.b);
    w.shared
        .0
        .store(Packed::new_with(g.s, g.merged, g.queued).0, Ordering::Relaxed);
    a
}

/// Read the concrete representation back (only valid while the box is live).
pub unsafe fn read(p: NonNull<RcBox<P>>, h: [u32; 3], in_queue: bool) -> G {
    let w = &(*p.as_ptr()).rcword;
    let pk = w.shared.load(Ordering::Relaxed);
    G {
        merged: pk.is_merged(),
        queued: pk.is_queued(),
        owner_none: w.thread_id.get().is_none(),
        b: w.biased_counter.get(),
        s: pk.get_counter(),
        h,
        in_queue,
    }
}

fn owner_is(p: NonNull<RcBox<P>>, tid: usize) -> bool {
    unsafe { (*p.as_ptr()).rcword.thread_id.get() == Some(ThreadId::new(NonZeroUsize::new(tid).unwrap())) }
}

// ---------------------------------------------------------------- base case
fn body_base_new(_mask: bool, _small: bool) {
    unsafe { CUR_TID = OWNER };
    let a = BiasedRc::new(P(7));
    let g = unsafe { read(a.ptr, [1, 0, 0], false) };
    kani::cover!(true, "reach");
    kani::cover!(!(inv(&g)) && unsafe { TAG } == 1, "CEX:new() establishes the invariant");
    assert!(inv(&g), "new() establishes the invariant");
    assert!(a.0 == 7);
    mem::forget(a);
}

// ---------------------------------------------------------------- clone
fn body_step_clone(_mask: bool, small: bool) {
    tag_init();
    let g = any_g_s(small);
    let t = any_tid();
    kani::assume(g.h[t - 1] >= 1); // the acting thread holds a handle
    let a = build(&g);
    let p = a.ptr;
    unsafe { CUR_TID = t };
    let c = a.clone();
    kani::cover!(t == OWNER && !g.merged, "owner fast path");
    kani::cover!(t != OWNER && !g.merged, "non-owner slow path");
    kani::cover!(g.merged, "merged");
    kani::cover!(!(unsafe { DROPS } == 0) && unsafe { TAG } == 2, "CEX:clone never destroys the payload");
    assert!(unsafe { DROPS } == 0, "clone never destroys the payload");
    assert!(unsafe { ENQUEUED } == 0);
    kani::cover!(!(c.0 == 7) && unsafe { TAG } == 3, "CEX:contents intact");
    assert!(c.0 == 7, "contents intact");
    let mut h = g.h;
    h[t - 1] += 1;
    let g2 = unsafe { read(p, h, g.in_queue) };
    kani::cover!(!(inv(&g2)) && unsafe { TAG } == 4, "CEX:clone preserves the invariant");
    assert!(inv(&g2), "clone preserves the invariant");
    mem::forget(a);
    mem::forget(c);
}

// ---------------------------------------------------------------- drop
fn body_step_drop(mask_stale_queue: bool, small: bool) {
    tag_init();
    let g = any_g_s(small);
    let t = any_tid();
    kani::assume(g.h[t - 1] >= 1);
    let a = build(&g);
    let p = a.ptr;
    unsafe { CUR_TID = t };
    drop(a);
    let destroyed = unsafe { DROPS } == 1;
    let enq = unsafe { ENQUEUED } == 1;
    kani::cover!(destroyed, "deallocates");
    kani::cover!(enq, "queues");
    kani::cover!(!destroyed && !enq && t == OWNER, "owner nothing");
    kani::cover!(!destroyed && g.merged, "merged decrement");
    kani::cover!(!destroyed && !g.merged && t == OWNER && g.b == 1, "owner merge on last biased");
    kani::cover!(!(unsafe { DROPS } <= 1) && unsafe { TAG } == 5, "CEX:destroyed at most once");
    assert!(unsafe { DROPS } <= 1, "destroyed at most once");
    let mut h = g.h;
    h[t - 1] -= 1;
    let total2 = g.total() - 1;
    if destroyed {
        kani::cover!(!(total2 == 0) && unsafe { TAG } == 6, "CEX:payload destroyed only after the last reference is dropped");
        assert!(total2 == 0, "payload destroyed only after the last reference is dropped");
        // known-finding mask: only the pre-states with a live queue entry are excluded
        if !(mask_stale_queue && g.in_queue) {
            kani::cover!(!(!g.in_queue && !enq) && unsafe { TAG } == 7, "CEX:no merge-queue entry may outlive the box");
            assert!(!g.in_queue && !enq, "no merge-queue entry may outlive the box");
        }
    } else {
        let g2 = unsafe { read(p, h, g.in_queue || enq) };
        // Queue is signalled exactly when the queued flag flips
        kani::cover!(!(enq == (g2.queued && !g.queued)) && unsafe { TAG } == 8, "CEX:enqueue iff queued flag flipped");
        assert!(enq == (g2.queued && !g.queued), "enqueue iff queued flag flipped");
        if total2 == 0 {
            // last reference gone but not destroyed: only legal when the owner's
            // pending explicit merge will do it
            kani::cover!(!(!g2.merged && g2.in_queue) && unsafe { TAG } == 9, "CEX:last drop either destroys or leaves it to a queued merge");
            assert!(!g2.merged && g2.in_queue, "last drop either destroys or leaves it to a queued merge");
        }
        kani::cover!(!(inv(&g2)) && unsafe { TAG } == 10, "CEX:drop preserves the invariant");
        assert!(inv(&g2), "drop preserves the invariant");
    }
}

// ---------------------------------------------------------------- get_mut / has_unique_ref
fn body_step_get_mut(_mask: bool, small: bool) {
    tag_init();
    let g = any_g_s(small);
    let t = any_tid();
    kani::assume(g.h[t - 1] >= 1);
    let mut a = build(&g);
    let p = a.ptr;
    unsafe { CUR_TID = t };
    let granted = BiasedRc::get_mut(&mut a).is_some();
    kani::cover!(granted && g.merged, "granted merged");
    kani::cover!(granted && !g.merged, "granted biased");
    kani::cover!(!granted && g.merged, "refused merged");
    kani::cover!(!granted && !g.merged && t != OWNER, "refused non-owner");
    if granted {
        kani::cover!(!(g.total() == 1) && unsafe { TAG } == 11, "CEX:exclusive access only to the sole holder");
        assert!(g.total() == 1, "exclusive access only to the sole holder");
    }
    assert!(unsafe { DROPS } == 0 && unsafe { ENQUEUED } == 0);
    let g2 = unsafe { read(p, g.h, g.in_queue) };
    kani::cover!(!(inv(&g2)) && unsafe { TAG } == 12, "CEX:uniqueness test preserves the invariant");
    assert!(inv(&g2), "uniqueness test preserves the invariant");
    mem::forget(a);
}

// ---------------------------------------------------------------- make_mut
fn body_step_make_mut(_mask: bool, small: bool) {
    tag_init();
    let g = any_g_s(small);
    let t = any_tid();
    kani::assume(g.h[t - 1] >= 1);
    let mut a = build(&g);
    let p = a.ptr;
    unsafe { CUR_TID = t };
    {
        let r = BiasedRc::make_mut(&mut a);
        r.0 = 9;
    }
    let same = a.ptr == p;
    kani::cover!(same, "in place");
    kani::cover!(!same, "copied");
    if same {
        kani::cover!(!(g.total() == 1) && unsafe { TAG } == 13, "CEX:in-place mutation only by the sole holder");
        assert!(g.total() == 1, "in-place mutation only by the sole holder");
        assert!(unsafe { DROPS } == 0);
        let g2 = unsafe { read(p, g.h, g.in_queue) };
        kani::cover!(!(inv(&g2)) && unsafe { TAG } == 14, "CEX:make_mut (unique) preserves the invariant");
        assert!(inv(&g2), "make_mut (unique) preserves the invariant");
    } else {
        // copied: the old box lost this handle, the new one is fresh and owned by t
        assert!(a.0 == 9);
        assert!(owner_is(a.ptr, t));
        let destroyed = unsafe { DROPS } == 1;
        let enq = unsafe { ENQUEUED } == 1;
        let mut h = g.h;
        h[t - 1] -= 1;
        if destroyed {
            kani::cover!(!(g.total() == 1) && unsafe { TAG } == 15, "CEX:old payload destroyed only if this was the last reference");
            assert!(g.total() == 1, "old payload destroyed only if this was the last reference");
        } else {
            let g2 = unsafe { read(p, h, g.in_queue || enq) };
            kani::cover!(!(unsafe { (*p.as_ptr()).data.0 } == 7) && unsafe { TAG } == 16, "CEX:other holders still see the old contents");
            assert!(unsafe { (*p.as_ptr()).data.0 } == 7, "other holders still see the old contents");
            kani::cover!(!(inv(&g2)) && unsafe { TAG } == 17, "CEX:make_mut (copy) preserves the invariant of the old box");
            assert!(inv(&g2), "make_mut (copy) preserves the invariant of the old box");
        }
    }
    mem::forget(a);
}

// ---------------------------------------------------------------- try_unwrap
fn body_step_try_unwrap(mask_stale_queue: bool, small: bool) {
    tag_init();
    let g = any_g_s(small);
    let t = any_tid();
    kani::assume(g.h[t - 1] >= 1);
    let a = build(&g);
    let p = a.ptr;
    unsafe { CUR_TID = t };
    match BiasedRc::try_unwrap(a) {
        Ok(v) => {
            kani::cover!(g.merged, "unwrapped merged");
            kani::cover!(!g.merged, "unwrapped biased");
            kani::cover!(!(g.total() == 1) && unsafe { TAG } == 18, "CEX:unwrap only by the sole holder");
            assert!(g.total() == 1, "unwrap only by the sole holder");
            if !(mask_stale_queue && g.in_queue) {
                kani::cover!(!(!g.in_queue) && unsafe { TAG } == 19, "CEX:no merge-queue entry may outlive the box");
                assert!(!g.in_queue, "no merge-queue entry may outlive the box");
            }
            assert!(v.0 == 7);
            kani::cover!(!(unsafe { DROPS } == 0) && unsafe { TAG } == 20, "CEX:payload moved out, not destroyed");
            assert!(unsafe { DROPS } == 0, "payload moved out, not destroyed");
            mem::forget(v);
        }
        Err(back) => {
            kani::cover!(true, "refused");
            assert!(unsafe { DROPS } == 0 && unsafe { ENQUEUED } == 0);
            let g2 = unsafe { read(p, g.h, g.in_queue) };
            kani::cover!(!(inv(&g2)) && unsafe { TAG } == 21, "CEX:failed unwrap preserves the invariant");
            assert!(inv(&g2), "failed unwrap preserves the invariant");
            mem::forget(back);
        }
    }
}

// ---------------------------------------------------------------- explicit merge (owner processes its queue entry)
fn body_step_explicit_merge(_mask: bool, small: bool) {
    tag_init();
    let g = any_g_s(small);
    kani::assume(g.in_queue);
    let a = build(&g);
    let p = a.ptr;
    // the queue entry is exactly what `enqueue` builds: an uncounted alias
    let mut q: Vec<Wrapper> = Vec::with_capacity(1);
    q.push(Wrapper(Box::new(ManuallyDrop::new(BiasedRc::from_inner(a.ptr)))));
    mem::forget(a);
    unsafe { CUR_TID = OWNER };
    let n = QueueHandle::explicit_merge(&mut q);
    assert!(n == 1);
    let destroyed = unsafe { DROPS } == 1;
    kani::cover!(destroyed, "merge deallocates");
    kani::cover!(!destroyed && !g.merged, "merge unbiases");
    kani::cover!(!destroyed && g.merged, "merge of already merged");
    assert!(unsafe { DROPS } <= 1);
    if destroyed {
        kani::cover!(!(g.total() == 0) && unsafe { TAG } == 22, "CEX:merge destroys only when no reference is left");
        assert!(g.total() == 0, "merge destroys only when no reference is left");
    } else {
        kani::cover!(!(g.total() >= 1) && unsafe { TAG } == 23, "CEX:merge with no reference left must destroy");
        assert!(g.total() >= 1, "merge with no reference left must destroy");
        let g2 = unsafe { read(p, g.h, false) };
        assert!(g2.merged);
        kani::cover!(!(inv(&g2)) && unsafe { TAG } == 24, "CEX:explicit merge preserves the invariant");
        assert!(inv(&g2), "explicit merge preserves the invariant");
    }
    mem::forget(q);
}


// one Kani harness per (operation, known-finding mask) pair
macro_rules! rc_harness {
    ($name:ident, $body:ident, $mask:expr, $small:expr) => {
        #[kani::proof]
        #[kani::unwind(3)]
        #[kani::stub(ThreadId::current_thread, cur_tid_stub)]
        #[kani::stub(std::rt::thread_cleanup, noop)]
        #[kani::stub(QueueHandle::enqueue, enqueue_stub)]
        fn $name() {
            $body($mask, $small)
        }
    };
}
rc_harness!(rc_base_new, body_base_new, false, false);
rc_harness!(rc_step_clone, body_step_clone, false, false);
rc_harness!(rc_step_drop, body_step_drop, false, false);
rc_harness!(rc_step_get_mut, body_step_get_mut, false, false);
rc_harness!(rc_step_make_mut, body_step_make_mut, false, false);
rc_harness!(rc_step_try_unwrap, body_step_try_unwrap, false, false);
rc_harness!(rc_step_explicit_merge, body_step_explicit_merge, false, false);
rc_harness!(rc_step_drop__kf_stale_queue, body_step_drop, true, false);
rc_harness!(rc_step_try_unwrap__kf_stale_queue, body_step_try_unwrap, true, false);
rc_harness!(rc_step_drop__kf_stale_queue__small, body_step_drop, true, true);
rc_harness!(rc_step_try_unwrap__kf_stale_queue__small, body_step_try_unwrap, true, true);
rc_harness!(rc_step_clone__small, body_step_clone, false, true);
rc_harness!(rc_step_drop__small, body_step_drop, false, true);
rc_harness!(rc_step_get_mut__small, body_step_get_mut, false, true);
rc_harness!(rc_step_make_mut__small, body_step_make_mut, false, true);
rc_harness!(rc_step_try_unwrap__small, body_step_try_unwrap, false, true);
rc_harness!(rc_step_explicit_merge__small, body_step_explicit_merge, false, true);

// ---------------------------------------------------------------- bit level (family 2)
#[kani::proof]
fn rc_packed_roundtrip() {
    let v: i32 = kani::any();
    kani::assume(v >= -(1 << 29) && v < (1 << 29));
    let m: bool = kani::any();
    let q: bool = kani::any();
    let mut p = Packed::new_with(v, m, q);
    assert!(p.get_counter() == v && p.is_merged() == m && p.is_queued() == q);
    let v2: i32 = kani::any();
    kani::assume(v2 >= -(1 << 29) && v2 < (1 << 29));
    p.set_counter(v2);
    assert!(p.get_counter() == v2 && p.is_merged() == m && p.is_queued() == q);
    let m2: bool = kani::any();
    p.set_merged(m2);
    assert!(p.get_counter() == v2 && p.is_merged() == m2 && p.is_queued() == q);
    let q2: bool = kani::any();
    p.set_queued(q2);
    assert!(p.get_counter() == v2 && p.is_merged() == m2 && p.is_queued() == q2);
    kani::assume(v2 > -(1 << 29) && v2 < (1 << 29) - 1);
    let d: bool = kani::any();
    p.update_counter(|x| if d { x + 1 } else { x - 1 });
    assert!(p.get_counter() == if d { v2 + 1 } else { v2 - 1 });
    assert!(p.is_merged() == m2 && p.is_queued() == q2);
    kani::cover!(v < 0 && v2 >= 0, "sign change");
}

// ================================================================ family 3: interleavings
// One ANALYSED real operation; at ONE of its shared (atomic) accesses -- before or after it --
// ONE complete real operation of another logical thread runs on the same box.  Which access,
// which side, which foreign thread and which foreign operation are symbolic.  Every operation of
// the crate touches shared state only through SharedPacked::{load, compare_exchange}; both are
// replaced by `env(); the same access; env()`.  CAS retry loops: unwind 4.
pub static mut ACCESS: u8 = 0; // shared accesses performed so far by the analysed operation
pub static mut FIRE_AT: u8 = 0; // the access (1-based) at which the foreign operation runs
pub static mut FIRE_AFTER: bool = false; // after (true) or before (false) that access
pub static mut FOREIGN_T: usize = 0;
pub static mut FOREIGN_OP: u8 = 0; // 0 clone, 1 drop, 2 get_mut
pub static mut FIRED: bool = false;
pub static mut IN_FOREIGN: bool = false;
pub static mut BOXP: usize = 0;
pub static mut GH: [u32; 3] = [0; 3]; // handles not yet given up, per logical thread
pub static mut FOREIGN_GRANTED_WITH: u32 = 0;

pub struct Q(pub u8);
impl Drop for Q {
    fn drop(&mut self) {
        unsafe {
            DROPS += 1;
            // destroyed only after every holder has given its reference up
            kani::cover!(GH[0] + GH[1] + GH[2] != 0 && TAG == 200, "CEX:payload destroyed while another thread still holds a reference (interleaving)");
            assert!(GH[0] + GH[1] + GH[2] == 0, "payload destroyed while another thread still holds a reference (interleaving)");
        }
    }
}

unsafe fn env(after: bool) {
    if IN_FOREIGN || FIRED || ACCESS != FIRE_AT || after != FIRE_AFTER {
        return;
    }
    FIRED = true;
    IN_FOREIGN = true;
    let saved = CUR_TID;
    CUR_TID = FOREIGN_T;
    let p: NonNull<RcBox<Q>> = NonNull::new_unchecked(BOXP as *mut RcBox<Q>);
    let mut h = ManuallyDrop::new(BiasedRc::<Q>::from_inner(p));
    if FOREIGN_OP == 0 {
        let c = (*h).clone();
        GH[FOREIGN_T - 1] += 1;
        mem::forget(c);
    } else if FOREIGN_OP == 1 {
        GH[FOREIGN_T - 1] -= 1;
        ManuallyDrop::drop(&mut h);
    } else {
        let total = GH[0] + GH[1] + GH[2];
        if BiasedRc::get_mut(&mut *h).is_some() {
            FOREIGN_GRANTED_WITH = total;
        }
    }
    CUR_TID = saved;
    IN_FOREIGN = false;
}

fn load_stub(this: &SharedPacked, order: Ordering) -> Packed {
    unsafe {
        if !IN_FOREIGN {
            ACCESS += 1;
        }
        env(false);
        let r = Packed(this.0.load(order));
        env(true);
        r
    }
}
fn cas_stub(this: &SharedPacked, current: Packed, new: Packed, success: Ordering, failure: Ordering) -> Result<u32, u32> {
    unsafe {
        if !IN_FOREIGN {
            ACCESS += 1;
        }
        env(false);
        let r = this.0.compare_exchange(current.0, new.0, success, failure);
        env(true);
        r
    }
}

fn build_q(g: &G) -> BiasedRc<Q> {
    unsafe { CUR_TID = OWNER };
    let a = BiasedRc::new(Q(7));
    let w = a.meta();
    w.thread_id.set(if g.owner_none { None } else { Some(ThreadId::new(NonZeroUsize::new(OWNER).unwrap())) });
    w.biased_counter.set(g.b);
    w.shared.0.store(Packed::new_with(g.s, g.merged, g.queued).0, Ordering::Relaxed);
    a
}

/// common set-up: symbolic valid pre-state (small counters), acting thread t, foreign thread u != t
/// holding a handle, foreign operation, firing point
fn il_setup() -> (G, usize) {
    il_setup_m(false)
}
/// `mask_owner_cell`: exclude the listed finding's pattern -- the owner's last biased decrement
/// (it publishes `merged` and then clears the owner cell) with a foreign DROP right after one of
/// its accesses
fn il_setup_m(mask_owner_cell: bool) -> (G, usize) {
    unsafe { TAG = kani::any() };
    let g = any_g_s(true);
    let t = any_tid();
    let u = any_tid();
    kani::assume(u != t && g.h[t - 1] >= 1 && g.h[u - 1] >= 1);
    let fa: u8 = kani::any();
    kani::assume(fa >= 1 && fa <= 3);
    let fo: u8 = kani::any();
    kani::assume(fo <= 2);
    unsafe {
        FIRE_AT = fa;
        FIRE_AFTER = kani::any();
        FOREIGN_T = u;
        FOREIGN_OP = fo;
        GH = g.h;
        if mask_owner_cell {
            kani::assume(!(t == OWNER && !g.merged && g.b == 1 && fo == 1 && FIRE_AFTER));
        }
    }
    (g, t)
}

macro_rules! il_harness {
    ($name:ident, $body:block) => {
        #[kani::proof]
        #[kani::unwind(4)]
        #[kani::stub(ThreadId::current_thread, cur_tid_stub)]
        #[kani::stub(std::rt::thread_cleanup, noop)]
        #[kani::stub(QueueHandle::enqueue, enqueue_stub)]
        #[kani::stub(SharedPacked::load, load_stub)]
        #[kani::stub(SharedPacked::compare_exchange, cas_stub)]
        fn $name() $body
    };
}

il_harness!(rc_il_drop, { il_drop_body(false) });
il_harness!(rc_il_drop__kf_owner_cell, { il_drop_body(true) });

fn il_drop_body(mask: bool) {
    let (g, t) = il_setup_m(mask);
    let a = build_q(&g);
    unsafe {
        BOXP = a.ptr.as_ptr() as usize;
        CUR_TID = t;
        GH[t - 1] -= 1; // the acting thread gives its reference up
    }
    drop(a);
    kani::cover!(unsafe { FIRED && FOREIGN_OP == 1 && DROPS == 1 }, "foreign drop interleaved, payload destroyed");
    kani::cover!(unsafe { FIRED && FIRE_AFTER && FOREIGN_OP == 0 }, "foreign clone after an access");
    assert!(unsafe { DROPS } <= 1, "destroyed at most once (interleaving)");
    assert!(unsafe { FOREIGN_GRANTED_WITH } <= 1, "exclusive access granted to a foreign thread while other references exist (interleaving)");
}

il_harness!(rc_il_clone, {
    let (g, t) = il_setup();
    let a = build_q(&g);
    unsafe {
        BOXP = a.ptr.as_ptr() as usize;
        CUR_TID = t;
    }
    let c = a.clone();
    unsafe { GH[t - 1] += 1 };
    kani::cover!(unsafe { FIRED && FOREIGN_OP == 1 }, "foreign drop interleaved");
    assert!(unsafe { DROPS } == 0, "payload destroyed while the cloning thread holds references (interleaving)");
    assert!(c.0 == 7, "contents intact (interleaving)");
    assert!(unsafe { FOREIGN_GRANTED_WITH } <= 1, "exclusive access granted to a foreign thread while other references exist (interleaving)");
    mem::forget(a);
    mem::forget(c);
});

il_harness!(rc_il_get_mut, {
    let (g, t) = il_setup();
    let mut a = build_q(&g);
    unsafe {
        BOXP = a.ptr.as_ptr() as usize;
        CUR_TID = t;
    }
    let granted = BiasedRc::get_mut(&mut a).is_some();
    let total_after = unsafe { GH[0] + GH[1] + GH[2] };
    kani::cover!(granted, "granted");
    kani::cover!(unsafe { FIRED } && !granted, "refused with interference");
    if granted {
        assert!(total_after == 1, "exclusive access granted while another thread holds a reference (interleaving)");
    }
    assert!(unsafe { DROPS } == 0, "payload destroyed during a uniqueness test (interleaving)");
    mem::forget(a);
});
