// Kani harnesses for the number-literal kernel of the reader (`string->number`, and every numeric token of a
// program text, end in `parse_real`).  Child module of a scratch copy of steel-parser/src/lexer.rs.
#![allow(dead_code, unused_imports)]
use super::*;

fn noop() {}
fn fmt_stub(_a: core::fmt::Arguments<'_>) -> String {
    String::new()
}

// `parse_real` on every string made of ONE character of one or two bytes followed by TWO ASCII bytes, without '.', 'e',
// 'E' (those go to the standard library's decimal-to-double conversion, which is not the subject): it must answer
// Some / None and never panic, and `1/2` must come back as the rational 1/2.  (Every valid UTF-8 string of <= 4 bytes
// was measured out: symbolic execution 1270 s, then out of memory.)
// The integer parser behind a literal (`IntLiteral::from_str_radix`: std's `isize::from_str_radix`, then num-bigint) is
// not executed -- its digit loops multiply a symbolic accumulator by the radix and exhaust the solver's memory
// (measured, 26 GB).  The stub records WHAT parse_real hands to it and answers nondeterministically; what is decided
// is parse_real's own character / byte-index arithmetic and slicing.
static mut INT_CALLS: usize = 0;
static mut INT_LEN: [usize; 2] = [0; 2];
static mut INT_FIRST: [u8; 2] = [0; 2];
fn int_literal_from_str_radix_stub(src: &str, _radix: u32) -> core::result::Result<IntLiteral, num_bigint::ParseBigIntError> {
    unsafe {
        if INT_CALLS < 2 {
            INT_LEN[INT_CALLS] = src.len();
            INT_FIRST[INT_CALLS] = if src.is_empty() { 0 } else { src.as_bytes()[0] };
        }
        INT_CALLS += 1;
    }
    if kani::any() {
        Ok(IntLiteral::Small(kani::any()))
    } else {
        // ParseBigIntError is a one-byte enum wrapper; 0 = "empty"
        Err(unsafe { core::mem::transmute::<u8, num_bigint::ParseBigIntError>(0) })
    }
}

// The decimal-to-double conversion of the standard library is not executed either (it alone exhausts the solver's
// memory even when it is unreachable for the assumed inputs): it answers nondeterministically.
fn f64_from_str_stub(_s: &str) -> core::result::Result<f64, core::num::ParseFloatError> {
    if kani::any() {
        Ok(kani::any())
    } else {
        // ParseFloatError is a one-byte enum wrapper; 0 = "empty"
        Err(unsafe { core::mem::transmute::<u8, core::num::ParseFloatError>(0) })
    }
}

#[kani::proof]
#[kani::unwind(7)]
#[kani::stub(std::rt::thread_cleanup, noop)]
#[kani::stub(alloc::fmt::format, fmt_stub)]
#[kani::stub(crate::tokens::IntLiteral::from_str_radix, int_literal_from_str_radix_stub)]
#[kani::stub(<f64 as core::str::FromStr>::from_str, f64_from_str_stub)]
fn lex_parse_real_total() {
    tag_init();
    // shape: one character of one or two bytes, then two ASCII bytes: "1/2", "a/b", "é/2", "+12", ...
    let two: bool = kani::any();
    let c0: u8 = kani::any();
    let c1: u8 = kani::any();
    let a: u8 = kani::any();
    let b: u8 = kani::any();
    let radix: u32 = if kani::any() { 10 } else { 16 };
    kani::assume(a < 0x80 && b < 0x80);
    let buf: [u8; 4];
    let len: usize;
    if two {
        kani::assume(c0 >= 0xC2 && c0 <= 0xDF && c1 >= 0x80 && c1 <= 0xBF);
        buf = [c0, c1, a, b];
        len = 4;
    } else {
        kani::assume(c0 < 0x80);
        buf = [c0, a, b, 0];
        len = 3;
    }
    // valid UTF-8 by construction
    let s = unsafe { core::str::from_utf8_unchecked(&buf[..len]) };
    kani::cover!(two && a == b'/', "a two-byte character before the slash");
    kani::cover!(!two && c0 == b'1' && a == b'/' && b == b'2', "1/2");
    let r = parse_real(s, radix);
    kani::cover!(matches!(r, Some(RealLiteral::Rational(_, _))), "rational literal accepted");
    kani::cover!(r.is_none(), "rejected");
    if a == b'/' && c0 != b'/' && b != b'/' && c0 != b'.' && b != b'.' && !(radix < 15 && (c0 == b'e' || c0 == b'E' || b == b'e' || b == b'E')) {
        // "<char>/<b>": the numerator text is the first character, the denominator text the last byte
        let calls = unsafe { INT_CALLS };
        vassert!(calls >= 1 && unsafe { INT_LEN[0] } == len - 2 && unsafe { INT_FIRST[0] } == c0, "the text before the slash is not what is parsed as the numerator");
        vassert!(calls < 2 || (unsafe { INT_LEN[1] } == 1 && unsafe { INT_FIRST[1] } == b), "the text after the slash is not what is parsed as the denominator");
    }
    core::mem::forget(r);
}
