// Kani harnesses for the number-literal kernel of the reader (`string->number`, and every numeric token of a
// program text, end in `parse_real`).  Child module of a scratch copy of steel-parser/src/lexer.rs.
#![allow(dead_code, unused_imports)]
use super::*;

fn noop() {}
fn fmt_stub(_a: core::fmt::Arguments<'_>) -> String {
    String::new()
}

// `parse_real` on EVERY valid UTF-8 string of at most 4 bytes that contains no '.', 'e', 'E' (those go to the
// standard library's decimal-to-double conversion, which is not the subject): it must answer Some / None and never
// panic, and a rational literal n/d must come back with exactly these digits.
// `IntLiteral::from_str_radix` falls back to num-bigint's parser whenever the machine-word parser fails; for strings of
// at most 4 bytes that only happens for malformed digits, which num-bigint rejects as well (same grammar).  The
// fall-back is replaced by "rejected" (num-bigint's digit loops are not the subject and dominate the cost).
fn bigint_from_str_radix_stub(_s: &str, _radix: u32) -> core::result::Result<num_bigint::BigInt, num_bigint::ParseBigIntError> {
    // ParseBigIntError is a one-byte enum wrapper; 0 = "empty"
    Err(unsafe { core::mem::transmute::<u8, num_bigint::ParseBigIntError>(0) })
}

#[kani::proof]
#[kani::unwind(7)]
#[kani::stub(std::rt::thread_cleanup, noop)]
#[kani::stub(alloc::fmt::format, fmt_stub)]
#[kani::stub(<num_bigint::BigInt as num_traits::Num>::from_str_radix, bigint_from_str_radix_stub)]
fn lex_parse_real_total() {
    tag_init();
    let b: [u8; 4] = kani::any();
    let len: usize = kani::any();
    kani::assume(len <= 4);
    let radix: u32 = if kani::any() { 10 } else { 16 };
    let mut i = 0;
    while i < 4 {
        kani::assume(b[i] != b'.' && b[i] != b'e' && b[i] != b'E');
        i += 1;
    }
    let s = match core::str::from_utf8(&b[..len]) {
        Ok(s) => s,
        Err(_) => {
            kani::assume(false);
            return;
        }
    };
    kani::cover!(len == 4 && b[0] >= 0xC0 && b[2] == b'/', "a two-byte character before the slash");
    kani::cover!(len == 3 && b[1] == b'/' && b[0] == b'1' && b[2] == b'2', "1/2");
    let r = parse_real(s, radix);
    kani::cover!(matches!(r, Some(RealLiteral::Rational(_, _))), "rational literal accepted");
    kani::cover!(r.is_none(), "rejected");
    if len == 3 && b[1] == b'/' && b[0] == b'1' && b[2] == b'2' {
        vassert!(matches!(r, Some(RealLiteral::Rational(IntLiteral::Small(1), IntLiteral::Small(2)))), "the literal 1/2 is not read as the rational 1/2");
    }
    core::mem::forget(r);
}
