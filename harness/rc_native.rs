// Native replay support for steel-rc counterexamples (C05 / C03a).
// Included as a child module of a scratch copy of steel-rc/src/lib.rs under
// `--cfg verif_native`; runs the REAL operations on REAL OS threads (so that the
// real `ThreadId::current_thread()` distinguishes them), one operation at a time.
//
// Two entry points (tests):
//   search  : VERIF_RC_TARGET="m,q,n,b,s,h1,h2,h3,iq;op;t"  -> finds a history of real
//             operations that reaches the solver's pre-state (observed on the real
//             count word), applies the operation, and continues (bounded) until a
//             natively observable failure.  Prints `HISTORY: ...` / `OBSERVED: ...`.
//   run     : VERIF_RC_HISTORY="op@t,..."  -> executes exactly that history and
//             checks the oracle after every step (meant to be run under valgrind,
//             which observes the invalid accesses themselves).
#![allow(dead_code, static_mut_refs)]
use super::*;
use std::collections::{HashSet, VecDeque};
use std::sync::atomic::{AtomicU32, AtomicUsize};
use std::sync::mpsc::{channel, Receiver, Sender};
use std::sync::{Arc, Mutex};

static DROPS: AtomicU32 = AtomicU32::new(0);

pub struct P(pub u64);
impl Drop for P {
    fn drop(&mut self) {
        DROPS.fetch_add(1, Ordering::SeqCst);
        self.0 = 0xDEAD;
    }
}
impl Clone for P {
    fn clone(&self) -> Self {
        P(self.0)
    }
}

#[derive(Clone, Copy, Debug, PartialEq, Eq, Hash)]
pub enum Op {
    Clone(usize),      // thread t clones one of its handles
    Drop(usize),       // thread t drops one of its handles
    Move(usize, usize), // one handle of t is handed to t2
    GetMut(usize),
    MakeMut(usize),
    TryUnwrap(usize),
    Merge(usize), // thread t runs QueueHandle::run_explicit_merge()
    /// interleaving: thread t runs `base` (0 clone, 1 drop, 2 get_mut); at its k-th shared access
    /// (before/after) thread u runs `fop` to completion.  Needs hook H1 (steel_rc::verif_hook).
    Il { t: usize, base: u8, k: u32, after: bool, u: usize, fop: u8 },
}

impl Op {
    fn parse(s: &str) -> Op {
        // "drop@1[2a:clone@3]"
        if let Some(i) = s.find('[') {
            let base = Op::parse(&s[..i]);
            let inner = &s[i + 1..s.len() - 1];
            let (at, f) = inner.split_once(':').unwrap();
            let after = at.ends_with('a');
            let k: u32 = at[..at.len() - 1].parse().unwrap();
            let fop = Op::parse(f);
            let code = |o: &Op| match o {
                Op::Clone(t) => (0u8, *t),
                Op::Drop(t) => (1, *t),
                Op::GetMut(t) => (2, *t),
                _ => panic!("unsupported in interleaving"),
            };
            let (b, t) = code(&base);
            let (fo, u) = code(&fop);
            return Op::Il { t, base: b, k, after, u, fop: fo };
        }
        let (name, rest) = s.split_once('@').expect("op@t");
        let mut it = rest.split('>');
        let t: usize = it.next().unwrap().parse().unwrap();
        match name {
            "clone" => Op::Clone(t),
            "drop" => Op::Drop(t),
            "move" => Op::Move(t, it.next().unwrap().parse().unwrap()),
            "get_mut" => Op::GetMut(t),
            "make_mut" => Op::MakeMut(t),
            "try_unwrap" => Op::TryUnwrap(t),
            "merge" => Op::Merge(t),
            _ => panic!("unknown op {}", name),
        }
    }
    fn show(&self) -> String {
        match self {
            Op::Clone(t) => format!("clone@{}", t),
            Op::Drop(t) => format!("drop@{}", t),
            Op::Move(a, b) => format!("move@{}>{}", a, b),
            Op::GetMut(t) => format!("get_mut@{}", t),
            Op::MakeMut(t) => format!("make_mut@{}", t),
            Op::TryUnwrap(t) => format!("try_unwrap@{}", t),
            Op::Merge(t) => format!("merge@{}", t),
            Op::Il { t, base, k, after, u, fop } => {
                let n = |c: &u8| ["clone", "drop", "get_mut"][*c as usize];
                format!("{}@{}[{}{}:{}@{}]", n(base), t, k, if *after { "a" } else { "b" }, n(fop), u)
            }
        }
    }
}

enum Cmd {
    New,
    Clone,
    Drop,
    GetMut,
    MakeMut,
    TryUnwrap,
    Merge,
    Give(Sender<BiasedRc<P>>),
    Take(BiasedRc<P>),
    Peek,
    Quit,
    /// run Clone/Drop/GetMut (0/1/2) with the interleaving callback installed
    Hooked(u8),
}
#[derive(Debug, Default, Clone, Copy)]
struct Reply {
    flag: bool,  // granted / unwrapped / in-place
    value: u64,  // payload value observed
    merged: usize,
    panicked: bool,
}

thread_local! {
    static IL_ACCESS: std::cell::Cell<u32> = const { std::cell::Cell::new(0) };
}
struct IlPlan {
    k: u32,
    after: bool,
    cmd: u8,
    tx: Sender<Cmd>,
    rx: Arc<Mutex<Receiver<Reply>>>,
    reply: Option<Reply>,
}
static IL_PLAN: Mutex<Option<IlPlan>> = Mutex::new(None);

#[cfg(steel_verif)]
fn il_callback(id: u32) {
    if id == crate::verif_hook::BEFORE_ACCESS {
        IL_ACCESS.with(|c| c.set(c.get() + 1));
    }
    let n = IL_ACCESS.with(|c| c.get());
    let mut g = IL_PLAN.lock().unwrap();
    let fire = match g.as_ref() {
        Some(p) => p.reply.is_none() && p.k == n && p.after == (id == crate::verif_hook::AFTER_ACCESS),
        None => false,
    };
    if fire {
        let p = g.as_mut().unwrap();
        let cmd = match p.cmd {
            0 => Cmd::Clone,
            1 => Cmd::Drop,
            _ => Cmd::GetMut,
        };
        p.tx.send(cmd).unwrap();
        let r = p.rx.lock().unwrap().recv().unwrap();
        p.reply = Some(r);
    }
}

struct Worker {
    tx: Sender<Cmd>,
    rx: Arc<Mutex<Receiver<Reply>>>,
    join: Option<std::thread::JoinHandle<()>>,
    tid: Arc<AtomicUsize>,
    panicked: std::cell::Cell<bool>,
}

fn spawn_worker() -> Worker {
    let (tx, crx) = channel::<Cmd>();
    let (rtx, rx) = channel::<Reply>();
    let tid = Arc::new(AtomicUsize::new(0));
    let tid2 = tid.clone();
    let join = std::thread::spawn(move || {
        QueueHandle::register_thread();
        tid2.store(ThreadId::current_thread().0.get(), Ordering::SeqCst);
        let mut mine: Vec<BiasedRc<P>> = Vec::new();
        for c in crx {
            let mut r = Reply::default();
            if let Cmd::Quit = c {
                for h in mine.drain(..) {
                    std::mem::forget(h);
                }
                break;
            }
            let mine = &mut mine;
            let r_ref = &mut r;
            let res = std::panic::catch_unwind(std::panic::AssertUnwindSafe(move || {
                let r = r_ref;
            match c {
                Cmd::New => mine.push(BiasedRc::new(P(7))),
                Cmd::Clone => {
                    let c = mine.last().unwrap().clone();
                    mine.push(c)
                }
                Cmd::Drop => drop(mine.pop().unwrap()),
                Cmd::GetMut => {
                    let h = mine.last_mut().unwrap();
                    r.flag = BiasedRc::get_mut(h).is_some();
                }
                Cmd::MakeMut => {
                    let h = mine.last_mut().unwrap();
                    let before = h.ptr;
                    BiasedRc::make_mut(h).0 = 9;
                    r.flag = h.ptr == before;
                }
                Cmd::TryUnwrap => match BiasedRc::try_unwrap(mine.pop().unwrap()) {
                    Ok(v) => {
                        r.flag = true;
                        r.value = v.0;
                        std::mem::forget(v);
                    }
                    Err(b) => mine.push(b),
                },
                Cmd::Merge => r.merged = QueueHandle::run_explicit_merge(),
                Cmd::Give(to) => to.send(mine.pop().unwrap()).unwrap(),
                Cmd::Take(h) => mine.push(h),
                Cmd::Peek => r.value = mine.last().map(|h| h.0).unwrap_or(0),
                Cmd::Quit => {}
                Cmd::Hooked(base) => {
                    #[cfg(steel_verif)]
                    {
                        IL_ACCESS.with(|c| c.set(0));
                        crate::verif_hook::set(Some(il_callback));
                    }
                    match base {
                        0 => {
                            let c = mine.last().unwrap().clone();
                            mine.push(c)
                        }
                        1 => drop(mine.pop().unwrap()),
                        _ => {
                            let h = mine.last_mut().unwrap();
                            r.flag = BiasedRc::get_mut(h).is_some();
                        }
                    }
                    #[cfg(steel_verif)]
                    crate::verif_hook::set(None);
                }
            }
            }));
            if res.is_err() {
                r.panicked = true;
            }
            rtx.send(r).unwrap();
        }
    });
    while tid.load(Ordering::SeqCst) == 0 {
        std::thread::yield_now();
    }
    Worker { tx, rx: Arc::new(Mutex::new(rx)), join: Some(join), tid, panicked: std::cell::Cell::new(false) }
}

impl Worker {
    fn call(&self, c: Cmd) -> Reply {
        self.tx.send(c).unwrap();
        let r = self.rx.lock().unwrap().recv().unwrap();
        if r.panicked {
            self.panicked.set(true);
        }
        r
    }
}

#[derive(Clone, Copy, Debug, PartialEq, Eq, Hash)]
pub struct Obs {
    merged: bool,
    queued: bool,
    owner_none: bool,
    b: u32,
    s: i32,
    h: [u32; 3],
    in_queue: bool,
}

pub struct World {
    w: Vec<Worker>,
    ptr: Option<NonNull<RcBox<P>>>, // the original box
    h: [u32; 3],                    // handles to the ORIGINAL box per thread (ghost = who holds what)
    copies: [u32; 3],               // handles to make_mut copies (not tracked further)
    gone: bool,                     // payload destroyed or moved out
    expect: u64,                    // contents every holder must observe
    pub failure: Option<String>,
}

impl World {
    pub fn new() -> World {
        DROPS.store(0, Ordering::SeqCst);
        let w = vec![spawn_worker(), spawn_worker(), spawn_worker()];
        let mut me = World { w, ptr: None, h: [0; 3], copies: [0; 3], gone: false, expect: 7, failure: None };
        me.w[0].call(Cmd::New);
        // fetch the pointer: give the handle to ourselves and back
        let (tx, rx) = channel();
        me.w[0].call(Cmd::Give(tx));
        let hnd = rx.recv().unwrap();
        me.ptr = Some(hnd.ptr);
        me.w[0].call(Cmd::Take(hnd));
        me.h[0] = 1;
        me
    }
    fn total(&self) -> u32 {
        self.h.iter().sum()
    }
    fn queue_len(&self) -> usize {
        let key = Some(ThreadId(NonZeroUsize::new(self.w[0].tid.load(Ordering::SeqCst)).unwrap()));
        let a = QUEUE.map.get(&key).map(|q| q.len()).unwrap_or(0);
        let b = QUEUE.unregistered.get(&key).map(|q| q.len()).unwrap_or(0);
        a + b
    }
    pub fn observe(&self) -> Option<Obs> {
        if self.gone {
            return None;
        }
        let p = self.ptr.unwrap();
        let w = unsafe { &(*p.as_ptr()).rcword };
        let pk = w.shared.load(Ordering::SeqCst);
        Some(Obs {
            merged: pk.is_merged(),
            queued: pk.is_queued(),
            owner_none: w.thread_id.get().is_none(),
            b: w.biased_counter.get(),
            s: pk.get_counter(),
            h: self.h,
            in_queue: self.queue_len() > 0,
        })
    }
    pub fn enabled(&self, op: Op) -> bool {
        if self.failure.is_some() {
            return false;
        }
        match op {
            Op::Clone(t) | Op::Drop(t) | Op::GetMut(t) | Op::MakeMut(t) | Op::TryUnwrap(t) => {
                !self.gone && self.h[t - 1] >= 1 && self.copies[t - 1] == 0
            }
            Op::Move(a, b) => !self.gone && a != b && self.h[a - 1] >= 1 && self.copies[a - 1] == 0 && self.copies[b - 1] == 0,
            // an explicit merge with an entry for a destroyed box is exactly the
            // use-after-free we want valgrind to see: allowed only in `run` mode
            Op::Merge(t) => t == 1 && !self.gone,
            Op::Il { t, u, .. } => !self.gone && t != u && self.h[t - 1] >= 1 && self.h[u - 1] >= 1 && self.copies[t - 1] == 0 && self.copies[u - 1] == 0,
        }
    }
    /// Executes one real operation and checks the natively observable oracle.
    pub fn step(&mut self, op: Op) {
        let before_total = self.total();
        let drops0 = DROPS.load(Ordering::SeqCst);
        match op {
            Op::Clone(t) => {
                self.w[t - 1].call(Cmd::Clone);
                self.h[t - 1] += 1;
            }
            Op::Drop(t) => {
                self.w[t - 1].call(Cmd::Drop);
                self.h[t - 1] -= 1;
            }
            Op::Move(a, b) => {
                let (tx, rx) = channel();
                self.w[a - 1].call(Cmd::Give(tx));
                let hnd = rx.recv().unwrap();
                self.w[b - 1].call(Cmd::Take(hnd));
                self.h[a - 1] -= 1;
                self.h[b - 1] += 1;
            }
            Op::GetMut(t) => {
                let r = self.w[t - 1].call(Cmd::GetMut);
                if r.flag && before_total != 1 {
                    self.failure = Some(format!("exclusive access granted to thread {} while {} references exist", t, before_total));
                }
            }
            Op::MakeMut(t) => {
                let r = self.w[t - 1].call(Cmd::MakeMut);
                if r.flag {
                    if before_total != 1 {
                        self.failure = Some(format!("in-place mutation by thread {} while {} references exist", t, before_total));
                    }
                    self.expect = 9;
                } else {
                    self.h[t - 1] -= 1;
                    self.copies[t - 1] += 1;
                }
            }
            Op::TryUnwrap(t) => {
                let r = self.w[t - 1].call(Cmd::TryUnwrap);
                if r.flag {
                    self.h[t - 1] -= 1;
                    self.gone = true;
                    if before_total != 1 {
                        self.failure = Some(format!("unwrapped by thread {} while {} references exist", t, before_total));
                    }
                    if r.value != self.expect {
                        self.failure = Some(format!("unwrapped payload corrupted: {:#x}", r.value));
                    }
                }
            }
            Op::Merge(t) => {
                self.w[t - 1].call(Cmd::Merge);
            }
            Op::Il { t, base, k, after, u, fop } => {
                *IL_PLAN.lock().unwrap() = Some(IlPlan { k, after, cmd: fop, tx: self.w[u - 1].tx.clone(), rx: self.w[u - 1].rx.clone(), reply: None });
                if base == 1 {
                    self.h[t - 1] -= 1;
                }
                let r = self.w[t - 1].call(Cmd::Hooked(base));
                let plan = IL_PLAN.lock().unwrap().take().unwrap();
                let fired = plan.reply.is_some();
                if fired {
                    match fop {
                        0 => self.h[u - 1] += 1,
                        1 => self.h[u - 1] -= 1,
                        _ => {
                            if plan.reply.unwrap().flag && before_total != 1 {
                                self.failure = Some(format!("exclusive access granted to thread {} while {} references exist (interleaved)", u, before_total));
                            }
                        }
                    }
                }
                if base == 0 {
                    self.h[t - 1] += 1;
                }
                if base == 2 && r.flag && self.total() != 1 {
                    self.failure = Some(format!("exclusive access granted to thread {} while {} references exist (interleaved)", t, self.total()));
                }
                if !fired {
                    self.failure.get_or_insert(format!("interleaving point {}{} not reached on this tree", k, if after { "a" } else { "b" }));
                }
            }
        }
        if self.w.iter().any(|w| w.panicked.get()) {
            self.gone = true;
            self.failure = Some(format!("{} panicked inside steel-rc", op.show()));
            return;
        }
        let drops = DROPS.load(Ordering::SeqCst);
        if drops > drops0 {
            self.gone = true;
            if drops > 1 {
                self.failure = Some(format!("payload destroyed {} times", drops));
            } else if self.total() > 0 {
                self.failure = Some(format!("payload destroyed by {} while {} references are still alive", op.show(), self.total()));
            }
        }
        // while references exist every access sees intact contents
        if self.failure.is_none() && !self.gone {
            for t in 0..3 {
                if self.h[t] > 0 && self.copies[t] == 0 {
                    let v = self.w[t].call(Cmd::Peek).value;
                    if v != self.expect {
                        self.failure = Some(format!("thread {} reads corrupted contents {:#x}", t + 1, v));
                    }
                }
            }
        }
    }
    /// destroyed-but-still-queued: the next explicit merge dereferences freed memory
    pub fn dangling_queue_entry(&self) -> bool {
        self.gone && self.queue_len() > 0
    }
    pub fn finish(mut self) {
        for w in self.w.iter_mut() {
            w.tx.send(Cmd::Quit).unwrap();
            w.join.take().unwrap().join().unwrap();
        }
        // leave the global queue clean for the next world (entries are ManuallyDrop aliases)
        let key = Some(ThreadId(NonZeroUsize::new(self.w[0].tid.load(Ordering::SeqCst)).unwrap()));
        if let Some((_, q)) = QUEUE.map.remove(&key) {
            std::mem::forget(q);
        }
        if let Some((_, q)) = QUEUE.unregistered.remove(&key) {
            std::mem::forget(q);
        }
    }
}

fn all_ops() -> Vec<Op> {
    let mut v = Vec::new();
    for t in 1..=3 {
        v.push(Op::Clone(t));
        v.push(Op::Drop(t));
        for u in 1..=3 {
            if u != t {
                v.push(Op::Move(t, u));
            }
        }
    }
    v.push(Op::Merge(1));
    v
}

fn replay_prefix(hist: &[Op]) -> World {
    let mut w = World::new();
    for &op in hist {
        assert!(w.enabled(op));
        w.step(op);
    }
    w
}

fn show_hist(h: &[Op]) -> String {
    h.iter().map(|o| o.show()).collect::<Vec<_>>().join(",")
}

/// Breadth-first search over histories of REAL operations, deduplicated on the
/// observed count word, for the solver's pre-state.
fn reach(target: &Obs, max_depth: usize, cap: u32) -> Option<Vec<Op>> {
    let mut seen: HashSet<Obs> = HashSet::new();
    let mut q: VecDeque<Vec<Op>> = VecDeque::new();
    q.push_back(vec![]);
    let ops = all_ops();
    while let Some(hist) = q.pop_front() {
        let w = replay_prefix(&hist);
        let o = w.observe();
        let fail = w.failure.is_some();
        let mut next: Vec<Op> = vec![];
        if let (Some(o), false) = (o, fail) {
            if matches(&o, target) {
                w.finish();
                return Some(hist);
            }
            if seen.insert(o) && hist.len() < max_depth {
                for &op in &ops {
                    if w.enabled(op) {
                        if let Op::Clone(_) = op {
                            if w.total() >= cap {
                                continue;
                            }
                        }
                        next.push(op);
                    }
                }
            }
        }
        w.finish();
        for op in next {
            let mut h2 = hist.clone();
            h2.push(op);
            q.push_back(h2);
        }
    }
    None
}

/// After the solver's operation, look (bounded DFS) for a continuation whose
/// failure is observable: oracle failure, or a dangling queue entry followed by
/// an explicit merge (confirmed under valgrind in `run` mode).
fn continue_to_failure(hist: &[Op], depth: usize) -> Option<(Vec<Op>, String)> {
    let w = replay_prefix(hist);
    if let Some(f) = w.failure.clone() {
        w.finish();
        return Some((hist.to_vec(), f));
    }
    if w.dangling_queue_entry() {
        w.finish();
        let mut h = hist.to_vec();
        h.push(Op::Merge(1));
        return Some((h, "explicit merge dereferences a destroyed box (queue entry outlived it)".into()));
    }
    if depth == 0 {
        w.finish();
        return None;
    }
    let mut cands = vec![];
    for op in all_ops() {
        if w.enabled(op) && !(matches!(op, Op::Clone(_)) && w.total() >= 3) {
            cands.push(op);
        }
    }
    w.finish();
    for op in cands {
        let mut h = hist.to_vec();
        h.push(op);
        if let Some(r) = continue_to_failure(&h, depth - 1) {
            return Some(r);
        }
    }
    None
}

/// The biased counter of a merged box without a queue entry is dead state: any value matches.
fn matches(o: &Obs, t: &Obs) -> bool {
    let mut o2 = *o;
    if t.merged && !t.in_queue {
        o2.b = t.b;
    }
    o2 == *t
}

/// Fallback when the solver's pre-state is not reachable on this tree (the tree's reachable
/// states differ from the written invariant) or no failure follows it: breadth-first search
/// over ALL histories of real operations (deduplicated on the observed state) for any
/// natively observable failure.  `ignore_stale`: do not stop at the listed known finding.
fn any_failure(max_depth: usize, ignore_stale: bool) -> Option<(Vec<Op>, String)> {
    let mut seen: HashSet<(Option<Obs>, [u32; 3])> = HashSet::new();
    let mut q: VecDeque<Vec<Op>> = VecDeque::new();
    q.push_back(vec![]);
    let mut ops = all_ops();
    for t in 1..=3 {
        ops.push(Op::GetMut(t));
        ops.push(Op::TryUnwrap(t));
    }
    while let Some(hist) = q.pop_front() {
        let w = replay_prefix(&hist);
        if let Some(f) = w.failure.clone() {
            w.finish();
            return Some((hist, f));
        }
        if w.dangling_queue_entry() && !ignore_stale {
            w.finish();
            let mut h = hist.clone();
            h.push(Op::Merge(1));
            return Some((h, "explicit merge dereferences a destroyed box (queue entry outlived it)".into()));
        }
        let key = (w.observe(), w.copies);
        let mut next = vec![];
        if !w.gone && seen.insert(key) && hist.len() < max_depth {
            for &op in &ops {
                if w.enabled(op) && !(matches!(op, Op::Clone(_)) && w.total() >= 3) {
                    next.push(op);
                }
            }
        }
        w.finish();
        for op in next {
            let mut h2 = hist.clone();
            h2.push(op);
            q.push_back(h2);
        }
    }
    None
}

fn parse_target(s: &str) -> (Obs, Op) {
    // "m,q,n,b,s,h1,h2,h3,iq;op@t"
    let (st, op) = s.split_once(';').unwrap();
    let v: Vec<i64> = st.split(',').map(|x| x.trim().parse().unwrap()).collect();
    (
        Obs {
            merged: v[0] != 0,
            queued: v[1] != 0,
            owner_none: v[2] != 0,
            b: v[3] as u32,
            s: v[4] as i32,
            h: [v[5] as u32, v[6] as u32, v[7] as u32],
            in_queue: v[8] != 0,
        },
        Op::parse(op.trim()),
    )
}

#[test]
fn search() {
    let t = std::env::var("VERIF_RC_TARGET").expect("VERIF_RC_TARGET");
    let (target, op) = parse_target(&t);
    let depth: usize = std::env::var("VERIF_RC_DEPTH").ok().and_then(|x| x.parse().ok()).unwrap_or(14);
    let cap = target.h.iter().sum::<u32>().max(3) + 1;
    let ignore_stale = std::env::var("VERIF_RC_IGNORE_STALE").is_ok();
    let mut found = false;
    match reach(&target, depth, cap) {
        None => println!("UNREACHED: no history of <= {} real operations reaches {:?}", depth, target),
        Some(mut hist) => {
            println!("PRESTATE-HISTORY: {}", show_hist(&hist));
            hist.push(op);
            if let Op::Il { .. } = op {
                // not executed here: the interleaved access may write into freed memory; the
                // history is executed once, under valgrind, by `run`
                println!("HISTORY: {}", show_hist(&hist));
                println!("EXPECTED: the analysed operation touches the box after the interleaved operation freed it, or an oracle failure");
                return;
            }
            match continue_to_failure(&hist, 3) {
                Some((h, why)) => {
                    println!("HISTORY: {}", show_hist(&h));
                    println!("EXPECTED: {}", why);
                    found = true;
                }
                None => println!("NOFAILURE: pre-state reached and operation applied, no observable failure within 3 further operations"),
            }
        }
    }
    if !found {
        let d: usize = std::env::var("VERIF_RC_ANY_DEPTH").ok().and_then(|x| x.parse().ok()).unwrap_or(9);
        if let Some((h, why)) = any_failure(d, ignore_stale) {
            println!("FALLBACK: unguided search over real histories (depth <= {})", d);
            println!("HISTORY: {}", show_hist(&h));
            println!("EXPECTED: {}", why);
        }
    }
}

#[test]
fn run() {
    let hs = std::env::var("VERIF_RC_HISTORY").expect("VERIF_RC_HISTORY");
    let mut w = World::new();
    for s in hs.split(',').filter(|s| !s.is_empty()) {
        let op = Op::parse(s.trim());
        // in run mode an explicit merge is executed even when the box is gone:
        // that is the access valgrind is meant to observe
        let ok = match op {
            Op::Merge(_) => true,
            _ => w.enabled(op),
        };
        assert!(ok, "history step {} not enabled", s);
        w.step(op);
        if let Some(f) = &w.failure {
            println!("OBSERVED: {}", f);
            std::process::exit(3);
        }
    }
    println!("COMPLETED: no oracle failure");
    w.finish();
}
