// Kani harnesses for structural equality (C11).  Child module of a scratch copy of
// steel-core/src/rvals/cycles.rs.  The recursive handler is driven with harness-owned queues,
// exactly as the re-entrant arm of `impl PartialEq for SteelVal` does (the thread-local arm
// cannot run under Kani: destructor-bearing thread-locals).
#![allow(dead_code, unused_imports, static_mut_refs)]
use super::*;
use crate::values::lists::Pair as ConsPair;

fn noop() {}
fn fmt_stub(_a: core::fmt::Arguments<'_>) -> String {
    String::new()
}

// ---- visited set: hashbrown is replaced by a 12-entry association list (trusted: a set)
static mut VIS: [(usize, usize); 12] = [(0, 0); 12];
static mut VIS_N: usize = 0;
fn set_insert_stub<T, S, A: std::alloc::Allocator>(_this: &mut std::collections::HashSet<T, S, A>, value: T) -> bool {
    assert!(core::mem::size_of::<T>() == core::mem::size_of::<(usize, usize)>());
    let v: (usize, usize) = unsafe { core::mem::transmute_copy(&value) };
    core::mem::forget(value);
    unsafe {
        let mut i = 0;
        while i < VIS_N {
            if VIS[i] == v {
                return false;
            }
            i += 1;
        }
        assert!(VIS_N < 12);
        VIS[VIS_N] = v;
        VIS_N += 1;
    }
    true
}

fn cons(a: SteelVal, b: SteelVal) -> SteelVal {
    SteelVal::Pair(Gc::new(ConsPair::cons(a, b)))
}
fn leaf(v: u8) -> SteelVal {
    SteelVal::IntV(v as isize)
}

/// One side: an outer pair whose two children are each a leaf or an inner pair of two leaves;
/// `share`: the second child is the SAME object as the first (internal sharing).
#[derive(Clone, Copy)]
struct Desc {
    inner1: bool,
    a: [u8; 2],
    share: bool,
    inner2: bool,
    b: [u8; 2],
}
fn any_desc() -> Desc {
    let d = Desc { inner1: kani::any(), a: [kani::any(), kani::any()], share: kani::any(), inner2: kani::any(), b: [kani::any(), kani::any()] };
    kani::assume(d.a[0] < 3 && d.a[1] < 3 && d.b[0] < 3 && d.b[1] < 3);
    d
}
fn child(inner: bool, v: [u8; 2]) -> SteelVal {
    if inner {
        cons(leaf(v[0]), leaf(v[1]))
    } else {
        leaf(v[0])
    }
}
fn build(d: &Desc) -> SteelVal {
    let c1 = child(d.inner1, d.a);
    let c2 = if d.share { c1.clone() } else { child(d.inner2, d.b) };
    cons(c1, c2)
}
// the mathematical value of a side: (kind, leaves) of each child
fn norm(d: &Desc) -> ((bool, u8, u8), (bool, u8, u8)) {
    let k = |inner: bool, v: [u8; 2]| (inner, v[0], if inner { v[1] } else { 0 });
    let c1 = k(d.inner1, d.a);
    let c2 = if d.share { c1 } else { k(d.inner2, d.b) };
    (c1, c2)
}

fn real_eq(a: &SteelVal, b: &SteelVal) -> bool {
    unsafe { VIS_N = 0 };
    let mut lq: Vec<SteelVal> = Vec::new();
    let mut rq: Vec<SteelVal> = Vec::new();
    let mut vis: FxHashSet<(usize, usize)> = FxHashSet::default();
    let res = {
        let mut h = RecursiveEqualityHandler { left: EqualityVisitor { queue: &mut lq }, right: EqualityVisitor { queue: &mut rq }, visited: &mut vis };
        h.compare_equality(a.clone(), b.clone())
    };
    core::mem::forget(lq);
    core::mem::forget(rq);
    core::mem::forget(vis);
    res
}

#[kani::proof]
#[kani::unwind(14)]
#[kani::stub(std::rt::thread_cleanup, noop)]
#[kani::stub(alloc::fmt::format, fmt_stub)]
#[kani::stub(std::collections::HashSet::insert, set_insert_stub)]
fn eq_pairs_structural() {
    tag_init();
    let da = any_desc();
    let db = any_desc();
    let a = build(&da);
    let b = build(&db);
    let expect = norm(&da) == norm(&db);
    let got = real_eq(&a, &b);
    kani::cover!(expect && da.share && !db.share, "equal, sharing on the left only");
    kani::cover!(!expect && da.share && !db.share && da.inner1, "different, sharing on the left");
    kani::cover!(expect && !da.share && db.share, "equal, sharing on the right only");
    kani::cover!(!expect && !da.share && !db.share, "different, no sharing");
    vassert!(got == expect, "equal? differs from structural equality of the two values");
    core::mem::forget(a);
    core::mem::forget(b);
}

#[kani::proof]
#[kani::unwind(14)]
#[kani::stub(std::rt::thread_cleanup, noop)]
#[kani::stub(alloc::fmt::format, fmt_stub)]
#[kani::stub(std::collections::HashSet::insert, set_insert_stub)]
fn eq_pairs_equivalence() {
    tag_init();
    let da = any_desc();
    let db = any_desc();
    let a = build(&da);
    let b = build(&db);
    let ab = real_eq(&a, &b);
    let ba = real_eq(&b, &a);
    let aa = real_eq(&a, &a);
    kani::cover!(ab, "equal pair");
    kani::cover!(!ab, "unequal pair");
    vassert!(aa, "equal? is not reflexive");
    vassert!(ab == ba, "equal? is not symmetric");
    core::mem::forget(a);
    core::mem::forget(b);
}
