// Kani harnesses for structural equality (C11).  Child module of a scratch copy of
// steel-core/src/rvals/cycles.rs.  The recursive handler is driven with harness-owned queues,
// exactly as the re-entrant arm of `impl PartialEq for SteelVal` does (the thread-local arm
// cannot run under Kani: destructor-bearing thread-locals).
#![allow(dead_code, unused_imports, static_mut_refs)]
use super::*;
use crate::values::lists::Pair as ConsPair;

fn noop() {}
// Dropping a reference-counted value never frees it in these harnesses (values leak): the
// count protocol is the subject of C05, and without this CBMC executes the drop glue of every
// SteelVal variant at every loop iteration of the handler.
fn rc_dec_stub<T: ?Sized>(_b: &steel_rc::RcBox<T>) -> steel_rc::DecrementAction {
    steel_rc::DecrementAction::DoNothing
}
fn fmt_stub(_a: core::fmt::Arguments<'_>) -> String {
    String::new()
}

// ---- visited set: hashbrown is replaced by a 12-entry association list (trusted: a set)
static mut VIS: [(usize, usize); 12] = [(0, 0); 12];
static mut VIS_N: usize = 0;
static mut VIS_RESET_OK: bool = true;
fn set_insert_stub<T, S, A: std::alloc::Allocator>(_this: &mut std::collections::HashSet<T, S, A>, value: T) -> bool {
    assert!(core::mem::size_of::<T>() == core::mem::size_of::<(usize, usize)>());
    let v: (usize, usize) = unsafe { core::mem::transmute_copy(&value) };
    core::mem::forget(value);
    unsafe {
        let mut i = 0;
        while i < VIS_N {
            if VIS[i] == v {
                return false;
            }
            i += 1;
        }
        assert!(VIS_N < 12);
        VIS[VIS_N] = v;
        VIS_N += 1;
    }
    true
}

fn cons(a: SteelVal, b: SteelVal) -> SteelVal {
    SteelVal::Pair(Gc::new(ConsPair::cons(a, b)))
}
fn leaf(v: u8) -> SteelVal {
    SteelVal::IntV(v as isize)
}

fn any_leaf() -> u8 {
    let v: u8 = kani::any();
    kani::assume(v < 3);
    v
}

fn real_eq(a: &SteelVal, b: &SteelVal) -> bool {
    unsafe { VIS_N = 0 };
    let mut lq: Vec<SteelVal> = Vec::with_capacity(8);
    let mut rq: Vec<SteelVal> = Vec::with_capacity(8);
    let mut vis: FxHashSet<(usize, usize)> = FxHashSet::default();
    let res = {
        let mut h = RecursiveEqualityHandler { left: EqualityVisitor { queue: &mut lq }, right: EqualityVisitor { queue: &mut rq }, visited: &mut vis };
        h.compare_equality(a.clone(), b.clone())
    };
    core::mem::forget(lq);
    core::mem::forget(rq);
    core::mem::forget(vis);
    res
}

// The SHAPE of each side is concrete per harness (which children are the same object), the
// leaves are symbolic.  `shared`: outer pair whose two children are ONE inner pair object;
// `fresh`: outer pair with two separately allocated inner pairs.
fn shared(l: [u8; 2]) -> SteelVal {
    let y = cons(leaf(l[0]), leaf(l[1]));
    cons(y.clone(), y)
}
fn fresh(l: [u8; 4]) -> SteelVal {
    cons(cons(leaf(l[0]), leaf(l[1])), cons(leaf(l[2]), leaf(l[3])))
}

macro_rules! eq_harness {
    ($name:ident, $body:block) => {
        eq_harness!($name, 10, $body);
    };
    ($name:ident, $unwind:expr, $body:block) => {
        #[kani::proof]
        #[kani::unwind($unwind)]
        #[kani::stub(std::rt::thread_cleanup, noop)]
        #[kani::stub(alloc::fmt::format, fmt_stub)]
        #[kani::stub(std::collections::HashSet::insert, set_insert_stub)]
        #[kani::stub(steel_rc::RcBox::decrement, rc_dec_stub)]
        fn $name() {
            tag_init();
            $body
        }
    };
}

// (y . y) against two separately built pairs: equal exactly when both built pairs equal y
eq_harness!(eq_pairs_shared_left, {
    let l = [any_leaf(), any_leaf()];
    let r = [any_leaf(), any_leaf(), any_leaf(), any_leaf()];
    let a = shared(l);
    let b = fresh(r);
    let expect = l[0] == r[0] && l[1] == r[1] && l[0] == r[2] && l[1] == r[3];
    let got = real_eq(&a, &b);
    kani::cover!(expect, "structurally equal");
    kani::cover!(!expect && l[0] == r[2] && l[1] == r[3], "first child differs only");
    kani::cover!(!expect && l[0] == r[0] && l[1] == r[1], "second child differs only");
    vassert!(got == expect, "equal? differs from structural equality when the left value repeats a sub-object");
    core::mem::forget(a);
    core::mem::forget(b);
});

eq_harness!(eq_pairs_shared_right, {
    let l = [any_leaf(), any_leaf(), any_leaf(), any_leaf()];
    let r = [any_leaf(), any_leaf()];
    let a = fresh(l);
    let b = shared(r);
    let expect = l[0] == r[0] && l[1] == r[1] && l[2] == r[0] && l[3] == r[1];
    let got = real_eq(&a, &b);
    kani::cover!(expect, "structurally equal");
    kani::cover!(!expect && l[2] == r[0] && l[3] == r[1], "first child differs only");
    kani::cover!(!expect && l[0] == r[0] && l[1] == r[1], "second child differs only");
    vassert!(got == expect, "equal? differs from structural equality when the right value repeats a sub-object");
    core::mem::forget(a);
    core::mem::forget(b);
});

eq_harness!(eq_pairs_fresh, {
    let l = [any_leaf(), any_leaf(), any_leaf(), any_leaf()];
    let r = [any_leaf(), any_leaf(), any_leaf(), any_leaf()];
    let a = fresh(l);
    let b = fresh(r);
    let expect = l[0] == r[0] && l[1] == r[1] && l[2] == r[2] && l[3] == r[3];
    let got = real_eq(&a, &b);
    let back = real_eq(&b, &a);
    kani::cover!(expect, "structurally equal");
    kani::cover!(!expect, "different");
    vassert!(got == expect, "equal? differs from structural equality on values without sharing");
    vassert!(got == back, "equal? is not symmetric");
    core::mem::forget(a);
    core::mem::forget(b);
});

eq_harness!(eq_pairs_shared_both, {
    let l = [any_leaf(), any_leaf()];
    let r = [any_leaf(), any_leaf()];
    let a = shared(l);
    let b = shared(r);
    let expect = l[0] == r[0] && l[1] == r[1];
    let got = real_eq(&a, &b);
    let refl = real_eq(&a, &a);
    kani::cover!(expect, "structurally equal");
    kani::cover!(!expect, "different");
    vassert!(got == expect, "equal? differs from structural equality when both values repeat a sub-object");
    vassert!(refl, "equal? is not reflexive");
    core::mem::forget(a);
    core::mem::forget(b);
});

// ------------------------------------------------------------------ one comparison step from a symbolic "visited" state
// Inside a larger comparison the pair (a, b) is reached with a visited set that may already
// contain a (it was met before, paired with something else), b, or both.  Whatever was
// visited before, comparing a with b must look at their contents unless THIS pair of objects
// was compared before (which the harness excludes: a and b are compared once).
fn pair_ptr(v: &SteelVal) -> usize {
    match v {
        SteelVal::Pair(p) => p.as_ptr() as usize,
        _ => 0,
    }
}

eq_harness!(eq_step_pair_with_visited_history, 10, {
    let l = [any_leaf(), any_leaf()];
    let r = [any_leaf(), any_leaf()];
    let a = cons(leaf(l[0]), leaf(l[1]));
    let b = cons(leaf(r[0]), leaf(r[1]));
    let seen_a: bool = kani::any();
    let seen_b: bool = kani::any();
    unsafe { VIS_N = 0 };
    let mut lq: Vec<SteelVal> = Vec::with_capacity(8);
    let mut rq: Vec<SteelVal> = Vec::with_capacity(8);
    let mut vis: FxHashSet<(usize, usize)> = FxHashSet::default();
    if seen_a {
        vis.insert((pair_ptr(&a), 0));
    }
    if seen_b {
        vis.insert((pair_ptr(&b), 0));
    }
    let got = {
        let mut h = RecursiveEqualityHandler { left: EqualityVisitor { queue: &mut lq }, right: EqualityVisitor { queue: &mut rq }, visited: &mut vis };
        h.compare_equality(a.clone(), b.clone())
    };
    let expect = l[0] == r[0] && l[1] == r[1];
    kani::cover!(seen_a && !seen_b && !expect, "left object met before, contents differ");
    kani::cover!(!seen_a && seen_b && !expect, "right object met before, contents differ");
    kani::cover!(!seen_a && !seen_b && expect, "fresh, equal");
    vassert!(got == expect, "equal? of two pairs depends on what was visited before instead of on their contents");
    core::mem::forget(lq);
    core::mem::forget(rq);
    core::mem::forget(vis);
    core::mem::forget(a);
    core::mem::forget(b);
});

// masked twin for the listed finding "visited marks are kept per side": with no earlier
// encounter of either object the answer must be the structural one
eq_harness!(eq_step_pair_with_visited_history__kf, 10, {
    let l = [any_leaf(), any_leaf()];
    let r = [any_leaf(), any_leaf()];
    let a = cons(leaf(l[0]), leaf(l[1]));
    let b = cons(leaf(r[0]), leaf(r[1]));
    let got = real_eq(&a, &b);
    let back = real_eq(&b, &a);
    let refl = real_eq(&a, &a);
    let expect = l[0] == r[0] && l[1] == r[1];
    kani::cover!(expect, "equal");
    kani::cover!(!expect, "different");
    vassert!(got == expect, "equal? of two fresh pairs differs from the equality of their contents");
    vassert!(got == back, "equal? is not symmetric");
    vassert!(refl, "equal? is not reflexive");
    core::mem::forget(a);
    core::mem::forget(b);
});
