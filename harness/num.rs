// Kani harnesses for exact arithmetic (C10) and panic-freedom of numeric primitives (C07).
// Included as a child module of a scratch copy of steel-core/src/primitives/numbers.rs.
#![allow(dead_code, unused_imports)]
use super::*;
use crate::rvals::SteelVal::*;

fn noop() {}
fn fmt_stub(_a: core::fmt::Arguments<'_>) -> String {
    String::new()
}

// num-bigint's carry chain uses x86 intrinsics that Kani does not model: replaced by their
// arithmetic definition (part of every C10 claim that involves a BigNum)
unsafe fn addcarry_stub(c_in: u8, a: u64, b: u64, out: &mut u64) -> u8 {
    let s = a as u128 + b as u128 + (c_in as u128);
    *out = s as u64;
    (s >> 64) as u8
}
unsafe fn subborrow_stub(b_in: u8, a: u64, b: u64, out: &mut u64) -> u8 {
    let d = (a as u128).wrapping_sub(b as u128).wrapping_sub(b_in as u128);
    *out = d as u64;
    ((d >> 64) & 1) as u8
}

// Model of num-bigint's `BigInt += isize` for magnitudes below 2^126 (exact in i128): used so that
// CBMC does not have to execute the general multi-limb carry/borrow/normalise code.  num-bigint
// is a dependency, not the subject; what is checked is which operation steel calls on which
// operands and how it canonicalises the result.
fn bigint_add_assign_isize_stub(this: &mut BigInt, other: isize) {
    let v = this.to_i128();
    kani::assume(v.is_some());
    let r = v.unwrap() + other as i128;
    *this = BigInt::from(r);
}

fn bigint_mul_assign_isize_stub(this: &mut BigInt, other: isize) {
    let v = this.to_i128();
    kani::assume(v.is_some());
    let v = v.unwrap();
    kani::assume(v >= -(1i128 << 63) && v <= (1i128 << 63)); // |v * other| < 2^127
    *this = BigInt::from(v * other as i128);
}

// `Ratio::new` = `new_raw` + reduction (gcd loops over big integers).  In the harnesses that use
// this stub the operands are already in lowest terms with a positive denominator, so the
// reduction is the identity; it is skipped.
fn ratio_new_reduced_stub<T: Clone + num_integer::Integer>(numer: T, denom: T) -> Ratio<T> {
    Ratio::new_raw(numer, denom)
}

const IMIN: i128 = isize::MIN as i128;
const IMAX: i128 = isize::MAX as i128;

fn fits(e: i128) -> bool {
    e >= IMIN && e <= IMAX
}

/// The canonical-form oracle: an exact integer result `e` must come back as IntV(e) when it
/// fits the machine word and as a BigNum equal to `e` otherwise (never wrapped, never a
/// BigNum that fits).
fn check_exact_int(res: &SteelVal, e: i128) {
    match res {
        IntV(v) => {
            vassert!(fits(e), "result does not fit a machine integer but IntV was returned (wrapped)");
            vassert!(*v as i128 == e, "integer result differs from the exact value");
        }
        BigNum(b) => {
            vassert!(!fits(e), "non-canonical: BigNum returned for a value that fits IntV");
            vassert!(b.as_ref().to_i128() == Some(e), "BigNum result differs from the exact value");
        }
        _ => assert!(false, "exact integer operation returned a non-integer"),
    }
}

macro_rules! num_harness {
    ($name:ident, $unwind:expr, $body:block) => {
        #[kani::proof]
        #[kani::unwind($unwind)]
        #[kani::stub(std::rt::thread_cleanup, noop)]
        #[kani::stub(alloc::fmt::format, fmt_stub)]
        #[kani::stub(core::arch::x86_64::_addcarry_u64, addcarry_stub)]
        #[kani::stub(core::arch::x86_64::_subborrow_u64, subborrow_stub)]
        #[kani::stub(<num_bigint::BigInt as core::ops::AddAssign<isize>>::add_assign, bigint_add_assign_isize_stub)]
        #[kani::stub(<num_bigint::BigInt as core::ops::MulAssign<isize>>::mul_assign, bigint_mul_assign_isize_stub)]
        #[kani::stub(<num_bigint::BigInt as core::ops::Shl<u32>>::shl, bigint_shl_u32_stub)]
        #[kani::stub(<num_bigint::BigInt as num_traits::Pow<usize>>::pow, bigint_pow_usize_stub)]
        fn $name() {
            tag_init();
            $body
        }
    };
}

// ------------------------------------------------------------------ + - negate abs
num_harness!(num_add_ii, 4, {
    let x: isize = kani::any();
    let y: isize = kani::any();
    let r = add_two(&IntV(x), &IntV(y));
    kani::cover!(matches!(r, Ok(BigNum(_))), "promoted");
    kani::cover!(matches!(r, Ok(IntV(_))), "stayed small");
    match r {
        Ok(v) => {
            check_exact_int(&v, x as i128 + y as i128);
            core::mem::forget(v);
        }
        Err(e) => {
            core::mem::forget(e);
            vassert!(false, "addition of two integers returned an error");
        }
    }
});

num_harness!(num_add_fallible_ii, 6, {
    let x: isize = kani::any();
    let y: isize = kani::any();
    let r = add_two_fallible(&IntV(x), &IntV(y));
    kani::cover!(matches!(r, Ok(BigNum(_))), "promoted");
    match r {
        Ok(v) => {
            check_exact_int(&v, x as i128 + y as i128);
            core::mem::forget(v);
        }
        Err(e) => {
            core::mem::forget(e);
            vassert!(false, "addition of two integers returned an error");
        }
    }
});

num_harness!(num_neg_i, 6, {
    let x: isize = kani::any();
    let r = negate(&IntV(x));
    kani::cover!(matches!(r, Ok(BigNum(_))), "promoted");
    match r {
        Ok(v) => {
            check_exact_int(&v, -(x as i128));
            core::mem::forget(v);
        }
        Err(e) => {
            core::mem::forget(e);
            vassert!(false, "negation returned an error");
        }
    }
});

num_harness!(num_abs_i, 6, {
    let x: isize = kani::any();
    let a = IntV(x);
    let r = abs(&a);
    kani::cover!(x == isize::MIN, "most negative");
    kani::cover!(x < 0, "negative");
    match r {
        Ok(v) => {
            let e = if x < 0 { -(x as i128) } else { x as i128 };
            check_exact_int(&v, e);
            core::mem::forget(v);
        }
        Err(e) => {
            core::mem::forget(e);
            vassert!(false, "abs of an integer returned an error");
        }
    }
});

num_harness!(num_sub_ii, 6, {
    let x: isize = kani::any();
    let y: isize = kani::any();
    let args = [IntV(x), IntV(y)];
    let r = subtract_primitive(&args);
    kani::cover!(matches!(r, Ok(BigNum(_))), "promoted");
    kani::cover!(y == isize::MIN, "subtrahend most negative");
    match r {
        Ok(v) => {
            check_exact_int(&v, x as i128 - y as i128);
            core::mem::forget(v);
        }
        Err(e) => {
            core::mem::forget(e);
            vassert!(false, "subtraction of two integers returned an error");
        }
    }
});

// ------------------------------------------------------------------ *
// (a) overflow detection at full width: an IntV result is never a wrapped product
num_harness!(num_mul_ii_nowrap, 6, {
    let x: isize = kani::any();
    let y: isize = kani::any();
    let r = multiply_two(&IntV(x), &IntV(y));
    match r {
        Ok(IntV(v)) => {
            // exact product fits <=> checked_mul is Some; stated via division to keep the query linear
            if x != 0 && y != 0 {
                assert!(!(x == -1 && y == isize::MIN) && !(y == -1 && x == isize::MIN));
                vassert!(v / y == x && v % y == 0, "IntV product is not the exact product");
            } else {
                assert!(v == 0);
            }
        }
        Ok(other) => {
            kani::cover!(matches!(other, BigNum(_)), "promoted");
            core::mem::forget(other);
        }
        Err(e) => {
            core::mem::forget(e);
            vassert!(false, "multiplication of two integers returned an error");
        }
    }
});

// (b) value equality with one small operand
num_harness!(num_mul_ii_small, 6, {
    let x: isize = kani::any();
    let y: isize = kani::any();
    kani::assume(y >= -(1 << 15) && y <= (1 << 15));
    let r = multiply_two(&IntV(x), &IntV(y));
    kani::cover!(matches!(r, Ok(BigNum(_))), "promoted");
    match r {
        Ok(v) => {
            check_exact_int(&v, (x as i128) * (y as i128));
            core::mem::forget(v);
        }
        Err(e) => {
            core::mem::forget(e);
            vassert!(false, "multiplication of two integers returned an error");
        }
    }
});

// ------------------------------------------------------------------ division family
fn floor_div(a: i128, b: i128) -> i128 {
    let q = a / b;
    if (a % b != 0) && ((a < 0) != (b < 0)) {
        q - 1
    } else {
        q
    }
}
fn floor_mod(a: i128, b: i128) -> i128 {
    a - floor_div(a, b) * b
}
fn eucl_mod(a: i128, b: i128) -> i128 {
    let r = a % b;
    if r < 0 {
        if b < 0 {
            r - b
        } else {
            r + b
        }
    } else {
        r
    }
}
fn eucl_div(a: i128, b: i128) -> i128 {
    (a - eucl_mod(a, b)) / b
}

// Full-width symbolic division does not finish (two 64/128-bit divider circuits to be proved
// equal: > 2400 s each, measured).  The operand space is therefore cut in two stated pieces:
//   small:  |x| <= 2^12, |y| <= 2^6 (every sign combination, zero divisor included)
//   edge:   x within 3 of isize::MIN / isize::MAX, |y| <= 3 (the overflowing quotient MIN / -1)
// Everything in between is outside the claim.
macro_rules! div_body {
    ($x:ident, $y:ident, $f:ident, $oracle:expr) => {
        let args = [IntV($x), IntV($y)];
        let r = $f(&args);
        match r {
            Ok(v) => {
                vassert!($y != 0, "division by zero must be an error");
                let o: fn(i128, i128) -> i128 = $oracle;
                check_exact_int(&v, o($x as i128, $y as i128));
                core::mem::forget(v);
            }
            Err(e) => {
                core::mem::forget(e);
                vassert!($y == 0, "integer division returned an error for a non-zero divisor");
            }
        }
    };
}
macro_rules! div_harness {
    ($name:ident, $edge:ident, $f:ident, $oracle:expr) => {
        div_harness!($name, $edge, $f, $oracle, false);
    };
    ($name:ident, $edge:ident, $f:ident, $oracle:expr, $skip_overflow:expr) => {
        num_harness!($name, 6, {
            let x: isize = kani::any();
            let y: isize = kani::any();
            kani::assume(x >= -(1 << 12) && x <= (1 << 12) && y >= -(1 << 6) && y <= (1 << 6));
            div_body!(x, y, $f, $oracle);
            kani::cover!(y == 0, "division by zero");
            kani::cover!(x < 0 && y > 0, "mixed signs");
            kani::cover!(x > 0 && y < 0, "mixed signs, negative divisor");
        });
        num_harness!($edge, 12, {
            let dx: isize = kani::any();
            let top: bool = kani::any();
            let y: isize = kani::any();
            kani::assume(dx >= 0 && dx <= 3 && y >= -3 && y <= 3);
            let x = if top { isize::MAX - dx } else { isize::MIN + dx };
            // euclidean-remainder of (isize::MIN, -1) continues in num-bigint's division, whose
            // inner loop is inline assembly (not modelled by Kani): outside the claim
            kani::assume(!($skip_overflow && x == isize::MIN && y == -1));
            div_body!(x, y, $f, $oracle);
            kani::cover!($skip_overflow || (y == -1 && x == isize::MIN), "overflowing quotient");
            kani::cover!(y == -1 && x == isize::MIN + 1, "next to the overflowing quotient");
            kani::cover!(y == 0, "division by zero");
        });
    };
}
div_harness!(num_truncate_quotient_ii, num_truncate_quotient_edge, truncate_quotient, |a, b| a / b);
div_harness!(num_truncate_remainder_ii, num_truncate_remainder_edge, truncate_remainder, |a, b| a % b);
div_harness!(num_floor_quotient_ii, num_floor_quotient_edge, floor_quotient, floor_div);
div_harness!(num_floor_remainder_ii, num_floor_remainder_edge, floor_remainder, floor_mod);
div_harness!(num_euclidean_quotient_ii, num_euclidean_quotient_edge, euclidean_quotient, eucl_div);
div_harness!(num_euclidean_remainder_ii, num_euclidean_remainder_edge, euclidean_remainder, eucl_mod, true);

// ------------------------------------------------------------------ parity, shift
num_harness!(num_even_odd_i, 4, {
    let x: isize = kani::any();
    let e = even(&IntV(x));
    let o = odd(&IntV(x));
    let exp_even = (x as i128) % 2 == 0;
    assert!(matches!(e, Ok(BoolV(b)) if b == exp_even));
    assert!(matches!(o, Ok(BoolV(b)) if b == !exp_even));
    kani::cover!(x < 0 && !exp_even, "negative odd");
    core::mem::forget(e);
    core::mem::forget(o);
});

// num-bigint's `BigInt << u32` is not executed: the stub records its operands and returns a
// marker that cannot fit a machine word (trusted: num-bigint shifts exactly).
static mut SHL_SEEN: Option<(i128, u32)> = None;
fn bigint_shl_u32_stub(this: BigInt, s: u32) -> BigInt {
    unsafe { SHL_SEEN = Some((this.to_i128().unwrap_or(0), s)) };
    core::mem::forget(this);
    BigInt::from(i128::MAX)
}

// C07 + C10: for EVERY pair of machine integers arithmetic-shift neither panics nor drops bits:
// the result is n * 2^m exactly (floor for negative m), as an IntV when it fits and through the
// big-integer shift when it does not.
num_harness!(num_arithmetic_shift_exact, 4, {
    let n: isize = kani::any();
    let m: isize = kani::any();
    let args = [IntV(n), IntV(m)];
    let r = arithmetic_shift(&args);
    kani::cover!(m >= 64, "shift amount beyond the word");
    kani::cover!(m == isize::MIN, "most negative shift amount");
    kani::cover!(m > 0 && m < 64 && matches!(r, Ok(BigNum(_))), "in-word amount, bits would be lost: promoted");
    kani::cover!(m == 63 && matches!(r, Ok(IntV(_))), "largest in-range left shift that fits");
    let seen = unsafe { SHL_SEEN };
    match &r {
        Ok(IntV(v)) => {
            vassert!(seen.is_none(), "arithmetic-shift took the big-integer path but returned a machine integer");
            if m >= 0 {
                let exact_fits = n == 0 || (m < 64 && fits((n as i128) << m));
                vassert!(exact_fits, "arithmetic-shift returned a machine integer although bits were shifted out");
                vassert!(n == 0 && *v == 0 || (*v as i128) == (n as i128) << m, "left shift differs from n * 2^m");
            } else {
                let k = if m <= -127 { 127 } else { -m };
                vassert!((*v as i128) == (n as i128) >> k, "right shift differs from floor(n / 2^-m)");
            }
        }
        Ok(BigNum(_)) => {
            vassert!(m >= 0 && n != 0, "big-integer result for a right shift or for zero");
            vassert!(m >= 64 || !fits((n as i128) << m), "non-canonical: big-integer result for a value that fits");
            vassert!(seen == Some((n as i128, m as u32)) && m <= u32::MAX as isize, "big-integer shift called with other operands than (n, m)");
        }
        Ok(_) => assert!(false, "arithmetic-shift returned a non-integer"),
        Err(_) => {
            vassert!(m > u32::MAX as isize && n != 0, "arithmetic-shift refused a shift it can represent");
        }
    }
    core::mem::forget(r);
});

// ------------------------------------------------------------------ exact-integer-sqrt
num_harness!(num_exact_integer_sqrt_small, 40, {
    let x: isize = kani::any();
    kani::assume(x >= 0 && x < (1 << 12));
    let r = exact_integer_sqrt(&IntV(x));
    match r {
        Ok(v) => {
            // (values s r): s*s + r == x, 0 <= r <= 2s
            if let ListV(l) = &v {
                let s = l.get(0);
                let rr = l.get(1);
                match (s, rr) {
                    (Some(IntV(s)), Some(IntV(rem))) => {
                        vassert!(*s >= 0 && s * s + rem == x && *rem >= 0 && *rem <= 2 * s, "exact-integer-sqrt wrong");
                    }
                    _ => assert!(false, "exact-integer-sqrt shape"),
                }
            }
            kani::cover!(true, "computed");
            core::mem::forget(v);
        }
        Err(e) => {
            core::mem::forget(e);
            vassert!(false, "exact-integer-sqrt of a non-negative integer returned an error");
        }
    }
});

// ------------------------------------------------------------------ big-integer operands
fn big(a: i128) -> SteelVal {
    BigNum(Gc::new(BigInt::from(a)))
}

// BigNum + IntV: the sum may fall back into the machine range and must then be an IntV again
num_harness!(num_add_big_i, 6, {
    let a: i128 = kani::any();
    kani::assume((a >= (1i128 << 63) && a < (1i128 << 63) + (1i128 << 20)) || (a < -(1i128 << 63) && a >= -(1i128 << 63) - (1i128 << 20)));
    let y: isize = kani::any();
    let x = big(a);
    let yv = IntV(y);
    let swap: bool = kani::any();
    let r = if swap { add_two(&yv, &x) } else { add_two(&x, &yv) };
    kani::cover!(matches!(r, Ok(IntV(_))), "fell back into the machine range");
    kani::cover!(matches!(r, Ok(BigNum(_))), "stayed big");
    match r {
        Ok(v) => {
            check_exact_int(&v, a + y as i128);
            core::mem::forget(v);
        }
        Err(e) => {
            core::mem::forget(e);
            vassert!(false, "big + small integer returned an error");
        }
    }
    core::mem::forget(x);
});

// (- big small) goes through negate + add_two
num_harness!(num_sub_big_i, 6, {
    let a: i128 = kani::any();
    kani::assume(a >= (1i128 << 63) && a < (1i128 << 63) + (1i128 << 20));
    let y: isize = kani::any();
    let args = [big(a), IntV(y)];
    let r = subtract_primitive(&args);
    kani::cover!(matches!(r, Ok(IntV(_))), "fell back into the machine range");
    match r {
        Ok(v) => {
            check_exact_int(&v, a - y as i128);
            core::mem::forget(v);
        }
        Err(e) => {
            core::mem::forget(e);
            vassert!(false, "big - small integer returned an error");
        }
    }
    core::mem::forget(args);
});

// floor-remainder / modulo with a small dividend and a two-limb divisor of either sign
num_harness!(num_floor_remainder_i_big, 8, {
    let l: isize = kani::any();
    let neg: bool = kani::any();
    let m: i128 = if neg { -(1i128 << 64) } else { 1i128 << 64 };
    let args = [IntV(l), big(m)];
    let r = floor_remainder(&args);
    kani::cover!(l < 0 && !neg, "negative dividend, positive divisor");
    kani::cover!(l > 0 && neg, "positive dividend, negative divisor");
    match r {
        Ok(v) => {
            check_exact_int(&v, floor_mod(l as i128, m));
            core::mem::forget(v);
        }
        Err(e) => {
            core::mem::forget(e);
            vassert!(false, "floor-remainder by a big integer returned an error");
        }
    }
    core::mem::forget(args);
});

// ------------------------------------------------------------------ machine integer by big integer
// The six quotient / remainder primitives with a machine-integer dividend and a big-integer
// divisor just beyond +-2^63.  num-bigint's long division (Knuth D, inline `div` assembly) is not
// executed: its four entry points are replaced by an exact model that is valid when the dividend's
// magnitude is below twice the divisor's (quotient digit 0 or 1), which is the operand region of
// these harnesses.  (Measured: for a machine-integer dividend num-bigint special-cases the operation -- a
// scalar divided by a multi-digit magnitude is 0 -- so truncate-quotient / -remainder never reach the model;
// it is kept for the arms that do.)  What is decided: which num-bigint operation steel applies to which
// operands, the sign / floor / euclidean adjustments, and the canonical form of the result.
static mut DIV_MODEL_USED: bool = false;
fn div_model(a: u128, b: u128) -> (u128, u128) {
    if b == 0 {
        panic!("attempt to divide by zero");
    }
    kani::assume(b < (1u128 << 100) && a < 2 * b);
    unsafe { DIV_MODEL_USED = true };
    if a >= b {
        (1, a - b)
    } else {
        (0, a)
    }
}
fn biguint_div_rem_stub(u: num_bigint::BigUint, d: num_bigint::BigUint) -> (num_bigint::BigUint, num_bigint::BigUint) {
    let (a, b) = (u.to_u128(), d.to_u128());
    kani::assume(a.is_some() && b.is_some());
    let (q, r) = div_model(a.unwrap(), b.unwrap());
    (num_bigint::BigUint::from(q), num_bigint::BigUint::from(r))
}
fn biguint_div_rem_ref_stub(u: &num_bigint::BigUint, d: &num_bigint::BigUint) -> (num_bigint::BigUint, num_bigint::BigUint) {
    let (a, b) = (u.to_u128(), d.to_u128());
    kani::assume(a.is_some() && b.is_some());
    let (q, r) = div_model(a.unwrap(), b.unwrap());
    (num_bigint::BigUint::from(q), num_bigint::BigUint::from(r))
}
fn biguint_div_rem_digit_stub(u: num_bigint::BigUint, d: u64) -> (num_bigint::BigUint, u64) {
    let a = u.to_u128();
    kani::assume(a.is_some());
    let (q, r) = div_model(a.unwrap(), d as u128);
    (num_bigint::BigUint::from(q), r as u64)
}
fn biguint_rem_digit_stub(u: &num_bigint::BigUint, d: u64) -> u64 {
    let a = u.to_u128();
    kani::assume(a.is_some());
    let (_q, r) = div_model(a.unwrap(), d as u128);
    r as u64
}

/// which = 0..5: truncate-quotient, truncate-remainder, floor-quotient, floor-remainder,
/// euclidean-quotient, euclidean-remainder of x by d, with |x| <= 2^63 <= |d| (closed forms, no division)
fn small_by_big_expected(which: u8, x: i128, d: i128) -> i128 {
    let exact = x == -(1i128 << 63) && d == (1i128 << 63); // the only pair with |x| == |d|
    let opposite = x != 0 && ((x < 0) != (d < 0));
    let absd = if d < 0 { -d } else { d };
    match which {
        0 => if exact { -1 } else { 0 },
        1 => if exact { 0 } else { x },
        2 => if opposite { -1 } else { 0 },
        3 => if opposite { x + d } else { x },
        4 => if x >= 0 { 0 } else if d < 0 { 1 } else { -1 },
        _ => if x >= 0 { x } else { x + absd },
    }
}

macro_rules! small_by_big {
    ($name:ident, $f:ident, $which:expr) => {
        #[kani::proof]
        #[kani::unwind(8)]
        #[kani::stub(std::rt::thread_cleanup, noop)]
        #[kani::stub(alloc::fmt::format, fmt_stub)]
        #[kani::stub(core::arch::x86_64::_addcarry_u64, addcarry_stub)]
        #[kani::stub(core::arch::x86_64::_subborrow_u64, subborrow_stub)]
        #[kani::stub(num_bigint::biguint::division::div_rem, biguint_div_rem_stub)]
        #[kani::stub(num_bigint::biguint::division::div_rem_ref, biguint_div_rem_ref_stub)]
        #[kani::stub(num_bigint::biguint::division::div_rem_digit, biguint_div_rem_digit_stub)]
        #[kani::stub(num_bigint::biguint::division::rem_digit, biguint_rem_digit_stub)]
        fn $name() {
            tag_init();
            let x: isize = kani::any();
            let off: u16 = kani::any();
            let neg: bool = kani::any();
            // divisor: 2^63 + off, or -(2^63 + 1 + off) (the smallest magnitudes that are big integers)
            let d: i128 = if neg { -((1i128 << 63) + 1 + off as i128) } else { (1i128 << 63) + off as i128 };
            let args = [IntV(x), big(d)];
            let r = $f(&args);
            kani::cover!(x == isize::MIN && d == (1i128 << 63), "dividend and divisor of equal magnitude");
            kani::cover!(x < 0 && !neg, "negative dividend, positive divisor");
            kani::cover!(x > 0 && neg, "positive dividend, negative divisor");
            match &r {
                Ok(v) => {
                    check_exact_int(v, small_by_big_expected($which, x as i128, d));
                }
                Err(_) => {
                    vassert!(false, "integer division by a non-zero big integer returned an error");
                }
            }
            core::mem::forget(r);
            core::mem::forget(args);
        }
    };
}
small_by_big!(num_truncate_quotient_i_big, truncate_quotient, 0);
small_by_big!(num_truncate_remainder_i_big, truncate_remainder, 1);
small_by_big!(num_floor_quotient_i_big, floor_quotient, 2);
small_by_big!(num_floor_remainder_i_big2, floor_remainder, 3);
small_by_big!(num_euclidean_quotient_i_big, euclidean_quotient, 4);
small_by_big!(num_euclidean_remainder_i_big, euclidean_remainder, 5);

// (magnitude x) on a machine integer: |x| exactly, promoted when it does not fit
num_harness!(num_magnitude_i, 6, {
    let x: isize = kani::any();
    let a = IntV(x);
    let r = magnitude(&a);
    kani::cover!(x == isize::MIN, "most negative");
    kani::cover!(x < 0, "negative");
    match &r {
        Ok(v) => {
            let e = if x < 0 { -(x as i128) } else { x as i128 };
            check_exact_int(v, e);
        }
        Err(_) => {
            vassert!(false, "magnitude of an integer returned an error");
        }
    }
    core::mem::forget(r);
});

// ------------------------------------------------------------------ rationals
// negate of a reduced rational n/3 for every i32 numerator not divisible by 3
#[kani::proof]
#[kani::unwind(8)]
#[kani::stub(std::rt::thread_cleanup, noop)]
#[kani::stub(alloc::fmt::format, fmt_stub)]
#[kani::stub(core::arch::x86_64::_addcarry_u64, addcarry_stub)]
#[kani::stub(core::arch::x86_64::_subborrow_u64, subborrow_stub)]
#[kani::stub(num_rational::Ratio::new, ratio_new_reduced_stub)]
fn num_neg_rational() {
    tag_init();
    num_neg_rational_body();
}
fn num_neg_rational_body() {
    let n: i32 = kani::any();
    kani::assume(n % 3 != 0);
    let q = Rational(Rational32::new_raw(n, 3));
    let r = negate(&q);
    kani::cover!(n == i32::MIN, "most negative numerator");
    kani::cover!(n > 0, "positive");
    match &r {
        Ok(Rational(x)) => {
            vassert!(*x.numer() as i64 == -(n as i64) && *x.denom() == 3, "negated rational has the wrong value");
        }
        Ok(BigRational(b)) => {
            vassert!(n == i32::MIN, "small rational promoted without need");
            vassert!(b.numer().to_i64() == Some(-(n as i64)) && b.denom().to_i64() == Some(3), "negated rational (promoted) has the wrong value");
        }
        Ok(_) => {
            vassert!(false, "negating a non-integral rational gave a non-rational");
        }
        Err(_) => {
            vassert!(false, "negating a rational returned an error");
        }
    }
    core::mem::forget(r);
}

// = between an exact integer and a double: true exactly when the double is that integer
num_harness!(num_int_float_equality, 4, {
    let i: isize = kani::any();
    let f: f64 = kani::any();
    kani::assume(f.is_finite());
    let r = crate::rvals::number_equality(&IntV(i), &NumV(f));
    // exact comparison: f is integral, within the 64-bit range, and equal as integers
    let exact = f == f.trunc() && f >= -9223372036854775808.0 && f < 9223372036854775808.0 && (f as i128) == (i as i128);
    kani::cover!(exact, "equal");
    kani::cover!(!exact && (i as f64) == f, "rounds to the same double but differs");
    match &r {
        Ok(BoolV(b)) => {
            vassert!(*b == exact, "= on an exact integer and a double disagrees with their exact values");
        }
        _ => {
            vassert!(false, "= on numbers did not return a boolean");
        }
    }
    core::mem::forget(r);
});

// (exact x) for an integral double: the integer with exactly that value -- a machine integer when it
// fits, a big integer beyond (never a saturated or wrapped machine integer).  The double is built from
// its bits: every double with a biased exponent of at least 1075 is an integer (magnitude >= 2^52), and
// the exponents 1075..1095 cover 2^52 <= |x| < 2^73, i.e. both sides of the machine-word boundary 2^63;
// below 2^52 the integral doubles are the (small) integers themselves, taken from an i32.
// `BigRational::from_float` (the branch for non-integral doubles) and `BigInt::from_f64` (how a repaired
// `exact` builds the big integer) decode the double and shift big integers by a symbolic exponent; neither is
// executed: the first must not be reached for an integral double, the second records its argument.
static mut RATIO_FROM_FLOAT_CALLED: bool = false;
static mut BIGINT_FROM_F64_ARG: Option<f64> = None;
struct ExactStubs;
impl ExactStubs {
    fn ratio_from_float<T: num_traits::float::FloatCore>(_f: T) -> Option<num_rational::BigRational> {
        unsafe { RATIO_FROM_FLOAT_CALLED = true };
        None
    }
}
fn bigint_from_f64_stub(f: f64) -> Option<BigInt> {
    unsafe { BIGINT_FROM_F64_ARG = Some(f) };
    Some(BigInt::from(i128::MAX))
}

#[kani::proof]
#[kani::unwind(6)]
#[kani::stub(std::rt::thread_cleanup, noop)]
#[kani::stub(alloc::fmt::format, fmt_stub)]
#[kani::stub(core::arch::x86_64::_addcarry_u64, addcarry_stub)]
#[kani::stub(core::arch::x86_64::_subborrow_u64, subborrow_stub)]
#[kani::stub(num_rational::Ratio::<num_bigint::BigInt>::from_float, ExactStubs::ratio_from_float)]
#[kani::stub(<num_bigint::BigInt as num_traits::FromPrimitive>::from_f64, bigint_from_f64_stub)]
fn num_exact_of_integral_double() {
    tag_init();
    let big_region: bool = kani::any();
    let f: f64 = if big_region {
        let mant: u64 = kani::any();
        let e: u64 = kani::any();
        let neg: bool = kani::any();
        kani::assume(mant < (1u64 << 52) && e >= 1075 && e <= 1095);
        f64::from_bits(((neg as u64) << 63) | (e << 52) | mant)
    } else {
        let n: i32 = kani::any();
        n as f64
    };
    let fits_word = f >= -9223372036854775808.0 && f < 9223372036854775808.0;
    let r = exact(&NumV(f));
    kani::cover!(fits_word && big_region, "between 2^52 and 2^63: fits a machine integer");
    kani::cover!(!fits_word && f > 0.0, "beyond +2^63");
    kani::cover!(!fits_word && f < 0.0, "beyond -2^63");
    kani::cover!(!big_region, "small integer");
    match &r {
        Ok(IntV(v)) => {
            vassert!(fits_word, "exact of a double beyond the machine-integer range returned a (saturated) machine integer");
            vassert!((*v as f64) == f, "exact of an integral double has another value");
        }
        Ok(BigNum(_)) => {
            vassert!(!fits_word, "non-canonical: exact returned a big integer for a value that fits");
            vassert!(unsafe { BIGINT_FROM_F64_ARG } == Some(f), "the big integer was not built from the double itself");
        }
        Ok(_) => {
            vassert!(false, "exact of an integral double is not an integer");
        }
        Err(_) => {
            vassert!(false, "exact of a finite integral double is an error");
        }
    }
    vassert!(!unsafe { RATIO_FROM_FLOAT_CALLED }, "an integral double was treated as a fraction");
    core::mem::forget(r);
}

// expt with a negative exact exponent: 1/(l^|r|) as a canonical rational (positive denominator).
// The exponent is concrete per harness (the power loop then has a concrete trip count), the base
// is symbolic.
fn expt_negative_body(r: isize) {
    let l: isize = kani::any();
    kani::assume(l >= -12 && l <= 12 && l != 0);
    let mut p: i128 = 1;
    let mut i = 0;
    while i < -r {
        p *= l as i128;
        i += 1;
    }
    let res = expt(&IntV(l), &IntV(r));
    kani::cover!(p < 0, "negative power of a negative base");
    kani::cover!(p == 1 || p == -1, "unit");
    match &res {
        Ok(IntV(v)) => {
            vassert!((p == 1 && *v == 1) || (p == -1 && *v == -1), "integral result of a negative power is wrong");
        }
        Ok(Rational(q)) => {
            vassert!(*q.denom() > 0, "rational result is not canonical: non-positive denominator");
            vassert!((*q.numer() as i128) * p == (*q.denom() as i128), "negative power has the wrong value");
        }
        Ok(_) => {
            vassert!(false, "negative power of a small integer is neither an integer nor a small rational");
        }
        Err(_) => {
            vassert!(false, "negative power of a non-zero integer returned an error");
        }
    }
    core::mem::forget(res);
}
num_harness!(num_expt_minus_3, 8, { expt_negative_body(-3) });
num_harness!(num_expt_minus_2, 8, { expt_negative_body(-2) });

// num-bigint's `BigInt::pow(usize)` is not executed: the stub records that the big-integer path
// was taken and returns a marker that cannot fit a machine word.
static mut POW_SEEN: Option<(i128, usize)> = None;
fn bigint_pow_usize_stub(this: BigInt, e: usize) -> BigInt {
    unsafe { POW_SEEN = Some((this.to_i128().unwrap_or(0), e)) };
    core::mem::forget(this);
    BigInt::from(i128::MAX)
}

// C07: a negative power whose magnitude overflows the machine word must not panic; it has to
// continue with big integers
num_harness!(num_expt_minus_30_total, 8, {
    let l: isize = kani::any();
    kani::assume(l >= -12 && l <= 12 && l != 0);
    let res = expt(&IntV(l), &IntV(-30));
    kani::cover!(l == 10, "ten to the minus thirty");
    kani::cover!(l == -2, "fits a machine word but not 32 bits");
    let seen = unsafe { POW_SEEN };
    // |l|^30 fits the machine word only for |l| <= 4; only |l| = 1, 2 (2^30) fit 32 bits
    let small = l >= -2 && l <= 2;
    match &res {
        Ok(_) => {
            vassert!(small || seen == Some((l as i128, 30)), "(expt l -30) left the machine range without continuing with big integers");
        }
        Err(_) => {
            vassert!(false, "(expt l -30) of a non-zero integer returned an error");
        }
    }
    core::mem::forget(res);
});

// ------------------------------------------------------------------ expt: reciprocal of an exact integer
// (expt l -1) for every non-zero l in the 32-bit range: the result is exactly 1/l in canonical
// form (an integer for l = 1, -1; otherwise a fraction in lowest terms with a positive denominator).
num_harness!(num_expt_reciprocal, 6, {
    let l: isize = kani::any();
    kani::assume(l != 0 && l >= i32::MIN as isize + 1 && l <= i32::MAX as isize);
    let res = expt(&IntV(l), &IntV(-1));
    kani::cover!(l < -1, "negative base");
    kani::cover!(l == -1, "minus one");
    kani::cover!(l > 1, "positive base");
    match &res {
        Ok(IntV(v)) => {
            vassert!((l == 1 || l == -1) && *v == l, "1/l came back as an integer although it is not one");
        }
        Ok(Rational(r)) => {
            vassert!(*r.denom() > 0, "non-canonical exact rational: the denominator is not positive");
            vassert!(*r.denom() != 1, "non-canonical exact rational: an integer stored as a fraction");
            vassert!((*r.numer() as i128) * (l as i128) == *r.denom() as i128, "(expt l -1) is not 1/l");
        }
        Ok(_) => assert!(false, "(expt l -1) of a small integer is neither an integer nor a small rational"),
        Err(_) => {
            vassert!(false, "(expt l -1) of a non-zero integer returned an error");
        }
    }
    core::mem::forget(res);
});

// ------------------------------------------------------------------ ordering (<, <=, >, >= and the LTE* opcodes all go through partial_cmp)
use core::cmp::Ordering as Ord3;

/// exact comparison of a machine integer with a finite double
fn exact_cmp_int_float(i: isize, f: f64) -> Ord3 {
    if f >= 9223372036854775808.0 {
        Ord3::Less
    } else if f < -9223372036854775808.0 {
        Ord3::Greater
    } else {
        let t = f.trunc(); // integral and inside [-2^63, 2^63): the cast below is exact
        let ti = t as i128;
        let ii = i as i128;
        if ii < ti {
            Ord3::Less
        } else if ii > ti {
            Ord3::Greater
        } else if f > t {
            Ord3::Less
        } else if f < t {
            Ord3::Greater
        } else {
            Ord3::Equal
        }
    }
}

// (< i f), (< f i) ...: an exact integer against a double, every integer and every finite double
num_harness!(num_cmp_int_float, 4, {
    let i: isize = kani::any();
    let f: f64 = kani::any();
    kani::assume(f.is_finite());
    let a = IntV(i);
    let b = NumV(f);
    let e = exact_cmp_int_float(i, f);
    let r1 = a.partial_cmp(&b);
    let r2 = b.partial_cmp(&a);
    kani::cover!(e == Ord3::Equal, "equal");
    kani::cover!(e != Ord3::Equal && (i as f64) == f, "the integer rounds to the double but differs from it");
    kani::cover!(e == Ord3::Less && i > 0, "less");
    vassert!(r1 == Some(e), "ordering of an exact integer and a double disagrees with their exact values");
    vassert!(r2 == Some(e.reverse()), "ordering of a double and an exact integer disagrees with their exact values");
    core::mem::forget(a);
    core::mem::forget(b);
});

num_harness!(num_cmp_ii, 4, {
    let x: isize = kani::any();
    let y: isize = kani::any();
    let a = IntV(x);
    let b = IntV(y);
    let r = a.partial_cmp(&b);
    kani::cover!(x < y, "less");
    kani::cover!(x == y, "equal");
    vassert!(r == Some((x as i128).cmp(&(y as i128))), "ordering of two machine integers is wrong");
    core::mem::forget(a);
    core::mem::forget(b);
});

// a machine integer against a big integer just beyond +-2^63, both argument orders
num_harness!(num_cmp_int_big, 8, {
    let x: isize = kani::any();
    let off: u16 = kani::any();
    let neg: bool = kani::any();
    let d: i128 = if neg { -((1i128 << 63) + 1 + off as i128) } else { (1i128 << 63) + off as i128 };
    let a = IntV(x);
    let b = big(d);
    let e = (x as i128).cmp(&d);
    let r1 = a.partial_cmp(&b);
    let r2 = b.partial_cmp(&a);
    kani::cover!(neg && x < 0, "negative big integer against a negative machine integer");
    kani::cover!(!neg && x > 0, "positive big integer against a positive machine integer");
    vassert!(r1 == Some(e), "ordering of a machine integer and a big integer is wrong");
    vassert!(r2 == Some(e.reverse()), "ordering of a big integer and a machine integer is wrong");
    core::mem::forget(a);
    core::mem::forget(b);
});

// a reduced rational n/d (d in 2..=7, every i32 numerator coprime to it) against every machine integer
num_harness!(num_cmp_rational_int, 4, {
    let n: i32 = kani::any();
    let d: i32 = kani::any();
    kani::assume(d == 2 || d == 3 || d == 5 || d == 7);
    kani::assume(n % d != 0);
    let y: isize = kani::any();
    let a = Rational(Rational32::new_raw(n, d));
    let b = IntV(y);
    // n/d <=> y  iff  n <=> y*d  (d > 0); exact in i128
    let e = (n as i128).cmp(&((y as i128) * (d as i128)));
    let r1 = a.partial_cmp(&b);
    let r2 = b.partial_cmp(&a);
    kani::cover!(n == i32::MIN, "most negative numerator");
    kani::cover!(y > i32::MAX as isize, "integer beyond 32 bits");
    kani::cover!(e == Ord3::Less && y < 0, "less, negative");
    vassert!(e != Ord3::Equal, "harness: a non-integral rational cannot equal an integer");
    vassert!(r1 == Some(e), "ordering of a rational and an integer is wrong");
    vassert!(r2 == Some(e.reverse()), "ordering of an integer and a rational is wrong");
    core::mem::forget(a);
    core::mem::forget(b);
});

// ------------------------------------------------------------------ floor / ceiling / truncate / round of a rational
// n/d for every i32 numerator and d in {2,3,5,7} coprime to it: the result is the exact integer.
macro_rules! rational_rounding {
    ($name:ident, $f:ident, $which:expr) => {
        num_harness!($name, 6, {
            let n: i32 = kani::any();
            let d: i32 = kani::any();
            kani::assume(d == 2 || d == 3 || d == 5 || d == 7);
            kani::assume(n % d != 0);
            let q = Rational(Rational32::new_raw(n, d));
            let r = $f(&q);
            let (n6, d6) = (n as i64, d as i64);
            let fl = n6.div_euclid(d6); // d > 0: floor
            let e: i64 = match $which {
                0 => fl,
                1 => fl + 1, // not integral: ceiling = floor + 1
                2 => if n6 < 0 { fl + 1 } else { fl },
                _ => {
                    // round half to even: compare twice the remainder with d
                    let rem = n6.rem_euclid(d6);
                    if 2 * rem < d6 { fl } else if 2 * rem > d6 { fl + 1 } else if fl % 2 == 0 { fl } else { fl + 1 }
                }
            };
            kani::cover!(n < -2147483600, "numerator near i32::MIN");
            kani::cover!(n > 2147483600, "numerator near i32::MAX");
            kani::cover!(d == 2 && (n6.div_euclid(2)) % 2 != 0, "tie, odd floor");
            match &r {
                Ok(v) => {
                    check_exact_int(v, e as i128);
                }
                Err(_) => {
                    vassert!(false, "rounding a rational returned an error");
                }
            }
            core::mem::forget(r);
            core::mem::forget(q);
        });
    };
}
rational_rounding!(num_floor_rational, floor, 0);
rational_rounding!(num_ceiling_rational, ceiling, 1);
rational_rounding!(num_truncate_rational, truncate, 2);
rational_rounding!(num_round_rational, round, 3);

// n/3 + y and y + n/3 for every i32 numerator not divisible by 3 and every machine integer y
#[kani::proof]
#[kani::unwind(8)]
#[kani::stub(std::rt::thread_cleanup, noop)]
#[kani::stub(alloc::fmt::format, fmt_stub)]
#[kani::stub(core::arch::x86_64::_addcarry_u64, addcarry_stub)]
#[kani::stub(core::arch::x86_64::_subborrow_u64, subborrow_stub)]
#[kani::stub(num_rational::Ratio::new, ratio_new_reduced_stub)]
fn num_add_rational_i() {
    tag_init();
    num_add_rational_i_body();
}
fn num_add_rational_i_body() {
    let n: i32 = kani::any();
    kani::assume(n % 3 != 0);
    let y: i32 = kani::any();
    let swap: bool = kani::any();
    let q = Rational(Rational32::new_raw(n, 3));
    let b = IntV(y as isize);
    let r = if swap { add_two(&b, &q) } else { add_two(&q, &b) };
    let e: i64 = n as i64 + 3 * (y as i64);
    kani::cover!(e > i32::MAX as i64, "sum's numerator beyond 32 bits");
    kani::cover!(e >= i32::MIN as i64 && e <= i32::MAX as i64, "stays small");
    match &r {
        Ok(Rational(x)) => {
            vassert!(*x.numer() as i64 == e && *x.denom() == 3, "rational + integer has the wrong value");
        }
        Ok(BigRational(x)) => {
            vassert!(e < i32::MIN as i64 || e > i32::MAX as i64, "small rational promoted without need");
            vassert!(x.numer().to_i64() == Some(e) && x.denom().to_i64() == Some(3), "rational + integer (promoted) has the wrong value");
        }
        Ok(_) => {
            vassert!(false, "a non-integral rational plus an integer gave a non-rational");
        }
        Err(_) => {
            vassert!(false, "rational + integer returned an error");
        }
    }
    core::mem::forget(r);
    core::mem::forget(q);
}

// ------------------------------------------------------------------ (/ x) and (expt q e)
// `Ratio::new` = reduction (gcd loops) + sign normalisation.  In the two harnesses below the operands are coprime,
// so the reduction is the identity; the sign normalisation is kept exactly as num-rational does it
// (`0 - numer`, `0 - denom`: this is where the most negative denominator overflows).
fn ratio_new_sign_only_stub<T: Clone + num_integer::Integer>(numer: T, denom: T) -> Ratio<T> {
    if denom < T::zero() {
        Ratio::new_raw(T::zero() - numer, T::zero() - denom)
    } else {
        Ratio::new_raw(numer, denom)
    }
}

// (/ x) for EVERY machine integer: an error for 0, the integer for +-1, otherwise the rational sign(x)/|x| in
// canonical form -- as a small rational when |x| fits 31 bits, as a big rational beyond
#[kani::proof]
#[kani::unwind(8)]
#[kani::stub(std::rt::thread_cleanup, noop)]
#[kani::stub(alloc::fmt::format, fmt_stub)]
#[kani::stub(core::arch::x86_64::_addcarry_u64, addcarry_stub)]
#[kani::stub(core::arch::x86_64::_subborrow_u64, subborrow_stub)]
#[kani::stub(num_rational::Ratio::new, ratio_new_sign_only_stub)]
fn num_recip_i() {
    tag_init();
    num_recip_i_body();
}
fn num_recip_i_body() {
    let x: isize = kani::any();
    let args = [IntV(x)];
    let r = divide_primitive(&args);
    kani::cover!(x == i32::MIN as isize, "the most negative 32-bit integer");
    kani::cover!(x > i32::MAX as isize, "beyond 32 bits");
    kani::cover!(x == -1, "minus one");
    let ax: i128 = if x < 0 { -(x as i128) } else { x as i128 };
    let sg: i64 = if x < 0 { -1 } else { 1 };
    match &r {
        Err(_) => {
            vassert!(x == 0, "the reciprocal of a non-zero integer is an error");
        }
        Ok(IntV(v)) => {
            vassert!(ax == 1 && *v as i128 == x as i128, "the reciprocal of an integer other than +-1 came back as an integer");
        }
        Ok(Rational(q)) => {
            vassert!(ax > 1 && ax <= i32::MAX as i128, "small rational for a denominator that does not fit 31 bits");
            vassert!(*q.numer() as i64 == sg && *q.denom() as i128 == ax, "the reciprocal has the wrong value or a negative denominator");
        }
        Ok(BigRational(q)) => {
            vassert!(ax > i32::MAX as i128, "big rational for a reciprocal that fits the small form");
            vassert!(q.numer().to_i64() == Some(sg) && q.denom().to_i128() == Some(ax), "the (big) reciprocal has the wrong value or a negative denominator");
        }
        Ok(_) => {
            vassert!(false, "the reciprocal of an integer is not an exact number");
        }
    }
    core::mem::forget(r);
    core::mem::forget(args);
}

// (expt n/d e): n in -3..3 (not 0), d in {2,3,5} coprime to n, e in -40..40.  Exact while both components of the
// result fit 32 bits; beyond that the result has to leave the small form (its value there is num-bigint's, not checked).
const fn pow_table(b: i128) -> [i128; 41] {
    let mut t = [1i128; 41];
    let mut i = 1;
    while i < 41 {
        t[i] = t[i - 1] * b;
        i += 1;
    }
    t
}
const POW2: [i128; 41] = pow_table(2);
const POW3: [i128; 41] = pow_table(3);
const POW5: [i128; 41] = pow_table(5);
static mut RPOW_BIG: bool = false;
// num-bigint's big-integer power is not executed: the stub records that the big path was taken and returns a
// marker that cannot fit 32 bits (trusted: num-bigint / num-rational compute powers exactly)
fn bigint_pow_biguint_ref_stub<'b>(this: BigInt, _e: &'b num_bigint::BigUint) -> BigInt
where
    'b: 'b,
{
    unsafe { RPOW_BIG = true };
    core::mem::forget(this);
    BigInt::from(i128::MAX)
}
#[kani::proof]
#[kani::unwind(8)]
#[kani::stub(std::rt::thread_cleanup, noop)]
#[kani::stub(alloc::fmt::format, fmt_stub)]
#[kani::stub(core::arch::x86_64::_addcarry_u64, addcarry_stub)]
#[kani::stub(core::arch::x86_64::_subborrow_u64, subborrow_stub)]
#[kani::stub(num_rational::Ratio::new, ratio_new_sign_only_stub)]
#[kani::stub(<num_bigint::BigInt as num_traits::Pow<&num_bigint::BigUint>>::pow, bigint_pow_biguint_ref_stub)]
fn num_expt_rational_i() {
    tag_init();
    num_expt_rational_i_body();
}
fn num_expt_rational_i_body() {
    let n: i32 = kani::any();
    let d: i32 = kani::any();
    let e: isize = kani::any();
    kani::assume(n >= -3 && n <= 3 && n != 0);
    kani::assume(d == 2 || d == 3 || d == 5);
    kani::assume(n % d != 0);
    kani::assume(e >= -40 && e <= 40);
    let base = Rational(Rational32::new_raw(n, d));
    let ex = IntV(e);
    let r = expt(&base, &ex);
    // exact components in 128 bits from constant tables (no loop in the oracle): |n|^|e| <= 3^40, d^|e| <= 5^40 < 2^93
    let ae = (if e < 0 { -e } else { e }) as usize;
    let an = if n < 0 { -n } else { n };
    let mag = if an == 1 { 1 } else if an == 2 { POW2[ae] } else { POW3[ae] };
    let pn: i128 = if n < 0 && ae % 2 == 1 { -mag } else { mag };
    let pd: i128 = if d == 2 { POW2[ae] } else if d == 3 { POW3[ae] } else { POW5[ae] };
    // numerator / denominator of the result, denominator positive
    let (rn, rd) = if e >= 0 { (pn, pd) } else if pn < 0 { (-pd, -pn) } else { (pd, pn) };
    // both powers fit 31 bits: the result has to be computed (exactly) with small rationals; otherwise it has to leave
    // them (a result such as (-1/2)^-31 = -2^31 would fit an IntV but one of its powers does not fit an i32: either way is fine,
    // and its value then comes from num-bigint, which is not executed here)
    let apn = if pn < 0 { -pn } else { pn };
    let fits = apn <= i32::MAX as i128 && pd <= i32::MAX as i128;
    kani::cover!(!fits && e > 0, "positive power beyond 32 bits");
    kani::cover!(!fits && e < 0, "negative power beyond 32 bits");
    kani::cover!(fits && e < 0 && n < 0, "negative base, negative power, small");
    match &r {
        Ok(v) => {
            if fits {
                vassert!(!unsafe { RPOW_BIG }, "a power whose components fit 31 bits went through big rationals");
                if rd == 1 {
                    check_exact_int(v, rn);
                } else {
                    vassert!(matches!(v, Rational(q) if *q.numer() as i128 == rn && *q.denom() as i128 == rd), "the power of a rational has the wrong value");
                }
            } else {
                vassert!(unsafe { RPOW_BIG }, "a power of a rational whose components leave 31 bits was not computed with big rationals");
            }
        }
        Err(_) => {
            vassert!(false, "expt of a non-zero rational and an integer returned an error");
        }
    }
    core::mem::forget(r);
    core::mem::forget(base);
}

// ------------------------------------------------------------------ ordering of a double against a big integer: total
// `BigDecimal::from_f64` is partial (None for NaN and the infinities).  The comparison of ANY double with a big integer
// (and with a big rational) must answer Some / None and never panic.  bigdecimal's conversion and comparison are not
// executed: the conversion is modelled by its partiality alone (None exactly for the non-finite doubles; a finite double
// becomes the decimal 0), so the ORDER answered for finite doubles is not checked here, only totality.
fn bigdecimal_from_f64_stub(n: f64) -> Option<bigdecimal::BigDecimal> {
    if n.is_finite() {
        Some(bigdecimal::BigDecimal::new(BigInt::from(0), 0))
    } else {
        None
    }
}
fn bigdecimal_partial_cmp_stub(_a: &bigdecimal::BigDecimal, _b: &bigdecimal::BigDecimal) -> Option<core::cmp::Ordering> {
    let k: u8 = kani::any();
    match k % 4 {
        0 => Some(Ord3::Less),
        1 => Some(Ord3::Equal),
        2 => Some(Ord3::Greater),
        _ => None,
    }
}
#[kani::proof]
#[kani::unwind(8)]
#[kani::stub(std::rt::thread_cleanup, noop)]
#[kani::stub(alloc::fmt::format, fmt_stub)]
#[kani::stub(core::arch::x86_64::_addcarry_u64, addcarry_stub)]
#[kani::stub(core::arch::x86_64::_subborrow_u64, subborrow_stub)]
#[kani::stub(<bigdecimal::BigDecimal as num_traits::FromPrimitive>::from_f64, bigdecimal_from_f64_stub)]
fn num_cmp_float_big_total() {
    tag_init();
    let f: f64 = kani::any();
    let off: u16 = kani::any();
    let neg: bool = kani::any();
    let d: i128 = if neg { -((1i128 << 63) + 1 + off as i128) } else { (1i128 << 63) + off as i128 };
    let a = NumV(f);
    let b = big(d);
    kani::cover!(f.is_nan(), "not a number");
    kani::cover!(f.is_infinite() && f > 0.0, "positive infinity");
    kani::cover!(f.is_finite(), "finite");
    let r1 = a.partial_cmp(&b);
    let r2 = b.partial_cmp(&a);
    if f.is_nan() {
        vassert!(r1.is_none() && r2.is_none(), "a big integer is ordered against not-a-number");
    }
    core::mem::forget(a);
    core::mem::forget(b);
}
