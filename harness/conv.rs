// Kani harnesses for the host-boundary scalar conversions (C20).
// Included as a child module of a scratch copy of steel-core/src/primitives.rs.
#![allow(dead_code, unused_imports)]
use super::*;
use crate::rvals::SteelVal::*;
use crate::rvals::{FromSteelVal as FSV, IntoSteelVal as ISV};

fn noop() {}
fn fmt_stub(_a: core::fmt::Arguments<'_>) -> String {
    String::new()
}

macro_rules! conv_harness {
    ($name:ident, $body:block) => {
        #[kani::proof]
        #[kani::unwind(6)]
        #[kani::stub(std::rt::thread_cleanup, noop)]
        #[kani::stub(alloc::fmt::format, fmt_stub)]
        fn $name() {
            tag_init();
            $body
        }
    };
}

// script integer -> host integer type: Ok(v) only with the same mathematical value,
// out of range must be an error (never truncated)
macro_rules! from_int {
    ($name:ident, $t:ty) => {
        conv_harness!($name, {
            let x: isize = kani::any();
            let sv = IntV(x);
            let r = <$t as FSV>::from_steelval(&sv);
            let in_range = (x as i128) >= (<$t>::MIN as i128) && (x as i128) <= (<$t>::MAX as i128);
            kani::cover!(in_range, "in range");
            // (a type that holds every machine integer -- i64, isize -- has no out-of-range script integer: the cover is then
            // satisfied by any value, otherwise the harness would be reported as vacuous)
            kani::cover!(!in_range || ((<$t>::MIN as i128) <= isize::MIN as i128 && (<$t>::MAX as i128) >= isize::MAX as i128), "out of range");
            match r {
                Ok(v) => {
                    vassert!(in_range, "out-of-range integer converted instead of reported (truncated)");
                    vassert!(v as i128 == x as i128, "converted value differs");
                }
                Err(e) => {
                    core::mem::forget(e);
                    vassert!(!in_range, "in-range integer refused");
                }
            }
        });
    };
}
from_int!(conv_from_i8, i8);
from_int!(conv_from_u8, u8);
from_int!(conv_from_i16, i16);
from_int!(conv_from_u16, u16);
from_int!(conv_from_i32, i32);
from_int!(conv_from_u32, u32);
from_int!(conv_from_i64, i64);
from_int!(conv_from_u64, u64);
from_int!(conv_from_isize, isize);
from_int!(conv_from_usize, usize);

// host integer -> script value: IntV with the same value, or a BigNum equal to it; never wrapped.
// then back: round trip is the identity
macro_rules! into_int {
    ($name:ident, $t:ty) => {
        conv_harness!($name, {
            let v: $t = kani::any();
            let r = <$t as ISV>::into_steelval(v);
            // (for the unsigned 64-bit types this also witnesses values above the machine word)
            kani::cover!((v as i128) > isize::MAX as i128 || (<$t>::MAX as i128) <= isize::MAX as i128, "largest values of the type");
            // (matched by reference and forgotten as a whole: dropping a value whose variant is
            // symbolic makes CBMC execute the drop glue of every SteelVal variant)
            match &r {
                Ok(IntV(n)) => {
                    vassert!(*n as i128 == v as i128, "host integer wrapped on the way in");
                }
                Ok(BigNum(b)) => {
                    vassert!((v as i128) > isize::MAX as i128 || (v as i128) < isize::MIN as i128, "non-canonical BigNum");
                    vassert!(b.as_ref().to_i128() == Some(v as i128), "BigNum differs from host value");
                }
                Ok(_) => {
                    vassert!(false, "host integer became a non-integer");
                }
                Err(_) => {
                    vassert!(false, "host integer refused");
                }
            }
            core::mem::forget(r);
        });
    };
}
into_int!(conv_into_i8, i8);
into_int!(conv_into_u8, u8);
into_int!(conv_into_i16, i16);
into_int!(conv_into_u16, u16);
into_int!(conv_into_i32, i32);
into_int!(conv_into_u32, u32);
into_int!(conv_into_i64, i64);
into_int!(conv_into_u64, u64);
into_int!(conv_into_isize, isize);
into_int!(conv_into_usize, usize);

// From<T> for SteelVal (the infallible direction used by `.into()`)
macro_rules! from_host_int {
    ($name:ident, $t:ty) => {
        conv_harness!($name, {
            let v: $t = kani::any();
            let r: SteelVal = SteelVal::from(v);
            kani::cover!((v as i128) > isize::MAX as i128 || (<$t>::MAX as i128) <= isize::MAX as i128, "largest values of the type");
            match &r {
                IntV(n) => {
                    vassert!(*n as i128 == v as i128, "host integer wrapped on the way in");
                }
                BigNum(b) => {
                    vassert!((v as i128) > isize::MAX as i128, "non-canonical BigNum");
                    vassert!(b.as_ref().to_i128() == Some(v as i128), "BigNum differs from host value");
                }
                _ => {
                    vassert!(false, "host integer became a non-integer");
                }
            }
            core::mem::forget(r);
        });
    };
}
from_host_int!(conv_fromtrait_u64, u64);
from_host_int!(conv_fromtrait_u32, u32);
from_host_int!(conv_fromtrait_i64, i64);
from_host_int!(conv_fromtrait_usize, usize);

// floats, chars, bools, unit
conv_harness!(conv_f64_roundtrip, {
    let v: f64 = kani::any();
    let sv = v.into_steelval();
    match &sv {
        Ok(NumV(n)) => assert!(n.to_bits() == v.to_bits() || (n.is_nan() && v.is_nan())),
        _ => assert!(false),
    }
    let back = f64::from_steelval(sv.as_ref().ok().unwrap());
    assert!(matches!(back, Ok(b) if b.to_bits() == v.to_bits() || (b.is_nan() && v.is_nan())));
    // mistyped
    let i: isize = kani::any();
    let bad = f64::from_steelval(&IntV(i));
    vassert!(bad.is_err(), "integer accepted where a float is declared");
    core::mem::forget(bad);
    core::mem::forget(sv);
    core::mem::forget(back);
    kani::cover!(v.is_nan(), "nan");
});

conv_harness!(conv_f32_roundtrip, {
    let v: f32 = kani::any();
    let sv = v.into_steelval();
    let back = f32::from_steelval(sv.as_ref().ok().unwrap());
    assert!(matches!(back, Ok(b) if b.to_bits() == v.to_bits() || (b.is_nan() && v.is_nan())));
    core::mem::forget(sv);
    core::mem::forget(back);
});

conv_harness!(conv_char_bool_unit, {
    let c: char = kani::any();
    let sv = c.into_steelval();
    assert!(matches!(sv, Ok(CharV(d)) if d == c));
    assert!(matches!(char::from_steelval(&CharV(c)), Ok(d) if d == c));
    let i: isize = kani::any();
    let e1 = char::from_steelval(&IntV(i));
    vassert!(e1.is_err(), "integer accepted where a char is declared");
    core::mem::forget(e1);
    let b: bool = kani::any();
    assert!(matches!(b.into_steelval(), Ok(BoolV(d)) if d == b));
    assert!(matches!(bool::from_steelval(&BoolV(b)), Ok(d) if d == b));
    let e2 = bool::from_steelval(&IntV(i));
    vassert!(e2.is_err(), "integer accepted where a bool is declared");
    core::mem::forget(e2);
    assert!(matches!(().into_steelval(), Ok(Void)));
    assert!(<() as FSV>::from_steelval(&Void).is_ok());
    let e3 = <() as FSV>::from_steelval(&IntV(i));
    assert!(e3.is_err());
    core::mem::forget(e3);
    core::mem::forget(sv);
    kani::cover!(true, "reach");
});

// Option<T>: None <-> #false, Some(v) <-> v ; both the fallible and the From direction
conv_harness!(conv_option_i32, {
    let some: bool = kani::any();
    let v: i32 = kani::any();
    let o: Option<i32> = if some { Some(v) } else { None };
    let sv = o.into_steelval();
    kani::cover!(some, "some");
    kani::cover!(!some, "none");
    match &sv {
        Ok(s) => {
            let back = <Option<i32> as FSV>::from_steelval(s);
            vassert!(matches!(back, Ok(b) if b == o), "Option<i32> does not round-trip through into_steelval");
            core::mem::forget(back);
        }
        Err(_) => assert!(false),
    }
    core::mem::forget(sv);
    let sv2: SteelVal = SteelVal::from(o);
    let back2 = <Option<i32> as FSV>::from_steelval(&sv2);
    vassert!(matches!(back2, Ok(b) if b == o), "Option<i32> does not round-trip through From");
    core::mem::forget(back2);
    core::mem::forget(sv2);
});

// u128 from the host: above isize::MAX it must become a big integer, never a wrapped fixnum
conv_harness!(conv_into_u128, {
    let v: u128 = kani::any();
    kani::assume(v < (1u128 << 70));
    let r = <u128 as ISV>::into_steelval(v);
    kani::cover!(v > isize::MAX as u128 && v <= u64::MAX as u128, "between isize::MAX and u64::MAX");
    kani::cover!(v > u64::MAX as u128, "above u64::MAX");
    match &r {
        Ok(IntV(n)) => {
            vassert!(*n >= 0 && *n as u128 == v, "host u128 wrapped on the way in");
        }
        Ok(BigNum(b)) => {
            vassert!(v > isize::MAX as u128, "non-canonical BigNum");
            vassert!(b.as_ref().to_u128() == Some(v), "BigNum differs from host value");
        }
        Ok(_) => {
            vassert!(false, "host integer became a non-integer");
        }
        Err(_) => {
            vassert!(false, "host integer refused");
        }
    }
    core::mem::forget(r);
});

// script big integer -> host i64 / u8 / i8: out of range must be an error
macro_rules! from_big {
    ($name:ident, $t:ty) => {
        conv_harness!($name, {
            let a: i128 = kani::any();
            kani::assume((a >= (1i128 << 63) && a < (1i128 << 66)) || (a < -(1i128 << 63) && a > -(1i128 << 66)));
            let sv = BigNum(Gc::new(num_bigint::BigInt::from(a)));
            let r = <$t as FSV>::from_steelval(&sv);
            kani::cover!(a > 0, "positive");
            kani::cover!(a < 0, "negative");
            match r {
                Ok(v) => {
                    let _ = v;
                    vassert!(false, "a big integer outside the 64-bit range was converted instead of reported (truncated)");
                }
                Err(e) => {
                    core::mem::forget(e);
                }
            }
            core::mem::forget(sv);
        });
    };
}
from_big!(conv_from_big_i64, i64);
from_big!(conv_from_big_u8, u8);
from_big!(conv_from_big_i8, i8);

// host integer -> script value -> host integer: the identity for EVERY value of the type (values above the machine
// word travel as big integers and have to come back)
macro_rules! roundtrip_int {
    ($name:ident, $t:ty) => {
        conv_harness!($name, {
            let v: $t = kani::any();
            let r = <$t as ISV>::into_steelval(v);
            kani::cover!((v as i128) > isize::MAX as i128 || (<$t>::MAX as i128) <= isize::MAX as i128, "largest values of the type");
            match &r {
                Ok(sv) => {
                    let back = <$t as FSV>::from_steelval(sv);
                    match &back {
                        Ok(w) => {
                            vassert!(*w == v, "a host integer came back from the script side with another value");
                        }
                        Err(_) => {
                            vassert!(false, "a host integer that was passed to the script side cannot be extracted again");
                        }
                    }
                    core::mem::forget(back);
                }
                Err(_) => {
                    vassert!(false, "host integer refused");
                }
            }
            core::mem::forget(r);
        });
    };
}
roundtrip_int!(conv_roundtrip_u64, u64);
roundtrip_int!(conv_roundtrip_usize, usize);
roundtrip_int!(conv_roundtrip_i64, i64);
roundtrip_int!(conv_roundtrip_u32, u32);
