// Native replay of E2 schedules (C15/C16/C17) against the REAL engine, built in a scratch
// copy of steel-core with `--cfg steel_verif` (hook H2: steel_vm::verif_hook).
//
// The solver's schedule is projected onto the hook points; VERIF_SYNC_ORDER carries the
// projected order, e.g.  "T0:SCAN_BEGIN,T1:RETRACT,T1:POLL,T0:SCAN_END".  A thread reaching a
// point that is its next expected event waits until all earlier events have happened; every
// other hook call passes through.  If the whole order is realised the overlap it describes has
// been observed on the real code.  Roles: T0 = the thread that runs the engine (this test),
// T1.. = script threads in order of first appearance.
use std::collections::HashMap;
use std::sync::atomic::{AtomicBool, AtomicU64, AtomicUsize, Ordering};
use std::sync::{Condvar, Mutex};
use std::time::{Duration, Instant};
use steel::steel_vm::engine::Engine;
use steel::steel_vm::register_fn::RegisterFn;
use steel::steel_vm::verif_hook as hook;

struct Orch {
    order: Vec<(usize, u32)>, // (role, point)
    pos: usize,
    roles: HashMap<std::thread::ThreadId, usize>,
    ptr_of_role: HashMap<usize, usize>,
    gave_up: bool,
    log: Vec<String>,
    gates: HashMap<(usize, u32), bool>, // (role, point) -> released?
    // The OS thread that drives the engine also runs the engine's internal macro-expansion VM,
    // a separate SteelThread with its own registry.  The script VM of a role is the one that has
    // inspected another script thread (SCAN_BEGIN); gates apply to it only.
    main_ptr: HashMap<usize, usize>,
    arrived: HashMap<(usize, u32), u64>,
}

static ORCH: Mutex<Option<Orch>> = Mutex::new(None);
static CV: Condvar = Condvar::new();
static COMPLETED: AtomicBool = AtomicBool::new(false);
static BOTH_DONE: AtomicBool = AtomicBool::new(false);
static GC_FIRST_GO: AtomicBool = AtomicBool::new(false);
static SPINS: [AtomicU64; 4] = [AtomicU64::new(0), AtomicU64::new(0), AtomicU64::new(0), AtomicU64::new(0)];
static POLLS_AFTER: AtomicU64 = AtomicU64::new(0);
static COUNT_POLLS_OF: AtomicUsize = AtomicUsize::new(usize::MAX);
static TARGET_ROLE_FOR_SCAN: AtomicUsize = AtomicUsize::new(usize::MAX);

fn point_name(p: u32) -> &'static str {
    match p {
        hook::RETRACT => "RETRACT",
        hook::SCAN_BEGIN => "SCAN_BEGIN",
        hook::SCAN_END => "SCAN_END",
        hook::POLL => "POLL",
        hook::STOP_BEGIN => "STOP_BEGIN",
        hook::RESUME_END => "RESUME_END",
        hook::SPIN => "SPIN",
        _ => "?",
    }
}
fn point_id(s: &str) -> u32 {
    match s {
        "RETRACT" => hook::RETRACT,
        "SCAN_BEGIN" => hook::SCAN_BEGIN,
        "SCAN_END" => hook::SCAN_END,
        "POLL" => hook::POLL,
        "STOP_BEGIN" => hook::STOP_BEGIN,
        "RESUME_END" => hook::RESUME_END,
        "SPIN" => hook::SPIN,
        _ => panic!("unknown point {}", s),
    }
}

fn callback(id: u32, arg: usize) {
    let me = std::thread::current().id();
    let mut g = ORCH.lock().unwrap();
    let o = match g.as_mut() {
        Some(o) => o,
        None => return,
    };
    let next_role = o.roles.len();
    let role = *o.roles.entry(me).or_insert(next_role);
    if id == hook::POLL || id == hook::RETRACT {
        o.ptr_of_role.insert(role, arg);
    }
    if std::env::var("VERIF_SYNC_TRACE").is_ok() && o.log.len() < 160 && id != hook::SPIN {
        let l = format!("[T{}:{}:{:x}]", role, point_name(id), arg & 0xffff);
        if o.log.last() != Some(&l) {
            o.log.push(l);
        }
    }
    if id == hook::SCAN_BEGIN {
        if let Some(p) = o.ptr_of_role.get(&role).copied() {
            o.main_ptr.entry(role).or_insert(p);
        }
    }
    if id == hook::SPIN {
        if role < 4 {
            SPINS[role].fetch_add(1, Ordering::Relaxed);
        }
        return;
    }
    if id == hook::POLL && COUNT_POLLS_OF.load(Ordering::SeqCst) == role {
        POLLS_AFTER.fetch_add(1, Ordering::SeqCst);
    }
    if o.gave_up {
        return;
    }
    // explicit gate: hold the thread here until the driver releases it
    let on_script_vm = match (o.main_ptr.get(&role), o.ptr_of_role.get(&role)) {
        (Some(m), Some(p)) => m == p,
        _ => true,
    };
    if on_script_vm && o.gates.get(&(role, id)) == Some(&false) {
        *o.arrived.entry((role, id)).or_insert(0) += 1;
        o.log.push(format!("T{}:{}(held)", role, point_name(id)));
        CV.notify_all();
        let deadline = Instant::now() + Duration::from_secs(20);
        loop {
            let o = g.as_mut().unwrap();
            if o.gave_up || o.gates.get(&(role, id)) != Some(&false) {
                o.log.push(format!("T{}:{}", role, point_name(id)));
                return;
            }
            let now = Instant::now();
            if now >= deadline {
                o.gave_up = true;
                CV.notify_all();
                return;
            }
            let (g2, _) = CV.wait_timeout(g, deadline - now).unwrap();
            g = g2;
        }
    }
    // my next expected event
    let idx = match (o.pos..o.order.len()).find(|&i| o.order[i].0 == role) {
        Some(i) => i,
        None => return,
    };
    if o.order[idx].1 != id {
        return;
    }
    // a scan event must concern the thread the schedule names
    if id == hook::SCAN_BEGIN || id == hook::SCAN_END {
        let tr = TARGET_ROLE_FOR_SCAN.load(Ordering::SeqCst);
        if tr != usize::MAX {
            match o.ptr_of_role.get(&tr) {
                Some(p) if *p == arg => {}
                _ => return,
            }
        }
    }
    let deadline = Instant::now() + Duration::from_secs(20);
    loop {
        let o = g.as_mut().unwrap();
        if o.gave_up {
            return;
        }
        if o.pos == idx {
            o.pos += 1;
            o.log.push(format!("T{}:{}", role, point_name(id)));
            if o.pos == o.order.len() {
                COMPLETED.store(true, Ordering::SeqCst);
            }
            CV.notify_all();
            return;
        }
        let now = Instant::now();
        if now >= deadline {
            o.gave_up = true;
            o.log.push(format!("T{} gave up waiting at {}", role, point_name(id)));
            CV.notify_all();
            return;
        }
        let (g2, _) = CV.wait_timeout(g, deadline - now).unwrap();
        g = g2;
    }
}

fn install(order: &str) {
    let order: Vec<(usize, u32)> = order
        .split(',')
        .filter(|s| !s.is_empty())
        .map(|e| {
            let (r, p) = e.trim().split_once(':').unwrap();
            (r[1..].parse().unwrap(), point_id(p))
        })
        .collect();
    let mut roles = HashMap::new();
    roles.insert(std::thread::current().id(), 0usize);
    *ORCH.lock().unwrap() = Some(Orch {
        order,
        pos: 0,
        roles,
        ptr_of_role: HashMap::new(),
        gave_up: false,
        log: vec![],
        gates: HashMap::new(),
        main_ptr: HashMap::new(),
        arrived: HashMap::new(),
    });
    hook::set(Some(callback));
}

fn set_order(order: &str) {
    let order: Vec<(usize, u32)> = order
        .split(',')
        .filter(|s| !s.is_empty())
        .map(|e| {
            let (r, p) = e.trim().split_once(':').unwrap();
            (r[1..].parse().unwrap(), point_id(p))
        })
        .collect();
    let mut g = ORCH.lock().unwrap();
    let o = g.as_mut().unwrap();
    o.order = order;
    o.pos = 0;
}

fn hold(role: usize, point: u32) {
    let mut g = ORCH.lock().unwrap();
    g.as_mut().unwrap().gates.insert((role, point), false);
}
fn release(role: usize, point: u32) {
    let mut g = ORCH.lock().unwrap();
    g.as_mut().unwrap().gates.remove(&(role, point));
    CV.notify_all();
}
fn wait_arrived(role: usize, point: u32, secs: u64) -> bool {
    let deadline = Instant::now() + Duration::from_secs(secs);
    let mut g = ORCH.lock().unwrap();
    loop {
        if g.as_ref().unwrap().arrived.get(&(role, point)).copied().unwrap_or(0) > 0 {
            return true;
        }
        let now = Instant::now();
        if now >= deadline {
            return false;
        }
        let (g2, _) = CV.wait_timeout(g, deadline - now).unwrap();
        g = g2;
    }
}
fn events() -> Vec<String> {
    ORCH.lock().unwrap().as_ref().unwrap().log.clone()
}

fn report() -> (bool, Vec<String>) {
    let g = ORCH.lock().unwrap();
    let o = g.as_ref().unwrap();
    (COMPLETED.load(Ordering::SeqCst) && !o.gave_up, o.log.clone())
}

const WORKER: &str = r#"
(define (busy n acc) (if (= n 0) acc (busy (- n 1) (+ acc (length (list n n))))))
(define t (spawn-native-thread (lambda () (busy 3000000 0))))
"#;

/// C15: a script thread leaves a safepoint and runs interpreter code while another thread is
/// inspecting its stack / replacing its global table.
#[test]
fn exit_window() {
    let order = std::env::var("VERIF_SYNC_ORDER").expect("VERIF_SYNC_ORDER");
    let stopper = std::env::var("VERIF_SYNC_STOPPER").unwrap_or("gc".into());
    TARGET_ROLE_FOR_SCAN.store(1, Ordering::SeqCst);
    let mut engine = Engine::new();
    install("");
    engine.run(WORKER.to_string()).unwrap();
    // T1 is now running its loop; from here on the projected order is enforced: T1 is held at
    // its next RETRACT (it has already read paused == false) until T0's scan of T1 has begun
    std::thread::sleep(Duration::from_millis(200));
    set_order(&order);
    std::thread::sleep(Duration::from_millis(200));
    let prog = if stopper == "gc" { "(#%gc-collect)" } else { "(define verif-fresh-global 42)" };
    engine.run(prog.to_string()).unwrap();
    let (done, log) = report();
    hook::set(None);
    println!("EVENTS: {}", log.join(","));
    if done {
        println!("OBSERVED: script thread T1 passed RETRACT and reached its next dispatch (POLL) between T0's SCAN_BEGIN and SCAN_END of T1's own state");
        std::process::exit(3);
    }
    println!("COMPLETED: order not realised");
    engine.run("(thread-join! t)".to_string()).ok();
}

/// C16: two world-stopping operations (a collection and a global definition) started
/// concurrently spin on each other forever.  Solver schedule (projected): T1 releases the heap
/// lock and reaches stop_threads; T0 passes its poll, takes the heap lock and reaches
/// stop_threads; then both run stop_threads and wait for the other's safepoint.
#[test]
fn two_stoppers() {
    let mut engine = Engine::new();
    install("");
    engine.run("(define verif-g2 0) (define t #f)".to_string()).unwrap();
    hold(1, hook::STOP_BEGIN);
    engine
        .run(r#"(set! t (spawn-native-thread (lambda () (set! verif-g2 1) 1)))"#.to_string())
        .unwrap();
    if !wait_arrived(1, hook::STOP_BEGIN, 15) {
        println!("EVENTS: {}", events().join(","));
        println!("COMPLETED: T1 never reached stop_threads");
        return;
    }
    hold(0, hook::STOP_BEGIN);
    std::thread::spawn(move || {
        // driver: once T0 too is at stop_threads, let both go and watch for the mutual spin
        if !wait_arrived(0, hook::STOP_BEGIN, 15) {
            println!("EVENTS: {}", events().join(","));
            println!("COMPLETED: T0 never reached stop_threads");
            std::process::exit(0);
        }
        release(0, hook::STOP_BEGIN);
        release(1, hook::STOP_BEGIN);
        // neither operation may take longer than a moment; give them 8 s, then look at who waits
        let t0 = Instant::now();
        while t0.elapsed() < Duration::from_secs(8) {
            if BOTH_DONE.load(Ordering::SeqCst) {
                return;
            }
            std::thread::sleep(Duration::from_millis(50));
        }
        let a = (SPINS[0].load(Ordering::Relaxed), SPINS[1].load(Ordering::Relaxed));
        std::thread::sleep(Duration::from_secs(1));
        let b = (SPINS[0].load(Ordering::Relaxed), SPINS[1].load(Ordering::Relaxed));
        println!("EVENTS: {}", events().join(","));
        println!(
            "OBSERVED: 9 s after both world-stopping operations entered stop_threads neither has completed: T0 (collection) spin iterations {} (+{} in the last second), T1 (global assignment) {} (+{}); each waits for the other to reach a safepoint",
            b.0, b.0 - a.0, b.1, b.1 - a.1
        );
        std::process::exit(3);
    });
    engine.run("(#%gc-collect)".to_string()).unwrap();
    engine.run("(thread-join! t)".to_string()).ok();
    BOTH_DONE.store(true, Ordering::SeqCst);
    hook::set(None);
    println!("EVENTS: {}", events().join(","));
    println!("COMPLETED: both operations finished");
}

/// C16: a global assignment that begins while a collection is ALREADY under way (the collector holds the heap
/// lock and has not yet asked the threads to stop).  On the pinned tree the assigning thread first waits for the
/// heap lock inside a safepoint, so the collector finds it stopped; the solver's schedule for a tree without that
/// wait: the assigning thread goes straight to stop_threads and spins on the collector, which then blocks on the
/// registry lock.  T0 (collector) is held at STOP_BEGIN until T1 has either arrived at its own STOP_BEGIN or has
/// had 1.5 s to block on the heap lock.
#[test]
fn gc_first() {
    let mut engine = Engine::new();
    install("");
    // T1 waits (polling a host flag) until the driver has seen T0 inside the collection
    engine.register_fn("verif-go?", || GC_FIRST_GO.load(Ordering::SeqCst));
    engine.run("(define verif-g3 0) (define t #f) (define (verif-wait) (if (verif-go?) 0 (verif-wait)))".to_string()).unwrap();
    engine
        .run(r#"(set! t (spawn-native-thread (lambda () (verif-wait) (set! verif-g3 1) 1)))"#.to_string())
        .unwrap();
    // from here on the engine thread's next stop request is the collection's
    hold(0, hook::STOP_BEGIN);
    std::thread::spawn(move || {
        if !wait_arrived(0, hook::STOP_BEGIN, 15) {
            println!("EVENTS: {}", events().join(","));
            println!("COMPLETED: T0 never reached stop_threads");
            std::process::exit(0);
        }
        // T0 is inside the collection, before its stop request; now let T1 begin its assignment
        GC_FIRST_GO.store(true, Ordering::SeqCst);
        std::thread::sleep(Duration::from_millis(1500));
        let t1_at_stop = SPINS[1].load(Ordering::Relaxed) > 0; // T1 is already spinning in a wait loop of its stop request
        release(0, hook::STOP_BEGIN);
        let t0 = Instant::now();
        while t0.elapsed() < Duration::from_secs(8) {
            if BOTH_DONE.load(Ordering::SeqCst) {
                return;
            }
            std::thread::sleep(Duration::from_millis(50));
        }
        println!("EVENTS: {}", events().join(","));
        println!(
            "OBSERVED: a global assignment begun while a collection was under way (collector holding the heap lock, assigning thread {} its own stop request before the collector's): 8 s later neither operation has completed (spin iterations T0 {}, T1 {})",
            if t1_at_stop { "was already waiting in" } else { "had not begun" },
            SPINS[0].load(Ordering::Relaxed),
            SPINS[1].load(Ordering::Relaxed)
        );
        std::process::exit(3);
    });
    engine.run("(#%gc-collect)".to_string()).unwrap();
    engine.run("(thread-join! t)".to_string()).ok();
    BOTH_DONE.store(true, Ordering::SeqCst);
    hook::set(None);
    println!("EVENTS: {}", events().join(","));
    println!("COMPLETED: both operations finished");
}

/// C17: an interrupt requested by the host is overwritten by a concurrent stop/resume and the
/// interpreter keeps running.  Solver schedule (projected): host interrupt() completes; then the
/// collector's stop_threads stores PausedAtSafepoint over it; the target's next poll parks as
/// for a collection; resume_threads stores Running; the target keeps running.
#[test]
fn interrupt_lost() {
    let mut engine = Engine::new();
    let controller = engine.get_thread_state_controller();
    install("");
    engine
        .run("(define (spin n) (if (= n 0) 'finished (spin (- n 1)))) (define t #f)".to_string())
        .unwrap();
    hold(1, hook::STOP_BEGIN);
    engine
        .run(r#"(set! t (spawn-native-thread (lambda () (#%gc-collect) 1)))"#.to_string())
        .unwrap();
    let driver = std::thread::spawn(move || {
        if !wait_arrived(1, hook::STOP_BEGIN, 15) {
            return false;
        }
        // hold the target at its next dispatch so that it cannot observe the request first
        hold(0, hook::POLL);
        if !wait_arrived(0, hook::POLL, 15) {
            return false;
        }
        controller.interrupt();
        {
            let mut g = ORCH.lock().unwrap();
            g.as_mut().unwrap().log.push("HOST:interrupt() returned".into());
        }
        release(1, hook::STOP_BEGIN);
        // the collector has finished stop_threads once it spins waiting for T0's safepoint
        let t0 = Instant::now();
        while SPINS[1].load(Ordering::Relaxed) == 0 && t0.elapsed() < Duration::from_secs(15) {
            std::thread::sleep(Duration::from_millis(1));
        }
        let ok = SPINS[1].load(Ordering::Relaxed) > 0;
        release(0, hook::POLL);
        ok
    });
    let res = engine.run(
        "(spin 5000000)".to_string(),
    );
    let realised = driver.join().unwrap();
    hook::set(None);
    println!("EVENTS: {}", events().join(","));
    match res {
        Ok(_) if realised => {
            println!("OBSERVED: the evaluation ran to completion (millions of further dispatches) although interrupt() had returned before; the request was overwritten by stop_threads/resume_threads of a concurrent collection");
            std::process::exit(3);
        }
        Ok(_) => println!("COMPLETED: order not realised; evaluation finished"),
        Err(e) => println!("COMPLETED: evaluation stopped with an error: {}", e),
    }
}

/// C17 (liveness form): after the host's interrupt() the evaluation neither returns an error nor a
/// value: the target parks with nobody left to unpark it.  No scheduling is forced: the request is
/// made while the script is in a loop of primitive calls, which is all the solver's schedule needs.
static DRAINED: AtomicBool = AtomicBool::new(false);
static ARMED: AtomicBool = AtomicBool::new(false);
fn drain_token_callback(id: u32, _arg: usize) {
    // The engine thread usually carries a stale unpark token (every world-stop it performs ends
    // with resume_threads unparking all registered threads, itself included).  The solver's
    // schedule starts from "no token", a state the real system reaches whenever the thread has
    // really parked once; it is established here by consuming the token once the evaluation is
    // in its loop (no world-stop follows, so no new token appears).
    if id == hook::POLL && ARMED.load(Ordering::SeqCst) && !DRAINED.swap(true, Ordering::SeqCst) {
        std::thread::park_timeout(Duration::from_millis(0));
    }
}

#[test]
fn interrupt_hang() {
    let mut engine = Engine::new();
    let controller = engine.get_thread_state_controller();
    hook::set(Some(drain_token_callback));
    engine.run("(require-builtin steel/time)".to_string()).unwrap();
    engine
        .run(
            r#"(define (spin n) (if (= n 0) 0 (spin (- n 1))))
               (define (busy k) (if (= k 0) 'done (begin (time/sleep-ms 1) (spin 50) (busy (- k 1)))))"#
                .to_string(),
        )
        .unwrap();
    let done = std::sync::Arc::new(AtomicBool::new(false));
    let done2 = done.clone();
    let host = std::thread::spawn(move || {
        std::thread::sleep(Duration::from_millis(250));
        ARMED.store(true, Ordering::SeqCst);
        std::thread::sleep(Duration::from_millis(50));
        controller.interrupt();
        let t0 = Instant::now();
        while t0.elapsed() < Duration::from_secs(10) {
            if done2.load(Ordering::SeqCst) {
                return;
            }
            std::thread::sleep(Duration::from_millis(20));
        }
        println!("OBSERVED: 10 s after interrupt() returned the evaluation has neither stopped with an error nor finished: the interrupted thread is parked and nothing will unpark it");
        std::process::exit(3);
    });
    // the loop spends most of its time inside a primitive (time/sleep-ms), which is where the
    // solver's schedule has the target when interrupt() completes
    let res = engine.run("(busy 30000)".to_string());
    done.store(true, Ordering::SeqCst);
    host.join().unwrap();
    match res {
        Err(e) => println!("COMPLETED: evaluation stopped with an error: {}", e),
        Ok(_) => println!("COMPLETED: evaluation finished before the interrupt"),
    }
}

/// C16 (no forced schedule): one world-stopping thread keeps assigning a global while the engine
/// thread keeps spawning short-lived threads and joining them.  A watchdog reports when the whole
/// thing stops making progress.  Only ONE thread stops the world (two concurrent stoppers are a
/// separate, listed finding).
#[test]
fn stress_progress() {
    let rounds: usize = std::env::var("VERIF_SYNC_ROUNDS").ok().and_then(|x| x.parse().ok()).unwrap_or(300);
    let gc = std::env::var("VERIF_SYNC_STOPPER").map(|x| x == "gc").unwrap_or(false);
    let mut engine = Engine::new();
    if gc {
        // the world-stopper is a COLLECTION; every short-lived thread frees a large private list while it is on
        // its way out (the list sits in an unused argument until the last frame is popped), which widens the
        // window between a thread's last poll and the disappearance of its context
        engine
            .run(
                r#"(define stop-flag (box #f))
                   (define (stopper) (if (unbox stop-flag) 'done (begin (#%gc-collect) (stopper))))
                   (define (make-junk n acc) (if (= n 0) acc (make-junk (- n 1) (cons (number->string n) acc))))
                   (define (hold-until-return k junk) k)
                   (define (worker) (hold-until-return 3 (make-junk 100000 '())))
                   (define stopper-thread #f)"#
                    .to_string(),
            )
            .unwrap();
    } else {
        engine
            .run(
                r#"(define counter 0)
               (define stop-flag (box #f))
               (define (stopper) (if (unbox stop-flag) 'done (begin (set! counter (+ counter 1)) (stopper))))
               (define (worker) (+ 1 2))
               (define stopper-thread #f)"#
                    .to_string(),
            )
            .unwrap();
    }
    let progress = std::sync::Arc::new(AtomicU64::new(0));
    let p2 = progress.clone();
    std::thread::spawn(move || {
        let mut last = 0;
        let mut since = Instant::now();
        loop {
            std::thread::sleep(Duration::from_millis(200));
            let cur = p2.load(Ordering::SeqCst);
            if cur == u64::MAX {
                return;
            }
            if cur != last {
                last = cur;
                since = Instant::now();
            } else if since.elapsed() > Duration::from_secs(12) {
                println!("OBSERVED: no progress for 12 s after {} spawn/join rounds: a world-stopping operation (global assignment / collection) and a thread spawn/exit wait for each other", cur);
                std::process::exit(3);
            }
        }
    });
    engine.run("(set! stopper-thread (spawn-native-thread stopper))".to_string()).unwrap();
    for i in 0..rounds {
        engine.run("(thread-join! (spawn-native-thread worker))".to_string()).unwrap();
        progress.store(i as u64 + 1, Ordering::SeqCst);
    }
    engine.run("(set-box! stop-flag #t) (thread-join! stopper-thread)".to_string()).unwrap();
    progress.store(u64::MAX, Ordering::SeqCst);
    println!("COMPLETED: {} spawn/join rounds against a continuously {} thread", rounds, if gc { "collecting" } else { "assigning" });
}

static HOLD_INTERRUPT_MID_MS: AtomicU64 = AtomicU64::new(0);

fn mid_callback(id: u32, _arg: usize) {
    if id == hook::INTERRUPT_MID {
        let ms = HOLD_INTERRUPT_MID_MS.load(Ordering::SeqCst);
        if ms > 0 {
            std::thread::sleep(Duration::from_millis(ms));
        }
    }
}

/// C17: interrupt() is `paused := true; state := Interrupted`.  A thread leaving a primitive call
/// between the two stores sees paused == true with state != Interrupted and parks; interrupt()
/// does not unpark, so with no other thread around it sleeps forever.  The host is held between
/// its two stores (hook INTERRUPT_MID) for 400 ms, which is the solver's schedule.
#[test]
fn interrupt_between_stores() {
    let mut engine = Engine::new();
    let controller = engine.get_thread_state_controller();
    engine
        .run("(define (busy n acc) (if (= n 0) acc (busy (- n 1) (+ acc (length (list n n))))))".to_string())
        .unwrap();
    let done = std::sync::Arc::new(AtomicBool::new(false));
    let done2 = done.clone();
    let host = std::thread::spawn(move || {
        std::thread::sleep(Duration::from_millis(300));
        HOLD_INTERRUPT_MID_MS.store(400, Ordering::SeqCst);
        hook::set(Some(mid_callback));
        controller.interrupt();
        hook::set(None);
        let t0 = Instant::now();
        while t0.elapsed() < Duration::from_secs(10) {
            if done2.load(Ordering::SeqCst) {
                return;
            }
            std::thread::sleep(Duration::from_millis(20));
        }
        println!("EVENTS: HOST:paused:=true,T0:reads paused,T0:parks,HOST:state:=Interrupted");
        println!("OBSERVED: 10 s after interrupt() returned the evaluation has neither stopped with an error nor finished: the target read `paused` between the two stores of interrupt(), parked, and nothing unparks it");
        std::process::exit(3);
    });
    let res = engine.run("(busy 200000000 0)".to_string());
    done.store(true, Ordering::SeqCst);
    host.join().unwrap();
    match res {
        Err(e) => println!("COMPLETED: evaluation stopped with an error: {}", e),
        Ok(_) => println!("COMPLETED: evaluation finished before the interrupt"),
    }
}

// ------------------------------------------------------------------ conformance traces (DESIGN 3.5)
// Records what the REAL engine does at the hook points while one world-stopping operation runs
// next to a second script thread.  Nothing is forced.  The traces are fed to the extracted
// automata: every real trace has to be a run of the model (otherwise an "unsat" of the model
// would say nothing about the code).
static RECORDING: AtomicBool = AtomicBool::new(false);
static REC: Mutex<Vec<(String, u32, usize)>> = Mutex::new(Vec::new());
fn rec_callback(id: u32, arg: usize) {
    if RECORDING.load(Ordering::SeqCst) && id != hook::SPIN && id != hook::POLL {
        REC.lock().unwrap().push((format!("{:?}", std::thread::current().id()), id, arg));
    }
}

#[test]
fn conformance_trace() {
    let op = std::env::var("VERIF_CONF_OP").unwrap_or_else(|_| "set".to_string());
    let rounds: u64 = std::env::var("VERIF_CONF_ROUNDS").ok().and_then(|x| x.parse().ok()).unwrap_or(16);
    let worker = std::env::var("VERIF_CONF_WORKER").unwrap_or_else(|_| "prim".to_string());
    let mut engine = Engine::new();
    engine.register_fn("trace-on", || RECORDING.store(true, Ordering::SeqCst));
    engine.register_fn("trace-off", || RECORDING.store(false, Ordering::SeqCst));
    engine.run("(require-builtin steel/time)".to_string()).unwrap();
    engine
        .run(
            r#"(define x 0)
               ;; a box: a global that is only assigned in a LATER evaluation is folded into the
               ;; functions of this one as the constant #f (observed; outside every check here)
               (define stop-flag (box #f))
               (define (spin n) (if (= n 0) 0 (spin (- n 1))))
               (define (worker-prim k) (if (unbox stop-flag) 'done (begin (time/sleep-ms 1) (spin 20) (worker-prim (+ k 1)))))
               (define (worker-user k) (if (unbox stop-flag) 'done (worker-user (+ k 1))))
               (define t1 #f)"#
                .to_string(),
        )
        .unwrap();
    engine
        .run(format!("(set! t1 (spawn-native-thread (lambda () (worker-{} 0))))", worker))
        .unwrap();
    hook::set(Some(rec_callback));
    let body = if op == "gc" { "(#%gc-collect)" } else { "(set! x (+ x 1))" };
    for r in 0..rounds {
        std::thread::sleep(Duration::from_micros(300 + (r * 137) % 1100));
        engine.run(format!("(begin (trace-on) {} (trace-off))", body)).unwrap();
        RECORDING.store(false, Ordering::SeqCst);
        let ev: Vec<(String, u32, usize)> = REC.lock().unwrap().drain(..).collect();
        let s: Vec<String> = ev.iter().map(|(t, id, arg)| format!("{}|{}|{:x}", t, point_name(*id), arg)).collect();
        println!("TRACE: {}", s.join(","));
    }
    hook::set(None);
    engine.run("(set-box! stop-flag #t) (thread-join! t1)".to_string()).unwrap();
}
