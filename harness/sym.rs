// Kani harnesses for the global symbol table (C06: earlier definitions keep their meaning;
// C07: a failed evaluation leaves no residue).  Child module of a scratch copy of
// steel-core/src/compiler/map.rs.  hashbrown is replaced by small association lists (trusted:
// HashMap is a finite map, HashSet a finite set); everything else is the repository's code.
#![allow(dead_code, unused_imports, static_mut_refs)]
use super::*;
use std::alloc::Allocator;
use std::collections::HashMap;

fn noop() {}
fn fmt_stub(_a: core::fmt::Arguments<'_>) -> String {
    String::new()
}

// ---- FxHashMap<InternedString, usize> as an association list
const CAP: usize = 6;
static mut MK: [u32; CAP] = [0; CAP];
static mut MV: [usize; CAP] = [0; CAP];
static mut MU: [bool; CAP] = [false; CAP];

fn key_of<K>(k: &K) -> u32 {
    assert!(core::mem::size_of::<K>() == 4);
    unsafe { core::mem::transmute_copy(k) }
}
// Kani (0.68) cannot match a free function against a method that has generics of its own
// (`get<Q>`, `remove<Q>`); an associated function in an impl block with the same parent
// generics is accepted.
pub struct MapStub<K, V, S, A>(core::marker::PhantomData<(K, V, S, A)>);
impl<K, V, S, A: Allocator> MapStub<K, V, S, A> {
    pub fn insert(_m: &mut HashMap<K, V, S, A>, k: K, v: V) -> Option<V> {
    let key = key_of(&k);
    assert!(core::mem::size_of::<V>() == core::mem::size_of::<usize>());
    let val: usize = unsafe { core::mem::transmute_copy(&v) };
    core::mem::forget(k);
    core::mem::forget(v);
    unsafe {
        let mut i = 0;
        while i < CAP {
            if MU[i] && MK[i] == key {
                let old = MV[i];
                MV[i] = val;
                return Some(core::mem::transmute_copy(&old));
            }
            i += 1;
        }
        i = 0;
        while i < CAP {
            if !MU[i] {
                MU[i] = true;
                MK[i] = key;
                MV[i] = val;
                return None;
            }
            i += 1;
        }
    }
    kani::assume(false); // more than CAP entries: outside the bound
    None
}
    pub fn get<'a, Q: ?Sized>(_m: &'a HashMap<K, V, S, A>, k: &Q) -> Option<&'a V> {
    let key: u32 = unsafe { core::ptr::read(k as *const Q as *const u32) };
    unsafe {
        let mut i = 0;
        while i < CAP {
            if MU[i] && MK[i] == key {
                return Some(&*(&MV[i] as *const usize as *const V));
            }
            i += 1;
        }
    }
    None
}
    pub fn remove<Q: ?Sized>(_m: &mut HashMap<K, V, S, A>, k: &Q) -> Option<V> {
    let key: u32 = unsafe { core::ptr::read(k as *const Q as *const u32) };
    unsafe {
        let mut i = 0;
        while i < CAP {
            if MU[i] && MK[i] == key {
                MU[i] = false;
                let old = MV[i];
                return Some(core::mem::transmute_copy(&old));
            }
            i += 1;
        }
    }
    None
}
}

// `HashSet::<usize>::default()` seeds SipHash from the OS (getrandom syscall)
fn random_state_stub() -> std::hash::RandomState {
    unsafe { core::mem::transmute::<[u64; 2], std::hash::RandomState>([1, 2]) }
}
fn set_insert_stub<T, S, A: Allocator>(_s: &mut HashSet<T, S, A>, v: T) -> bool {
    core::mem::forget(v);
    true
}
fn lookup(sm: &SymbolMap, n: u32) -> Option<usize> {
    sm.map().get(&name(n)).copied()
}

fn name(k: u32) -> InternedString {
    InternedString::new(k as usize)
}

const NAMES: usize = 3;

/// intended meaning: the binding in force per name
#[derive(Clone, Copy)]
struct Ghost {
    cur: [Option<usize>; NAMES],
}

/// no slot that is the binding in force of some name may sit in the queue of reclamation candidates
fn live_slots_not_queued(sm: &SymbolMap, g: &Ghost) -> bool {
    let mut i = 0;
    while i < NAMES {
        if let Some(s) = g.cur[i] {
            let mut j = 0;
            while j < sm.free_list.shadowed_slots.len() {
                if sm.free_list.shadowed_slots[j] == s {
                    return false;
                }
                j += 1;
            }
        }
        i += 1;
    }
    true
}

fn agrees(sm: &SymbolMap, g: &Ghost) -> bool {
    let mut i = 0;
    while i < NAMES {
        if lookup(sm, i as u32 + 1) != g.cur[i] {
            return false;
        }
        i += 1;
    }
    true
}

macro_rules! sym_harness {
    ($name:ident, $body:block) => {
        #[kani::proof]
        #[kani::unwind(8)]
        #[kani::stub(std::rt::thread_cleanup, noop)]
        #[kani::stub(alloc::fmt::format, fmt_stub)]
        #[kani::stub(std::collections::HashMap::insert, MapStub::insert)]
        #[kani::stub(std::collections::HashMap::get, MapStub::get)]
        #[kani::stub(std::collections::HashMap::remove, MapStub::remove)]
        #[kani::stub(std::collections::HashSet::insert, set_insert_stub)]
        #[kani::stub(std::hash::RandomState::new, random_state_stub)]
        fn $name() {
            tag_init();
            $body
        }
    };
}

fn any_name() -> u32 {
    let n: u32 = kani::any();
    kani::assume(n >= 1 && n <= NAMES as u32);
    n
}

// A successful evaluation defines one or two names; then a FAILED evaluation (re)defines one or
// two names and is rolled back to the table length taken before it, exactly as
// Engine::raw_program_to_executable does.  Afterwards every name must resolve as before.
// (The numbers of definitions are concrete per harness so that all vector lengths are; the
// names are symbolic.)
fn rollback_body(n2: u32, ftwo: bool) {
    // successful evaluation: (define n1 ..) and, if n2 != 0, (define n2 ..); n2 == 1 redefines n1
    let mut sm = SymbolMap::new();
    let mut g = Ghost { cur: [None; NAMES] };
    let n1: u32 = 1;
    let s1 = sm.add(&name(n1));
    g.cur[n1 as usize - 1] = Some(s1);
    if n2 != 0 {
        let s2 = sm.add(&name(n2));
        g.cur[n2 as usize - 1] = Some(s2);
    }
    // the failed evaluation: one or two definitions of SYMBOLIC names
    let offset = sm.len();
    let f1 = any_name();
    let _ = sm.add(&name(f1));
    if ftwo {
        let f2 = any_name();
        let _ = sm.add(&name(f2));
    }
    sm.roll_back(offset);
    kani::cover!(f1 == n1, "failed evaluation redefined an earlier name");
    kani::cover!(f1 == 3, "failed evaluation introduced a new name");
    vassert!(sm.len() == offset, "roll-back left slots of the failed evaluation behind");
    vassert!(agrees(&sm, &g), "after a failed evaluation a name no longer resolves as before it");
    vassert!(live_slots_not_queued(&sm, &g), "after a failed evaluation the slot of a live binding is queued for reclamation");
    core::mem::forget(sm);
}
sym_harness!(sym_rollback_1_1, { rollback_body(0, false) });
sym_harness!(sym_rollback_2_1, { rollback_body(2, false) });
sym_harness!(sym_rollback_1_2, { rollback_body(0, true) });
sym_harness!(sym_rollback_2_2, { rollback_body(2, true) });
sym_harness!(sym_rollback_redef_1, { rollback_body(1, false) });

// The same name defined THREE times by successful evaluations (two shadowed slots), then a failed
// evaluation that defines a symbolic name: the roll-back must restore the NEWEST surviving definition.
sym_harness!(sym_rollback_redef_twice, {
    let mut sm = SymbolMap::new();
    let mut g = Ghost { cur: [None; NAMES] };
    let _ = sm.add(&name(1));
    let _ = sm.add(&name(1));
    let s3 = sm.add(&name(1));
    g.cur[0] = Some(s3);
    let offset = sm.len();
    let f1 = any_name();
    let _ = sm.add(&name(f1));
    sm.roll_back(offset);
    kani::cover!(f1 == 1, "failed evaluation redefined the thrice-defined name");
    kani::cover!(f1 == 2, "failed evaluation introduced a new name");
    vassert!(sm.len() == offset, "roll-back left slots of the failed evaluation behind");
    vassert!(agrees(&sm, &g), "after a failed evaluation a name no longer resolves as before it");
    vassert!(live_slots_not_queued(&sm, &g), "after a failed evaluation the slot of a live binding is queued for reclamation");
    core::mem::forget(sm);
});

// Slot recycling: a shadowed slot that the recycler released is handed out again; the binding
// in force for every other name is untouched, and the released slot is given to exactly one
// new binding.
sym_harness!(sym_recycled_slot_reuse, {
    let mut sm = SymbolMap::new();
    let mut g = Ghost { cur: [None; NAMES] };
    let a = any_name();
    let b = any_name();
    kani::assume(a != b);
    let s_a1 = sm.add(&name(a));
    let s_b = sm.add(&name(b));
    let s_a2 = sm.add(&name(a)); // shadows s_a1
    g.cur[a as usize - 1] = Some(s_a2);
    g.cur[b as usize - 1] = Some(s_b);
    vassert!(sm.free_list.shadowed_slots.len() == 1 && sm.free_list.shadowed_slots[0] == s_a1, "shadowed slot not recorded");
    // what GlobalSlotRecycler does with an unreferenced shadowed slot
    let freed = sm.free_list.shadowed_slots.pop().unwrap();
    sm.free_list.free_list.push(freed);
    let c = any_name();
    let s_c = sm.add(&name(c));
    let prev = g.cur[c as usize - 1];
    g.cur[c as usize - 1] = Some(s_c);
    kani::cover!(s_c == freed, "released slot reused");
    vassert!(s_c == freed, "a released slot is not reused by the next definition");
    vassert!(agrees(&sm, &g), "a definition that reused a released slot disturbed another binding");
    let mut i = 0;
    while i < NAMES {
        let mut j = 0;
        while j < NAMES {
            if i != j && g.cur[i].is_some() {
                vassert!(g.cur[i] != g.cur[j], "two names in force share one global slot");
            }
            j += 1;
        }
        i += 1;
    }
    let _ = prev;
    core::mem::forget(sm);
});

// A failed evaluation whose definition consumed a RELEASED slot below the roll-back offset.
sym_harness!(sym_rollback_with_recycled_slot, {
    let mut sm = SymbolMap::new();
    let mut g = Ghost { cur: [None; NAMES] };
    let a: u32 = 1;
    let s_a1 = sm.add(&name(a));
    let s_a2 = sm.add(&name(a));
    g.cur[a as usize - 1] = Some(s_a2);
    let freed = sm.free_list.shadowed_slots.pop().unwrap();
    sm.free_list.free_list.push(freed);
    let _ = s_a1;
    let offset = sm.len();
    let f = any_name();
    let s_f = sm.add(&name(f)); // failed evaluation: takes the released slot (below offset)
    kani::cover!(s_f < offset, "failed definition landed below the roll-back offset");
    sm.roll_back(offset);
    vassert!(agrees(&sm, &g), "after a failed evaluation that reused a released slot, names do not resolve as before");
    core::mem::forget(sm);
});

// masked twin for the listed finding "a failed definition that took a released slot is not undone":
// every OTHER name must still resolve as before
sym_harness!(sym_rollback_with_recycled_slot__kf, {
    let mut sm = SymbolMap::new();
    let mut g = Ghost { cur: [None; NAMES] };
    let a: u32 = 1;
    let _s_a1 = sm.add(&name(a));
    let s_a2 = sm.add(&name(a));
    g.cur[a as usize - 1] = Some(s_a2);
    let freed = sm.free_list.shadowed_slots.pop().unwrap();
    sm.free_list.free_list.push(freed);
    let offset = sm.len();
    let f = any_name();
    let s_f = sm.add(&name(f));
    kani::cover!(s_f < offset, "failed definition landed below the roll-back offset");
    sm.roll_back(offset);
    let mut i = 0;
    while i < NAMES {
        if i as u32 + 1 != f {
            vassert!(lookup(&sm, i as u32 + 1) == g.cur[i], "a failed evaluation that reused a released slot disturbed an unrelated name");
        }
        i += 1;
    }
    core::mem::forget(sm);
});
