"""Run one `cargo kani --harness h` in a scratch workspace and parse the result."""
import os, re, subprocess, time, resource
from concurrent.futures import ThreadPoolExecutor

MEM_LIMIT_KB = int(os.environ.get("VERIF_KANI_MEM_KB", str(26 * 1024 * 1024)))


def _limits():
    os.setsid()
    # address-space limit for cbmc; rustc maps a lot of virtual memory, so keep it generous
    lim = MEM_LIMIT_KB * 1024
    resource.setrlimit(resource.RLIMIT_AS, (lim, lim))


CHECK_RE = re.compile(r"^Check (\d+): (.+)\n\s+- Status: (\w+)\n\s+- Description: \"(.*)\"\n\s+- Location: (.*)$", re.M)


def parse(log):
    """-> dict(status, failed[], covers{desc: status}, n_checks, n_failed, verif_time, reason)"""
    r = {"status": "inconclusive", "failed": [], "covers": {}, "n_checks": 0, "n_failed": 0,
         "verif_time_s": None, "reason": None, "unwind_fail": False}
    checks = CHECK_RE.findall(log)
    for num, name, status, desc, loc in checks:
        desc = desc.strip('"')
        if ".cover." in name:
            if desc.startswith("CEX:"):
                # negation cover of an assertion (counterexample carrier), not a reachability witness
                r.setdefault("cex_covers", {})[desc[4:]] = status
            else:
                r["covers"][desc] = status
            continue
        r["n_checks"] += 1
        if status in ("FAILURE",):
            r["n_failed"] += 1
            item = {"check": name, "desc": desc, "loc": loc.strip()}
            r["failed"].append(item)
            if "unwinding assertion" in desc or ".unwind." in name:
                r["unwind_fail"] = True
        elif status in ("UNDETERMINED", "ERROR"):
            r.setdefault("undetermined", 0)
            r["undetermined"] += 1
    m = re.search(r"Verification Time: ([0-9.]+)s", log)
    if m:
        r["verif_time_s"] = float(m.group(1))
    m = re.search(r"\*\* (\d+) of (\d+) failed", log)
    if m:
        r["summary_failed"], r["summary_total"] = int(m.group(1)), int(m.group(2))
    if "VERIFICATION:- SUCCESSFUL" in log:
        r["status"] = "pass"
    elif "VERIFICATION:- FAILED" in log:
        if "Status: ERROR" in log and not r["failed"]:
            r["reason"] = "cbmc error (out of memory?)"
        elif "Solver ran out of memory" in log or "std::bad_alloc" in log:
            r["reason"] = "solver ran out of memory"
        elif r.get("undetermined") and not [f for f in r["failed"] if "unsupported" not in f["desc"].lower()]:
            r["reason"] = "undetermined checks (unsupported construct reached)"
        elif r["unwind_fail"] and all(("unwinding assertion" in f["desc"] or ".unwind." in f["check"]) for f in r["failed"]):
            r["reason"] = "unwinding assertion failed: bound too small"
        elif r["failed"]:
            unsupported = [f for f in r["failed"] if "is not currently supported by Kani" in f["desc"] or "unsupported" in f["desc"].lower()
                           or "missing_definition" in f["check"] or "unsupported_construct" in f["check"]]
            if unsupported:
                # once an unsupported construct was reached every later check is meaningless
                r["failed"] = [f for f in r["failed"] if f in unsupported]
            real = [f for f in r["failed"] if f not in unsupported and not ("unwinding assertion" in f["desc"])]
            if real:
                r["status"] = "fail"
                r["failed"] = real
            else:
                r["reason"] = "unsupported construct reached"
        else:
            r["reason"] = "FAILED without failed checks"
    else:
        if "error: internal compiler error" in log or "Kani unexpectedly panicked" in log:
            r["reason"] = "kani internal error"
        elif re.search(r"^error(\[E\d+\])?:", log, re.M):
            r["reason"] = "harness does not compile against this tree"
            r["compile_error"] = "\n".join(re.findall(r"^error.*(?:\n\s+-->.*)?", log, re.M)[:6])
        else:
            r["reason"] = "no verdict (timeout / killed)"
    return r


def run(ws, crate, harness, logdir, target_dir, timeout, features=None, extra=None, no_default=False, cfgs=None, modpath=None):
    os.makedirs(logdir, exist_ok=True)
    log = os.path.join(logdir, harness + ".log")
    cmd = ["cargo", "kani", "-p", crate, "-Z", "stubbing", "--harness", (modpath + "::" + harness) if modpath else harness, "--exact",
           "--target-dir", target_dir]
    if no_default:
        cmd += ["--no-default-features"]
    if features:
        cmd += ["--features", features]
    cmd += extra or []
    env = dict(os.environ)
    env["CARGO_NET_OFFLINE"] = "true"
    if cfgs:
        env["RUSTFLAGS"] = (env.get("RUSTFLAGS", "") + " " + " ".join("--cfg " + c for c in cfgs)).strip()
    t0 = time.time()
    with open(log, "w") as f:
        p = subprocess.Popen(cmd, cwd=ws, stdout=f, stderr=subprocess.STDOUT, env=env, preexec_fn=_limits)
        try:
            p.wait(timeout=timeout)
            timed_out = False
        except subprocess.TimeoutExpired:
            timed_out = True
            try:
                os.killpg(p.pid, 9)
            except ProcessLookupError:
                pass
            p.wait()
    wall = time.time() - t0
    text = open(log, errors="replace").read()
    r = parse(text)
    r["harness"] = harness
    r["wall_s"] = round(wall, 2)
    r["log"] = log
    r["cmd"] = " ".join(cmd)
    if timed_out:
        r["status"] = "inconclusive"
        r["reason"] = "timeout after %ds" % timeout
    return r


def run_many(ws, crate, harnesses, logdir, target_root, timeout, slots=4, warm=False, **kw):
    """harnesses: list of names (or (name, extra_args)).  Each slot has its own target dir;
    the first harness warms slot 0 and the others copy nothing (cargo rebuilds per slot)."""
    import queue
    q = queue.Queue()
    for i in range(slots):
        q.put(i)
    out = {}
    harnesses = list(harnesses)
    if warm and slots > 1 and len(harnesses) > 1:
        # build the dependencies once (first harness, slot 0), then clone the target dir
        h0 = harnesses.pop(0)
        name0, extra0 = (h0, None) if isinstance(h0, str) else h0
        r0 = run(ws, crate, name0, logdir, os.path.join(target_root, "t0"), timeout, extra=extra0, **kw)
        out[r0["harness"]] = r0
        for i in range(1, slots):
            dst = os.path.join(target_root, "t%d" % i)
            if not os.path.exists(dst) and os.path.isdir(os.path.join(target_root, "t0")):
                subprocess.run(["cp", "-al", os.path.join(target_root, "t0"), dst])

    def one(h):
        name, extra = (h, None) if isinstance(h, str) else h
        slot = q.get()
        try:
            return run(ws, crate, name, logdir, os.path.join(target_root, "t%d" % slot), timeout, extra=extra, **kw)
        finally:
            q.put(slot)

    with ThreadPoolExecutor(max_workers=slots) as ex:
        for r in ex.map(one, harnesses):
            out[r["harness"]] = r
    return out
