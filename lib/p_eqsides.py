"""E3j (part of C11): the equality handler compares LEFT with RIGHT.

`RecursiveEqualityHandler::visit` pops one value from each of two work lists and compares them arm by arm.  Two facts
about its data flow are read from the MIR of the real function (operands are expanded through their single
definitions until they meet the payload of the popped left (`.0`) or right (`.1`) value, i.e. a down-cast
`((pair.N: SteelVal) as <Kind>)`):

  two-sided   every call and every comparison (`Eq/Ne/Lt/..`) that takes two operands derived from the popped values
              takes one from each side -- `l.contains(key of l)` or `len(l) != len(l)` compares a value with itself;
  sized       every kind whose arm ITERATES over a payload (a sided `iter` / `Iterator::next`) also compares the two
              payloads' lengths (a sided `Ne(len(l), len(r))` of that kind): without it a collection equals every
              collection it is a sub-collection of.

Queries (z3; the call site resp. the kind is the symbolic variable): exists a site with side_a = side_b; exists a kind
with iterates(k) and not compares_length(k); exists a `should_visit` site whose key derives from one side only; exists a path from the (Some, Some) arm
of the pop to a block that answers `true` without going through the pop again.

  verdict     the handler answers `true` only when both work lists are empty: a `return true` inside an arm ends the
              comparison with pairs still waiting.

  visited-key the handler remembers which sub-objects it has already compared (so that shared and cyclic structure is not
              compared again); what it remembers must be the PAIR (left object, right object): a key made from one
              side only makes the second occurrence of a shared sub-object "already compared" whatever it is compared
              with -- `(equal? (list y y) (list a b))` then ignores b.  A sat answer names the kind; the replay evaluates `equal?` on pairs of
values of that kind through the engine, on the values themselves and nested in a list."""
import re, subprocess, time
import mir

RX = re.compile(r"\.([01]): (?:rvals::)?SteelVal\) as (?!Some\b)([A-Z]\w*)\)")
ITER = re.compile(r"(Iterator>::next|::iter|IntoIterator>::into_iter)$")


def _sides(f, a):
    return set(RX.findall(mir.origin(f, a)))


def _one(s):
    sd = {x[0] for x in s}
    if len(sd) == 1:
        return int(next(iter(sd))), sorted({x[1] for x in s})
    return None


def tables(mir_text):
    funcs = mir.parse(mir_text, lambda n: n.endswith("::visit"))
    f = None
    for g in funcs.values():
        if "RecursiveEqualityHandler" in g.args_s:
            f = g
    if f is None:
        raise ValueError("RecursiveEqualityHandler::visit not found in the MIR dump")
    sites, iters, lens = [], set(), set()
    f.visited_sites = []
    f.len_pairs = set()
    for n, b in sorted(f.blocks.items()):
        if b.cleanup:
            continue
        t = b.term
        if t.get("kind") == "call" and t["callee"].endswith("::should_visit"):
            # the key under which a pair of sub-objects is remembered as already compared
            u = set()
            for a in t["args"]:
                u |= _sides(f, a)
            f.visited_sites.append({"bb": n, "sides": sorted({int(x[0]) for x in u}), "kinds": sorted({x[1] for x in u})})
            continue
        if t.get("kind") == "call":
            ss = [_sides(f, a) for a in t["args"]]
            ones = [_one(s) for s in ss if s]
            ones = [o for o in ones if o]
            callee = re.sub(r"<.*?>", "<>", t["callee"])[-70:]
            if len(ones) >= 2 and not ITER.search(t["callee"]) and "push_back" not in t["callee"]:
                sites.append({"bb": n, "what": callee, "a": ones[0][0], "b": ones[1][0], "kinds": sorted(set(ones[0][1] + ones[1][1]))})
            if ITER.search(t["callee"]):
                for s in ss:
                    for sd, k in s:
                        iters.add(k)
        for s in b.stmts:
            m = re.match(r"(_\d+) = (Eq|Ne|Lt|Le|Gt|Ge)\((.*), (.*)\);$", s)
            if not m:
                continue
            sa, sb = _sides(f, m.group(3)), _sides(f, m.group(4))
            oa, ob = _one(sa) if sa else None, _one(sb) if sb else None
            if oa and ob:
                is_len = "::len(" in mir.origin(f, m.group(3)) or "borrow::<usize" in mir.origin(f, m.group(3))
                sites.append({"bb": n, "what": "%s%s" % (m.group(2), " of lengths" if is_len else ""), "a": oa[0], "b": ob[0], "kinds": sorted(set(oa[1] + ob[1]))})
                if is_len and oa[0] != ob[0]:
                    for k in set(oa[1]) & set(ob[1]):
                        lens.add(k)
                    for ka in oa[1]:
                        for kb in ob[1]:
                            f.len_pairs.add((ka, kb) if oa[0] == 0 else (kb, ka))
    return f, sites, iters, lens


def _succs(t):
    if t["kind"] in ("goto", "drop", "call") and "to" in t:
        return [t["to"]]
    if t["kind"] == "switch":
        return [x for _, x in t["targets"]] + ([t["otherwise"]] if t["otherwise"] is not None else [])
    return []


def _verdict_query(f):
    pops = sorted(n for n, b in f.blocks.items() if not b.cleanup and b.term.get("kind") == "call" and b.term["callee"].endswith("::pop_front"))
    if len(pops) < 2:
        raise ValueError("the two pop_front calls of the loop head were not found")
    head = pops[0]
    # decision tree on the two popped Options: follow `Some` (discriminant 1) twice
    x = f.blocks[pops[1]].term["to"]
    for _ in range(2):
        hops = 0
        while f.blocks[x].term["kind"] != "switch" and hops < 4:
            x = f.blocks[x].term.get("to")
            hops += 1
        t = f.blocks[x].term
        if t["kind"] != "switch":
            raise ValueError("pop decision tree not recognised")
        nxt = dict(t["targets"]).get(1)
        if nxt is None:
            raise ValueError("no `Some` arm in the pop decision tree")
        x = nxt
    some_some = x
    trues = sorted(n for n, b in f.blocks.items() if not b.cleanup and any(re.match(r"_0 = const true;", st) for st in b.stmts))
    if not trues:
        raise ValueError("no block answers `true`")
    blocks = sorted(n for n, b in f.blocks.items() if not b.cleanup)
    preds = {}
    for n in blocks:
        if n == head:
            continue
        for d in _succs(f.blocks[n].term):
            preds.setdefault(d, []).append(n)
    lines = ["(set-logic QF_BV)"]
    for n in blocks:
        lines.append("(declare-const r%d Bool)(declare-const d%d (_ BitVec 16))" % (n, n))
    lines.append("(assert r%d)(assert (= d%d (_ bv0 16)))" % (some_some, some_some))
    for n in blocks:
        if n == some_some:
            continue
        alts = ["(and r%d (bvult d%d d%d))" % (q, q, n) for q in preds.get(n, [])]
        lines.append("(assert (=> r%d (or false %s)))" % (n, " ".join(alts)))
    lines.append("(assert (or false %s))" % " ".join("r%d" % n for n in trues))
    lines.append("(check-sat)")
    p = subprocess.run(["z3", "-in", "-T:30"], input="\n".join(lines) + "\n", capture_output=True, text=True)
    first = p.stdout.strip().split("\n")[0] if p.stdout.strip() else "error"
    if "(error" in p.stdout or first not in ("sat", "unsat"):
        first = "error"
    return {"res": first, "true_sites": len(trues), "reached": trues if first == "sat" else []}


def _z3(q):
    """q ends in (check-sat) and optionally a (get-value ..) line, which is only sent when the answer is sat"""
    gv = ""
    m = re.search(r"\(get-value .*\)\n$", q)
    if m:
        gv, q = m.group(0), q[:m.start()]
    p = subprocess.run(["z3", "-in", "-T:30"], input=q, capture_output=True, text=True)
    out = p.stdout.strip().split("\n")
    if not out or out[0] not in ("sat", "unsat") or "(error" in p.stdout:
        return "error", p.stdout
    if out[0] == "sat" and gv:
        p = subprocess.run(["z3", "-in", "-T:30"], input=q + gv, capture_output=True, text=True)
    return out[0], p.stdout


def analyse(mir_text, kinds):
    t0 = time.time()
    f, sites, iters, lens = tables(mir_text)
    res = {"sites": len(sites), "iterating": sorted(iters), "length_compared": sorted(lens), "bad": [], "errors": [], "queries": 0}
    # two-sided: c ranges over the sites
    if sites:
        ta = tb = "(_ bv7 8)"
        for i, s in enumerate(sites):
            ta = "(ite (= c (_ bv%d 16)) (_ bv%d 8) %s)" % (i, s["a"], ta)
            tb = "(ite (= c (_ bv%d 16)) (_ bv%d 8) %s)" % (i, s["b"], tb)
        q = "(set-logic QF_BV)\n(declare-const c (_ BitVec 16))\n(assert (bvult c (_ bv%d 16)))\n(assert (= %s %s))\n(check-sat)\n(get-value (c))\n" % (len(sites), ta, tb)
        r, out = _z3(q)
        res["queries"] += 1
        if r == "sat":
            m = re.search(r"#x([0-9a-f]{4})", out)
            # all of them, for the report
            for s in sites:
                if s["a"] == s["b"]:
                    res["bad"].append({"fact": "two-sided", "site": s})
            if not res["bad"] and m:
                res["errors"].append("solver model names site %d which is two-sided" % int(m.group(1), 16))
        elif r != "unsat":
            res["errors"].append("two-sided: solver error")
    # sized
    idx = {k: i for i, k in enumerate(kinds)}
    it = " ".join("(= k (_ bv%d 8))" % idx[k] for k in iters if k in idx)
    ln = " ".join("(= k (_ bv%d 8))" % idx[k] for k in lens if k in idx)
    q = "(set-logic QF_BV)\n(declare-const k (_ BitVec 8))\n(assert (or false %s))\n(assert (not (or false %s)))\n(check-sat)\n(get-value (k))\n" % (it, ln)
    r, out = _z3(q)
    res["queries"] += 1
    if r == "sat":
        for k in sorted(iters - lens):
            res["bad"].append({"fact": "sized", "kind": k})
    elif r != "unsat":
        res["errors"].append("sized: solver error")
    # sized, vector family: a mutable and an immutable vector are compared with each other in all four combinations; if
    # any combination compares the lengths, all four must
    fam = [k for k in ("VectorV", "MutableVector") if k in idx]
    have = {(a, b) for (a, b) in f.len_pairs if a in fam and b in fam}
    res["vector_length_pairs"] = sorted(have)
    if fam:
        tb = " ".join("(and (= a (_ bv%d 8)) (= b (_ bv%d 8)))" % (idx[x], idx[y]) for x, y in have)
        dom = lambda v: "(or false %s)" % " ".join("(= %s (_ bv%d 8))" % (v, idx[k]) for k in fam)
        q = "(set-logic QF_BV)\n(declare-const a (_ BitVec 8))\n(declare-const b (_ BitVec 8))\n(assert %s)\n(assert %s)\n(assert (not (or false %s)))\n(assert %s)\n(check-sat)\n" % (
            dom("a"), dom("b"), tb, "true" if have else "false")
        r, out = _z3(q)
        res["queries"] += 1
        if r == "sat":
            for x in fam:
                for y in fam:
                    if (x, y) not in have:
                        res["bad"].append({"fact": "sized", "kind": "%s+%s" % (x, y)})
        elif r != "unsat":
            res["errors"].append("sized (vector family): solver error")
    # visited-key: v ranges over the should_visit sites; side mask 1 = left only, 2 = right only, 3 = both
    vs = f.visited_sites
    res["visited_sites"] = len(vs)
    if vs:
        tm = "(_ bv3 8)"
        for i, v in enumerate(vs):
            mask = (1 if 0 in v["sides"] else 0) | (2 if 1 in v["sides"] else 0)
            tm = "(ite (= v (_ bv%d 16)) (_ bv%d 8) %s)" % (i, mask, tm)
        q = "(set-logic QF_BV)\n(declare-const v (_ BitVec 16))\n(assert (bvult v (_ bv%d 16)))\n(assert (distinct %s (_ bv3 8)))\n(check-sat)\n" % (len(vs), tm)
        r, out = _z3(q)
        res["queries"] += 1
        if r == "sat":
            ks = sorted({k for v in vs if len(v["sides"]) < 2 for k in v["kinds"]})
            res["bad"].append({"fact": "visited-key", "kinds": ks, "sites": len([v for v in vs if len(v["sides"]) < 2])})
        elif r != "unsat":
            res["errors"].append("visited-key: solver error")
    # verdict: `true` is answered only when both work lists are empty -- no block that sets the result to `true` is
    # reachable from the (Some, Some) arm of the pop without going round the loop (through the pop) again
    try:
        v = _verdict_query(f)
        res["queries"] += 1
        res["true_sites"] = v["true_sites"]
        if v["res"] == "sat":
            res["bad"].append({"fact": "verdict", "blocks": v["reached"]})
        elif v["res"] != "unsat":
            res["errors"].append("verdict: solver error")
    except ValueError as ex:
        res["errors"].append("verdict: %s" % ex)
    res["dt"] = time.time() - t0
    res["site_list"] = [(s["bb"], s["what"], s["a"], s["b"], s["kinds"]) for s in sites]
    return res


# pairs (A, B, expected answer of (equal? A B)) per kind, for the native replay
DAG_PAIRS = [  # ys-* are globals defined by the replay: (list 1 2), (immutable-vector 1 2), (cons 1 2), (hash 1 2), (vector 1 2)
    ("(list ys-list ys-list)", "(list (list 1 2) (list 9 9))", False),
    ("(list (list 1 2) (list 9 9))", "(list ys-list ys-list)", False),
    ("(list (list 9 9) (list 1 2))", "(list ys-list ys-list)", False),
    ("(list ys-list ys-list)", "(list (list 1 2) (list 1 2))", True),
    ("(cons ys-pair ys-pair)", "(cons (cons 1 2) (cons 9 9))", False),
    ("(cons (cons 1 2) (cons 9 9))", "(cons ys-pair ys-pair)", False),
    ("(immutable-vector ys-vec ys-vec)", "(immutable-vector (immutable-vector 1 2) (immutable-vector 9 9))", False),
    ("(immutable-vector (immutable-vector 1 2) (immutable-vector 9 9))", "(immutable-vector ys-vec ys-vec)", False),
    ("(immutable-vector ys-vec ys-vec)", "(immutable-vector (immutable-vector 1 2) (immutable-vector 1 2))", True),
    ("(list ys-vec ys-vec)", "(list (immutable-vector 1 2) (immutable-vector 1 2))", True),
    ("(list ys-hash ys-hash)", "(list (hash 1 2) (hash 1 3))", False),
    ("(list ys-hash ys-hash)", "(list (hash 1 2) (hash 1 2))", True),
    ("(list ys-mvec ys-mvec)", "(list (vector 1 2) (vector 1 3))", False),
    ("(list ys-mvec ys-mvec)", "(list (vector 1 2) (vector 1 2))", True),
    ("(list ys-list ys-list)", "(list ys-list ys-list)", True),
]

EARLY_PAIRS = [  # an object met through the pointer short-cut, then a differing element (both orders: the work list is a stack)
    ("(list ys-hash 1)", "(list ys-hash 2)", False), ("(list 1 ys-hash)", "(list 2 ys-hash)", False),
    ("(list ys-vec 1)", "(list ys-vec 2)", False), ("(list 1 ys-vec)", "(list 2 ys-vec)", False),
    ("(list ys-list 1)", "(list ys-list 2)", False), ("(list 1 ys-list)", "(list 2 ys-list)", False),
    ("(list ys-pair 1)", "(list ys-pair 2)", False), ("(list 1 ys-pair)", "(list 2 ys-pair)", False),
    ("(list ys-mvec 1)", "(list ys-mvec 2)", False), ("(list 1 ys-mvec)", "(list 2 ys-mvec)", False),
    ("(list (hashset 1) 1)", "(list (hashset 1) 2)", False), ("(list \"s\" 1)", "(list \"s\" 2)", False),
    ("(list ys-hash 1)", "(list ys-hash 1)", True),
]

PAIRS = {
    # without a length comparison a flat mismatch is still caught when the work lists drain unevenly; nested vectors whose
    # leaves flatten to the same sequence re-align the lists
    "VectorV+MutableVector": [("(immutable-vector 1 2)", "(vector 1 2 3)", False), ("(immutable-vector 1 2 3)", "(vector 1 2)", False), ("(immutable-vector 1 2)", "(vector 1 2)", True),
                              ("(immutable-vector (immutable-vector 1 2) 3)", "(vector 1 (vector 2) 3)", False), ("(immutable-vector 1 (immutable-vector))", "(vector (vector 1))", False),
                              ("(immutable-vector (immutable-vector 1) 2 3)", "(vector (vector 1 2) 3)", False)],
    "MutableVector+VectorV": [("(vector 1 2)", "(immutable-vector 1 2 3)", False), ("(vector 1 2 3)", "(immutable-vector 1 2)", False), ("(vector 1 2)", "(immutable-vector 1 2)", True),
                              ("(vector 1 (vector 2) 3)", "(immutable-vector (immutable-vector 1 2) 3)", False), ("(vector (vector 1))", "(immutable-vector 1 (immutable-vector))", False),
                              ("(vector (vector 1 2) 3)", "(immutable-vector (immutable-vector 1) 2 3)", False)],
    "VectorV+VectorV": [("(immutable-vector 1 2)", "(immutable-vector 1 2 3)", False), ("(immutable-vector 1 2 3)", "(immutable-vector 1 2)", False),
                        ("(immutable-vector (immutable-vector 1 2) 3)", "(immutable-vector 1 (immutable-vector 2) 3)", False)],
    "MutableVector+MutableVector": [("(vector 1 2)", "(vector 1 2 3)", False), ("(vector 1 2 3)", "(vector 1 2)", False), ("(vector (vector 1 2) 3)", "(vector 1 (vector 2) 3)", False)],
    "HashSetV": [("(hashset 1 2)", "(hashset 3 4)", False), ("(hashset 1 2)", "(hashset 2 1)", True), ("(hashset 1 2)", "(hashset 1 2 3)", False), ("(hashset 1 2 3)", "(hashset 1 2)", False)],
    "HashMapV": [("(hash 1 2)", "(hash 1 2 3 4)", False), ("(hash 1 2 3 4)", "(hash 1 2)", False), ("(hash 1 2)", "(hash 1 3)", False), ("(hash 1 2)", "(hash 3 2)", False), ("(hash 1 2 3 4)", "(hash 3 4 1 2)", True)],
    "ListV": [("(list 1 2)", "(list 1 2 3)", False), ("(list 1 2 3)", "(list 1 2)", False), ("(list 1 2)", "(list 1 3)", False), ("(list 1 2)", "(list 1 2)", True)],
    "VectorV": [("(immutable-vector 1 2)", "(immutable-vector 1 2 3)", False), ("(immutable-vector 1 2 3)", "(immutable-vector 1 2)", False), ("(immutable-vector 1 2)", "(immutable-vector 1 3)", False), ("(immutable-vector 1 2)", "(immutable-vector 1 2)", True)],
    "MutableVector": [("(vector 1 2)", "(vector 1 2 3)", False), ("(vector 1 2 3)", "(vector 1 2)", False), ("(vector 1 2)", "(vector 1 3)", False), ("(vector 1 2)", "(vector 1 2)", True)],
    "Pair": [("(cons 1 2)", "(cons 1 3)", False), ("(cons 1 2)", "(cons 3 2)", False), ("(cons 1 2)", "(cons 1 2)", True)],
    "StringV": [("\"ab\"", "\"ac\"", False), ("\"ab\"", "\"ab\"", True)],
    "SymbolV": [("'ab", "'ac", False), ("'ab", "'ab", True)],
    "ByteVector": [("(bytes 1 2)", "(bytes 1 3)", False), ("(bytes 1 2)", "(bytes 1 2)", True)],
    "Rational": [("1/2", "1/3", False), ("1/2", "1/2", True)],
    "BigNum": [("(expt 10 30)", "(+ 1 (expt 10 30))", False), ("(expt 10 30)", "(expt 10 30)", True)],
    "IntV": [("1", "2", False), ("1", "1", True)],
    "NumV": [("1.5", "2.5", False), ("1.5", "1.5", True)],
    "CharV": [("#\\a", "#\\b", False), ("#\\a", "#\\a", True)],
    "BoolV": [("#t", "#f", False), ("#t", "#t", True)],
    "Complex": [("(make-rectangular 1 2)", "(make-rectangular 1 3)", False), ("(make-rectangular 1 2)", "(make-rectangular 1 2)", True)],
    "BigRational": [("(/ 1 (expt 10 30))", "(/ 2 (expt 10 30))", False)],
}
