"""Reader for rustc's `-Zunpretty=mir` text: functions, basic blocks, terminators, and a
definition-chain ("origin") resolver used to recognise which shared object a call touches."""
import re

FN_RE = re.compile(r"^fn (.+?)\((.*)\) -> (.+) \{$")
BB_RE = re.compile(r"^    bb(\d+)( \(cleanup\))?: \{$")
LOCAL_RE = re.compile(r"^\s+let (?:mut )?(_\d+): (.+);$")


class Block:
    __slots__ = ("n", "stmts", "term", "cleanup")

    def __init__(self, n, cleanup):
        self.n, self.stmts, self.term, self.cleanup = n, [], None, cleanup


class Func:
    def __init__(self, name, args, ret):
        self.name, self.args_s, self.ret = name, args, ret
        self.locals = {}
        self.blocks = {}
        self.defs = {}
        for m in re.finditer(r"(_\d+): ", args):
            pass
        # argument types
        self.argtypes = {}
        depth = 0
        cur = ""
        parts = []
        for ch in args:
            if ch in "<([{":
                depth += 1
            elif ch in ">)]}":
                depth -= 1
            if ch == "," and depth == 0:
                parts.append(cur)
                cur = ""
            else:
                cur += ch
        if cur.strip():
            parts.append(cur)
        for p in parts:
            m = re.match(r"\s*(_\d+): (.*)$", p.strip(), re.S)
            if m:
                self.argtypes[m.group(1)] = m.group(2)

    def type_of(self, local):
        return self.locals.get(local) or self.argtypes.get(local) or "?"


def parse(text, want=None):
    """-> dict name -> Func.  `want`: optional predicate on the function name (saves time)."""
    funcs = {}
    cur = None
    blk = None
    for line in text.split("\n"):
        if cur is None:
            m = FN_RE.match(line)
            if m:
                name = m.group(1)
                if want is None or want(name):
                    cur = Func(name, m.group(2), m.group(3))
                    # macro-generated impls share one source span and hence one printed name
                    key, k = name, 1
                    while key in funcs:
                        k += 1
                        key = "%s #%d" % (name, k)
                    funcs[key] = cur
            continue
        if line == "}":
            _finish(cur)
            cur = None
            blk = None
            continue
        m = BB_RE.match(line)
        if m:
            blk = Block(int(m.group(1)), bool(m.group(2)))
            cur.blocks[blk.n] = blk
            continue
        if blk is None:
            m = LOCAL_RE.match(line)
            if m:
                cur.locals[m.group(1)] = m.group(2)
            continue
        s = line.strip()
        if s == "}":
            blk = None
            continue
        if s:
            blk.stmts.append(s)
    return funcs


def _split_top(s, sep=","):
    out, cur, depth = [], "", 0
    for ch in s:
        if ch in "<([{":
            depth += 1
        elif ch in ">)]}":
            depth -= 1
        if ch == sep and depth == 0:
            out.append(cur.strip())
            cur = ""
        else:
            cur += ch
    if cur.strip():
        out.append(cur.strip())
    return out


def _split_call(s):
    """'dest = callee(args)' -> (dest|None, callee, args).  The callee ends at the first '(' that
    is outside every <...> (generic arguments may contain parentheses and '->')."""
    dest = None
    m = re.match(r"(\S+|\(\*_\d+\)|\(.*?\)) = (.*)$", s, re.S)
    if m and not m.group(1).startswith("<"):
        dest, s = m.group(1), m.group(2)
    depth = 0
    for i, ch in enumerate(s):
        if ch == "<":
            depth += 1
        elif ch == ">" and not (i > 0 and s[i - 1] == "-"):
            depth -= 1
        elif ch == "(" and depth == 0:
            if not s.endswith(")"):
                return None
            return dest, s[:i], s[i + 1:-1]
    return None


TARGETS_RE = re.compile(r"\s*-> \[(.*)\];$")


def parse_term(t):
    """-> dict(kind=...)"""
    if t.startswith("goto -> bb"):
        return {"kind": "goto", "to": int(t[len("goto -> bb"):-1])}
    if t == "return;":
        return {"kind": "return"}
    if t in ("unreachable;", "resume;") or t.startswith("resume") or t.startswith("terminate") or t.startswith("unwind terminate"):
        return {"kind": "dead"}
    m = re.match(r"switchInt\((?:move |copy )?(.+?)\) -> \[(.*)\];$", t)
    if m:
        tg = []
        other = None
        for part in _split_top(m.group(2)):
            k, v = part.split(": bb")
            if k.strip() == "otherwise":
                other = int(v)
            else:
                tg.append((int(k.strip().split("_")[0]), int(v)))
        return {"kind": "switch", "on": m.group(1), "targets": tg, "otherwise": other}
    m = re.match(r"drop\((.+?)\) -> \[return: bb(\d+), .*\];$", t)
    if m:
        return {"kind": "drop", "place": m.group(1), "to": int(m.group(2))}
    m = re.match(r"assert\((!?)(?:move |copy )?(_\d+), \"((?:[^\"\\]|\\.)*)\".*\) -> \[success: bb(\d+), .*\];$", t)
    if m:
        return {"kind": "goto", "to": int(m.group(4)), "assert": m.group(2), "negated": bool(m.group(1)), "msg": m.group(3)}
    m = re.match(r"assert\(.*\) -> \[success: bb(\d+), .*\];$", t)
    if m:
        return {"kind": "goto", "to": int(m.group(1))}
    m = re.match(r"(.*) -> \[return: bb(\d+), .*\];$", t, re.S)
    if m:
        c = _split_call(m.group(1))
        if c:
            return {"kind": "call", "dest": c[0], "callee": c[1], "args": _split_top(c[2]), "to": int(m.group(2))}
    m = re.match(r"(.*) -> (?:unwind .*|\[unwind.*\]);$", t, re.S)
    if m:  # diverging call
        c = _split_call(m.group(1))
        if c:
            return {"kind": "dead", "callee": c[1]}
    m = re.match(r"(?:falseEdge|falseUnwind) -> \[real: bb(\d+), .*\];$", t)
    if m:
        return {"kind": "goto", "to": int(m.group(1))}
    return {"kind": "unknown", "raw": t}


def _finish(fn):
    for b in fn.blocks.values():
        if not b.stmts:
            b.term = {"kind": "dead"}
            continue
        b.term = parse_term(b.stmts[-1])
        b.stmts = b.stmts[:-1]
        for s in b.stmts:
            m = re.match(r"(_\d+) = (.*);$", s)
            if m:
                fn.defs.setdefault(m.group(1), []).append(m.group(2))
        if b.term["kind"] == "call" and b.term.get("dest") and re.fullmatch(r"_\d+", b.term["dest"]):
            fn.defs.setdefault(b.term["dest"], []).append("%s(%s)" % (b.term["callee"], ", ".join(b.term["args"])))


def origin(fn, expr, depth=0, seen=None):
    """Textually expand the locals in `expr` by their (single) definitions."""
    if depth > 12:
        return expr
    seen = seen or set()

    def sub(m):
        l = m.group(0)
        if l in fn.argtypes or l in seen:
            return l
        ds = fn.defs.get(l)
        if not ds or len(set(ds)) != 1:
            return l
        return "(" + origin(fn, ds[0], depth + 1, seen | {l}) + ")"

    return re.sub(r"_\d+\b", sub, expr)
