"""E3 (part of C20): "a registered host function is invoked only with the arity it declares".

The wrapper closures that `register_fn` builds are loop-free; their MIR is read from the same
dump E2 uses.  For every wrapper, every control-flow path from entry to the call of the host
function (`<FN as Fn<(..)>>::call`) is collected together with the branch conditions that
depend on the number of script arguments (`PtrMetadata(args)`, `args.is_empty()`).  One SMT
query per wrapper (bit-vectors, z3): can two DIFFERENT argument counts both reach the host call?
unsat = the count is pinned to a single value on every path."""
import re, subprocess, time
import mir

OPS = {"Ne": "distinct", "Eq": "=", "Lt": "bvult", "Le": "bvule", "Gt": "bvugt", "Ge": "bvuge"}


def wrappers(funcs):
    out = []
    for key, f in funcs.items():
        n = f.name
        if "register_fn" not in n or not n.endswith("{closure#0}") or n.count("{closure") != 1:
            continue
        if "&[rvals::SteelVal]" not in f.argtypes.get("_2", "") and "&[SteelVal]" not in f.argtypes.get("_2", ""):
            continue
        calls = [b.n for b in f.blocks.values() if b.term["kind"] == "call" and re.match(r"<FN as Fn(Mut|Once)?<", b.term["callee"])]
        if calls:
            out.append((key, f, calls))
    return out


def cond_of(f, on, value):
    """SMT condition for `switch operand == value` (value None = otherwise); None if the operand
    does not depend on the argument count."""
    o = mir.origin(f, on)
    m = re.match(r"^\(*(Ne|Eq|Lt|Le|Gt|Ge)\((?:move |copy )?\(*PtrMetadata\(copy _2\)\)*, const (\d+)_usize\)+$", o)
    if m:
        rel = "(%s len (_ bv%d 64))" % (OPS[m.group(1)], int(m.group(2)))
        return rel, o
    m = re.match(r"^\(*(Ne|Eq|Lt|Le|Gt|Ge)\(const (\d+)_usize, (?:move |copy )?\(*PtrMetadata\(copy _2\)\)*\)+$", o)
    if m:
        rel = "(%s (_ bv%d 64) len)" % (OPS[m.group(1)], int(m.group(2)))
        return rel, o
    if re.match(r"^\(*core::slice::<impl \[rvals::SteelVal\]>::is_empty\(copy _2\)\)*$", o):
        return "(= len (_ bv0 64))", o
    if "PtrMetadata(copy _2)" in o or "is_empty(copy _2)" in o or "Len(" in o:
        raise ValueError("argument-count expression not understood: " + o[:200])
    return None, o


def paths_to(f, target, limit=4000):
    """all acyclic paths bb0 -> target as lists of (cond or None)"""
    res = []
    stack = [(0, [], frozenset())]
    while stack:
        bb, conds, seen = stack.pop()
        if bb == target:
            res.append(conds)
            if len(res) > limit:
                raise ValueError("too many paths")
            continue
        if bb in seen:
            raise ValueError("loop in wrapper closure")
        b = f.blocks[bb]
        if b.cleanup:
            continue
        t = b.term
        seen2 = seen | {bb}
        if t["kind"] in ("goto", "drop", "call"):
            if "to" in t:
                stack.append((t["to"], conds, seen2))
        elif t["kind"] == "switch":
            rel, _ = cond_of(f, t["on"], None)
            vals = []
            for v, tgt in t["targets"]:
                c = None
                if rel is not None:
                    c = rel if v != 0 else "(not %s)" % rel
                    if v not in (0, 1):
                        raise ValueError("non-boolean switch on argument count")
                vals.append(v)
                stack.append((tgt, conds + ([c] if c else []), seen2))
            if t["otherwise"] is not None:
                c = None
                if rel is not None:
                    # otherwise = none of the listed values
                    c = "(and %s)" % " ".join(("(not %s)" % rel) if v == 1 else rel for v in vals) if vals else None
                stack.append((t["otherwise"], conds + ([c] if c else []), seen2))
    return res


def reach_formula(f, calls, var):
    alts = []
    for c in calls:
        for conds in paths_to(f, c):
            alts.append("(and true %s)" % " ".join(conds))
    return ("(or false %s)" % " ".join(alts)).replace("len", var)


def check_wrapper(name, f, calls, timeout=60):
    t0 = time.time()
    p1 = reach_formula(f, calls, "len1")
    p2 = reach_formula(f, calls, "len2")
    base = "(set-logic QF_BV)\n(declare-const len1 (_ BitVec 64))\n(declare-const len2 (_ BitVec 64))\n" \
           "(assert %s)\n(assert %s)\n(assert (distinct len1 len2))\n" % (p1, p2)
    tail = "(check-sat)\n(get-value (len1 len2))\n"
    # the verdict comes from the unrestricted query; a second, small-scope query only picks a
    # counterexample that a script can actually write down
    q = base + tail
    p = subprocess.run(["z3", "-in", "-T:%d" % timeout], input=q, capture_output=True, text=True)
    if p.stdout.strip().startswith("sat"):
        small = base + "(assert (bvule len1 (_ bv8 64)))\n(assert (bvule len2 (_ bv8 64)))\n" + tail
        p2_ = subprocess.run(["z3", "-in", "-T:%d" % timeout], input=small, capture_output=True, text=True)
        if p2_.stdout.strip().startswith("sat"):
            p = p2_
    out = p.stdout.strip().split("\n")
    res = out[0] if out else "unknown"
    vals = [int(x, 16) for x in re.findall(r"#x([0-9a-f]{16})", p.stdout)]
    m = re.search(r"Fn(?:Mut|Once)?<\((.*)\)>>::call", f.blocks[calls[0]].term["callee"])
    nparams = 0
    if m and m.group(1).strip():
        nparams = len(mir._split_top(m.group(1)))
    return {"name": name, "res": res if res in ("sat", "unsat") else "error", "lens": vals, "dt": time.time() - t0,
            "host_params": nparams, "smt": q}


def mapping(f, calls):
    """-> (number of host parameters, list per parameter of the argument indices its value is computed
    from), read off the tuple operand of the host call `<FN as Fn<(A, B, ..)>>::call(f, (a, b, ..))`;
    None if the operand is not a tuple built in this closure (zero-parameter wrappers)."""
    t = f.blocks[calls[0]].term
    m = re.search(r"Fn(?:Mut|Once)?<\((.*)\)>>::call", t["callee"])
    n = len(mir._split_top(m.group(1))) if m and m.group(1).strip() else 0
    if n == 0:
        return 0, []
    tup = t["args"][1].replace("move ", "").strip() if len(t["args"]) > 1 else ""
    ds = f.defs.get(tup)
    if not ds or len(ds) != 1 or not (ds[0].startswith("(") and ds[0].endswith(")")):
        raise ValueError("host-call operand is not a tuple built in the closure: %s" % (ds and ds[0][:80]))
    fields = mir._split_top(ds[0][1:-1])
    if len(fields) != n:
        raise ValueError("host call has %d parameters but the operand tuple has %d fields" % (n, len(fields)))
    out = []
    for fl in fields:
        o = mir.origin(f, fl)
        out.append(sorted(set(int(x) for x in re.findall(r"\(\*_2\)\[\(?const (\d+)_usize\)?\]", o))))
    return n, out


def check_mapping(name, f, calls, timeout=30):
    """One query per wrapper: is there a parameter position k whose value is computed from an argument
    other than args[k] (or from none / several)?  The source table is read from the MIR; z3 decides."""
    t0 = time.time()
    n, src = mapping(f, calls)
    if n == 0:
        return {"name": name, "res": "unsat", "n": 0, "dt": 0.0}
    # src(k): the single argument index parameter k is computed from; 255 = none or several
    tbl = "(_ bv255 8)"
    for k in range(n - 1, -1, -1):
        v = src[k][0] if len(src[k]) == 1 else 255
        tbl = "(ite (= k (_ bv%d 8)) (_ bv%d 8) %s)" % (k, v, tbl)
    q = "(set-logic QF_BV)\n(declare-const k (_ BitVec 8))\n(assert (bvult k (_ bv%d 8)))\n(assert (distinct %s k))\n(check-sat)\n" % (n, tbl)
    p = subprocess.run(["z3", "-in", "-T:%d" % timeout], input=q, capture_output=True, text=True)
    if p.stdout.strip().startswith("sat"):
        p = subprocess.run(["z3", "-in", "-T:%d" % timeout], input=q + "(get-value (k))\n", capture_output=True, text=True)
    out = p.stdout.strip().split("\n")
    res = out[0] if out and out[0] in ("sat", "unsat") and "(error" not in p.stdout else "error"
    k = None
    if res == "sat":
        m = re.search(r"#x([0-9a-f]{2})", p.stdout)
        k = int(m.group(1), 16) if m else None
    return {"name": name, "res": res, "n": n, "k": k, "src": src, "dt": time.time() - t0}
