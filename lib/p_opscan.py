"""E3f (part of C06): the slot recycler scans every opcode through which compiled code reaches a global slot.

`GlobalSlotRecycler::visit_closure` walks a function's bytecode and keeps (removes from the candidate set) the slot
named by the payload of the opcodes it lists.  If the interpreter reaches the global table through an opcode that is
not on that list, a function compiled earlier can keep using a slot the recycler has handed to another definition.

Two tables, both read from the MIR of the real functions:

  vm_global(op)   the arm of the dispatch `switchInt(discriminant(instr.op_code))` in `VmCore::vm` for opcode `op`
                  (the blocks reachable from the arm's target without passing the dispatch block again) contains a
                  call of a GLOBAL ACCESSOR: a function whose own MIR -- or that of its closures -- calls
                  `Env::repl_lookup_idx / repl_maybe_lookup_idx / repl_set_idx / repl_define_idx` or
                  `SharedVectorWrapper::set_idx` (these are found by name; which VmCore methods use them is derived)
  scanned(op)     the recycler's `switchInt` on the opcode in `visit_closure` sends `op` to the arm that removes the
                  payload from the candidate set

Query (z3, the opcode is the symbolic variable): exists op with vm_global(op) and not scanned(op)."""
import re, subprocess, time
import mir

ACCESS = re.compile(r"(^|::)(Env::(repl_lookup_idx|repl_maybe_lookup_idx|repl_set_idx|repl_define_idx)|SharedVectorWrapper::set_idx)(::<.*>)?$")


def opcodes(opcode_src):
    m = re.search(r"declare_opcodes!\s*\{\s*\{(.*?)\}\s*\}", opcode_src, re.S)
    names = []
    for part in m.group(1).split(";"):
        part = re.sub(r"//[^\n]*", "", part).strip()
        if re.fullmatch(r"[A-Za-z][A-Za-z0-9_]*", part):
            names.append(part)
    return names


def _succ(t):
    if t["kind"] in ("goto", "drop", "call") and "to" in t:
        return [t["to"]]
    if t["kind"] == "switch":
        return [x for _, x in t["targets"]] + ([t["otherwise"]] if t["otherwise"] is not None else [])
    return []


def _region(f, start, stop):
    seen, st = set(), [start]
    while st:
        x = st.pop()
        if x in seen or x == stop or x not in f.blocks or f.blocks[x].cleanup:
            continue
        seen.add(x)
        st.extend(_succ(f.blocks[x].term))
    return seen


def _dispatch(f):
    best = None
    for b in f.blocks.values():
        t = b.term
        if t.get("kind") != "switch":
            continue
        on = re.sub(r"^(move|copy)\s+", "", t["on"].strip())
        if any(re.match(r"%s = discriminant\(.*OpCode.*\);$" % re.escape(on), s) for s in b.stmts):
            if best is None or len(t["targets"]) > len(best[1]["targets"]):
                best = (b, t)
    return best


def _own_payload(f, expr, instr, depth=0):
    """does `expr` derive from the payload field of the dispatched instruction (local `instr`) without going through
    another load from the instruction stream?"""
    if re.search(r"\(%s\.1: " % re.escape(instr), expr):
        return True
    if depth > 6:
        return False
    for l in set(re.findall(r"_\d+\b", expr)):
        if l == instr or l in f.argtypes:
            continue
        ds = f.defs.get(l)
        if not ds or len(set(ds)) != 1:
            continue
        d = ds[0]
        if re.search(r"\(\*_\d+\)\[_\d+\]", d):      # a fresh load `(*slice)[i]`: another instruction
            continue
        if _own_payload(f, d, instr, depth + 1):
            return True
    return False


def _calls(f, blocks):
    out = set()
    for x in blocks:
        t = f.blocks[x].term
        if t.get("kind") == "call":
            out.add(t["callee"].strip())
    return out


def _short(callee):
    """`vm::VmCore::<'_>::handle_set` -> `handle_set`; closures keep their parent's name"""
    c = re.sub(r"::<[^>]*>", "", callee)
    return c.split("::")[-1]


def analyse(mir_text, opcode_src):
    ops = opcodes(opcode_src)
    funcs = mir.parse(mir_text, lambda n: True)
    vm = rec = None
    for key, f in funcs.items():
        if re.search(r"vm\.rs:[0-9: ]+>::vm$", f.name) and "VmCore" in f.args_s:
            vm = f
        if f.name.endswith("::visit_closure") and "GlobalSlotRecycler" in f.args_s:
            rec = f
    if vm is None or rec is None:
        raise ValueError("VmCore::vm or GlobalSlotRecycler::visit_closure not found in the MIR dump")
    # global accessors: functions (with their closures) that call the Env accessors directly
    direct = set()
    for key, f in funcs.items():
        for b in f.blocks.values():
            t = b.term
            if not b.cleanup and t.get("kind") == "call" and ACCESS.search(re.sub(r"::<[^>]*>", "", t["callee"].strip())):
                base = re.sub(r"(::\{closure#\d+\})+$", "", f.name)
                direct.add(base.split("::")[-1])
    direct -= {"vm"}
    # one more level: VmCore / SteelThread methods that call a direct accessor (handle_call_global -> ...)
    level2 = set(direct)
    for key, f in funcs.items():
        nm = re.sub(r"(::\{closure#\d+\})+$", "", f.name).split("::")[-1]
        if nm in level2 or nm == "vm":
            continue
        if not re.search(r"VmCore|SteelThread", f.args_s):
            continue
        for b in f.blocks.values():
            t = b.term
            if not b.cleanup and t.get("kind") == "call" and _short(t["callee"].strip()) in direct:
                level2.add(nm)
    db, dt = _dispatch(vm)
    if dt is None:
        raise ValueError("opcode dispatch not found in VmCore::vm")
    tg = dict(dt["targets"])
    on = re.sub(r"^(move|copy)\s+", "", dt["on"].strip())
    instr = None
    for st in db.stmts:
        m = re.match(r"%s = discriminant\(\((_\d+)\.0: .*OpCode\)\);$" % re.escape(on), st)
        if m:
            instr = m.group(1)
    if instr is None:
        raise ValueError("the dispatched instruction's local was not recognised")
    vm_global, via = {}, {}
    for k, op in enumerate(ops):
        start = tg.get(k, dt["otherwise"])
        if start is None or (k not in tg):
            vm_global[k] = 0       # no arm of its own (falls into the catch-all)
            continue
        reg = _region(vm, start, db.n)
        hit = []
        for x in reg:
            t = vm.blocks[x].term
            if t.get("kind") != "call":
                continue
            callee = t["callee"].strip()
            if not (_short(callee) in level2 or ACCESS.search(re.sub(r"::<[^>]*>", "", callee))):
                continue
            # the slot index handed to the accessor must be THIS instruction's payload (super-instructions such as
            # READLOCAL0CALLGLOBAL take it from the following CALLGLOBAL instruction, which stays in the stream)
            own = any(_own_payload(vm, a, instr) for a in t["args"][1:3])
            if own:
                hit.append(_short(callee))
        vm_global[k] = 1 if hit else 0
        via[k] = sorted(set(hit))
    rb, rt = _dispatch(rec)
    if rt is None:
        raise ValueError("opcode switch not found in GlobalSlotRecycler::visit_closure")
    rtg = dict(rt["targets"])
    scanned = {}
    for k, op in enumerate(ops):
        start = rtg.get(k, rt["otherwise"])
        reg = _region(rec, start, rb.n) if start is not None else set()
        calls = _calls(rec, reg)
        scanned[k] = 1 if any(re.search(r"HashSet::<.*>::remove", c) or c.endswith("::remove") for c in calls) else 0
    n = len(ops)
    w = 16

    def tbl(t):
        e = "(_ bv0 %d)" % w
        for k in sorted(t, reverse=True):
            if t[k]:
                e = "(ite (= op (_ bv%d %d)) (_ bv1 %d) %s)" % (k, w, w, e)
        return e
    q = "(set-logic QF_BV)\n(declare-const op (_ BitVec %d))\n(assert (bvult op (_ bv%d %d)))\n" % (w, n, w)
    q += "(assert (= %s (_ bv1 %d)))\n(assert (= %s (_ bv0 %d)))\n(check-sat)\n" % (tbl(vm_global), w, tbl(scanned), w)
    t0 = time.time()
    p = subprocess.run(["z3", "-in", "-T:30"], input=q, capture_output=True, text=True)
    res = p.stdout.strip().split("\n")[0] if p.stdout.strip() else "error"
    if "(error" in p.stdout or res not in ("sat", "unsat"):
        res = "error"
    k = None
    if res == "sat":
        p = subprocess.run(["z3", "-in", "-T:30"], input=q + "(get-value (op))\n", capture_output=True, text=True)
        m = re.search(r"#x([0-9a-f]{4})", p.stdout)
        k = int(m.group(1), 16) if m else None
    missing = [ops[i] for i in range(n) if vm_global[i] and not scanned[i]]
    return {"res": res, "op": ops[k] if k is not None else None, "via": via.get(k) if k is not None else None,
            "vm_global": [ops[i] for i in range(n) if vm_global[i]], "scanned": [ops[i] for i in range(n) if scanned[i]],
            "missing": missing, "accessors": sorted(level2), "opcodes": n, "dt": time.time() - t0}
