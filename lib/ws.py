"""Scratch-workspace preparation: a fresh copy of /repo/crates (the working tree,
not HEAD) plus harness modules textually included into the copy.  Nothing under
/repo is written."""
import os, re, shutil, subprocess, sys, atexit, signal

REPO = os.environ.get("VERIF_REPO", "/repo")
VERIF = os.path.dirname(os.path.dirname(os.path.abspath(__file__)))
SCRATCH_ROOT = os.environ.get("VERIF_SCRATCH", "/var/tmp")

FEATURES = "std,sync,biased,imbl,rooted-instructions"

_scratch = None


def scratch():
    """Per-process scratch dir, removed at exit (also on SIGTERM/SIGINT)."""
    global _scratch
    if _scratch is None:
        _scratch = os.path.join(SCRATCH_ROOT, "steel-verif.%d" % os.getpid())
        shutil.rmtree(_scratch, ignore_errors=True)
        os.makedirs(_scratch)
        if not os.environ.get("VERIF_KEEP"):
            atexit.register(cleanup)

            def _sig(signum, frame):
                cleanup()
                os._exit(130)

            signal.signal(signal.SIGTERM, _sig)
            signal.signal(signal.SIGINT, _sig)
    return _scratch


def cleanup():
    global _scratch
    if _scratch and os.path.isdir(_scratch):
        # kill any children still using it
        subprocess.run(["pkill", "-f", _scratch], stderr=subprocess.DEVNULL)
        shutil.rmtree(_scratch, ignore_errors=True)


def workspace_version():
    txt = open(os.path.join(REPO, "Cargo.toml")).read()
    m = re.search(r"\[workspace\.package\]\s*version\s*=\s*\"([^\"]+)\"", txt)
    return m.group(1) if m else "0.0.0"


MEMBERS = ["steel-core", "steel-rc", "steel-parser", "steel-gen", "steel-derive",
           "quickscope", "cargo-steel-lib"]


def prepare(name, injections, lib_attrs=None, extra_cfg=None):
    """Create <scratch>/<name>/ws with a copy of the crates and inject harnesses.

    injections: list of (relative file under crates/, harness absolute path, module name[, cfg expr])
    lib_attrs: dict crate -> list of inner attributes to prepend to its lib.rs
    """
    root = os.path.join(scratch(), name)
    ws = os.path.join(root, "ws")
    os.makedirs(ws, exist_ok=True)
    subprocess.check_call(
        ["rsync", "-a", "--delete", "--exclude", "target", "--exclude", ".git"]
        + [os.path.join(REPO, "crates", m) for m in MEMBERS]
        + [os.path.join(ws, "crates") + "/"])
    shutil.copy(os.path.join(REPO, "Cargo.lock"), os.path.join(ws, "Cargo.lock"))
    with open(os.path.join(ws, "Cargo.toml"), "w") as f:
        f.write("[workspace]\nresolver = \"2\"\nmembers = [%s]\n\n[workspace.package]\nversion = \"%s\"\n"
                % (", ".join('"crates/%s"' % m for m in MEMBERS), workspace_version()))
        f.write("\n[workspace.lints.rust]\nunexpected_cfgs = { level = \"allow\" }\n")
        # the repository's test profile; dev profile left at cargo defaults (what Kani models)
        f.write("\n[profile.test]\nopt-level = 2\n")
    os.makedirs(os.path.join(ws, ".cargo"), exist_ok=True)
    with open(os.path.join(ws, ".cargo", "config.toml"), "w") as f:
        f.write("[net]\noffline = true\n")
    for inj in injections:
        rel, harness, mod = inj[:3]
        cfg = inj[3] if len(inj) > 3 else "kani"
        p = os.path.join(ws, "crates", rel)
        with open(p, "a") as f:
            f.write('\n#[cfg(%s)]\n#[path = "%s"]\nmod %s;\n' % (cfg, harness, mod))
    for crate, attrs in (lib_attrs or {}).items():
        p = os.path.join(ws, "crates", crate, "src", "lib.rs")
        src = open(p).read()
        with open(p, "w") as f:
            f.write("".join(a + "\n" for a in attrs) + src)
    return ws


def repo_fingerprint():
    """git HEAD + hash of the diff of the working tree: recorded in evidence."""
    try:
        head = subprocess.check_output(["git", "-C", REPO, "rev-parse", "HEAD"], text=True).strip()
        diff = subprocess.check_output(["git", "-C", REPO, "diff", "HEAD", "--", "crates"], text=True)
        import hashlib
        return {"head": head, "worktree_diff_sha1": hashlib.sha1(diff.encode()).hexdigest(),
                "dirty": bool(diff.strip())}
    except Exception as e:  # pragma: no cover
        return {"error": str(e)}


def modpath(rel, mod):
    """crate-relative module path of a harness module appended to file `rel`
    (e.g. steel-core/src/primitives/numbers.rs + verif_num -> primitives::numbers::verif_num)."""
    parts = rel.split("/src/", 1)[1]
    parts = parts[:-3] if parts.endswith(".rs") else parts
    comps = [c for c in parts.split("/") if c not in ("lib", "mod")]
    return "::".join(comps + [mod])


def mir_dump(wsdir, root, out, env=None):
    """`cargo +nightly rustc -Zunpretty=mir` of steel-core in the scratch copy; retried once when the dump is
    missing or implausibly small (a compiler process killed under memory pressure leaves an empty file)."""
    env = dict(env or os.environ, CARGO_NET_OFFLINE="true")
    env.pop("RUSTFLAGS", None)
    err = os.path.join(root, "mir.err")
    for attempt in range(2):
        # without a changed source file cargo does not re-run rustc and the second dump would be empty
        lib = os.path.join(wsdir, "crates", "steel-core", "src", "lib.rs")
        os.utime(lib, None)
        with open(out, "w") as f, open(err, "w") as e:
            subprocess.run(["cargo", "+nightly", "rustc", "--offline", "-p", "steel-core", "--lib", "--no-default-features",
                            "--features", FEATURES, "--target-dir", os.path.join(root, "tmir"), "--",
                            "-Zunpretty=mir", "-C", "debug-assertions=off"], cwd=wsdir, stdout=f, stderr=e, env=env)
        if os.path.getsize(out) > 5_000_000:
            return env
    raise RuntimeError("MIR dump failed: %s" % open(err, errors="replace").read()[-400:])
