"""C15: world-stopping operations see other threads only while they are stopped (engine E2)."""
import p_sync

RULE = ("each obligation is one SMT query over the product of thread automata extracted from the MIR of the real "
        "functions, unrolled K scheduler steps with the schedule symbolic; non-trivial = the query is over >= 2 script "
        "threads and the automata contain the scan window and the user-code location; distinct = distinct (scenario, blocking) pairs")

G, P, U, D, S = "gc", "prim", "user", "define", "set"


def sc(spec, K, block, finding=None):
    return ([("script", list(x)) for x in spec], K, "safety", (), block, None, finding)


EW = "exit-window"


SCEN = {
    "quick": {
        "collect x primitive-call": sc([[G], [P]], 28, [], EW),
        "collect x primitive-call [exit window excluded]": sc([[G], [P]], 30, ["exit-window"], EW),
        "assign-global x primitive-call [exit window excluded]": sc([[S], [P]], 34, ["exit-window"], EW),
        "collect x user-steps": sc([[G], [U, U]], 30, []),
    },
    "thorough": {
        "collect x primitive-call": sc([[G], [P]], 28, [], EW),
        "collect x primitive-call [exit window excluded]": sc([[G], [P]], 36, ["exit-window"], EW),
        "assign-global x primitive-call": sc([[S], [P]], 34, [], EW),
        "assign-global x primitive-call [exit window excluded]": sc([[S], [P]], 40, ["exit-window"], EW),
        "define-global x primitive-call [exit window excluded]": sc([[D], [P]], 40, ["exit-window"], EW),
        "collect x user-steps": sc([[G], [U, U]], 36, []),
        "collect x primitive,user": sc([[G], [P, U]], 36, ["exit-window"], EW),
        "collect x primitive x primitive [exit window excluded]": sc([[G], [P], [P]], 40, ["exit-window"], EW),
        # K = 60 covers one COMPLETE stop-scan-resume cycle (about 55 steps) and what the other thread does after it
        "assign-global x primitive-call, whole cycle [exit window excluded]": sc([[S], [P]], 60, ["exit-window"], EW),
    },
}


def _replay(r):
    stopper = "gc" if r["spec"][0][1][0] == "gc" else "define"
    return "exit_window", {"VERIF_SYNC_ORDER": "T0:SCAN_BEGIN,T1:RETRACT,T1:POLL,T0:SCAN_END", "VERIF_SYNC_STOPPER": stopper}


def check(pid, tier, seed):
    return p_sync.check(pid, tier, seed, {"scenarios": SCEN, "replay": _replay, "conformance": {"thorough": [("gc", "prim"), ("set", "prim")]}})


def replay(pid, path):
    return p_sync.replay(pid, path)
