"""C05: shared-value reference counting is sound under every interleaving (steel-rc)."""
import p_rc

RULE = ("each obligation is one Kani/CBMC query: ONE real steel-rc operation (or the base case new()) "
        "executed symbolically from EVERY count word satisfying the written representation invariant, "
        "for every acting thread in {owner, 2 non-owners}; non-trivial = all branch covers of the harness "
        "were satisfied (reachability witnesses), distinct = distinct (operation, mask) harnesses")

QUICK = ["rc_base_new", "rc_step_clone", "rc_step_drop", "rc_step_get_mut", "rc_step_make_mut",
         "rc_step_try_unwrap", "rc_step_explicit_merge", "rc_packed_roundtrip"]
# family 3: one foreign operation interleaved at one shared access of the analysed operation
INTERLEAVED = ["rc_il_get_mut", "rc_il_clone", "rc_il_drop"]
THOROUGH_EXTRA = []


def check(pid, tier, seed):
    return p_rc.check(pid, tier, seed, QUICK + INTERLEAVED, THOROUGH_EXTRA,
                      "destroyed exactly once and only after the last reference; exclusive access only to the sole holder")


def replay(pid, path):
    return p_rc.replay(pid, path)
