"""C11 (partial): sequences behave as their mathematical models at boundary indices -- byte vectors and
strings, through the registered wrappers of the built-in procedures (engine E1, harness/idx.rs).
The equality / hashing half of the property is NOT claimed (see DESIGN §4 C11: the real equality
handler does not get through symbolic execution; harness/eq.rs is kept as the record)."""
import p_kani

RULE = ("each obligation is one Kani/CBMC query: the registered wrapper of a sequence primitive (arity test, argument "
        "conversions, body) executed on a two-element byte vector / a three-character string with symbolic contents and "
        "full-width symbolic integer arguments; asserted: the answer is the one the mathematical sequence gives (element at "
        "i, update at i, sub-sequence [s,e)) exactly for the valid indices and an error -- never a panic, never another "
        "element -- otherwise; non-trivial = covers 'accepted', 'one past the end refused' satisfied")

SPECS = [p_kani.Spec("steel-core", "steel-core/src/primitives.rs", "idx.rs", "verif_idx")]
FUNCS = ["primitives::bytevectors::{steel_bytes_ref, steel_bytes_set, steel_bytevector_copy_new, steel_bytes_to_string} (registered wrappers + bodies)",
         "primitives::strings::{steel_string_ref, steel_integer_to_char}"]
ASSUME = [
    "containers: byte vector of 2 symbolic bytes, string of 3 characters in 4 bytes (one two-byte character); longer containers are outside the bound",
    "stub: std::rt::thread_cleanup = no-op; alloc::fmt::format returns an empty String (error text is not checked, Err/Ok is); results are mem::forgotten",
    "measured out (1200 s timeout each on a loaded machine, not in any tier): list-ref / list-tail / take (im-lists), vector-ref / immutable-vector-take (imbl RRB vector), substring, make-bytes",
    "equal?, hashing, hash maps and hash sets are outside the claim",
]


def plan(tier):
    q = [
        {"h": "idx_bytes_ref", "sym": "(bytes-ref (bytes a b) i): a, b: u8; i: isize (full width)"},
        {"h": "idx_bytes_set", "sym": "(bytes-set! (bytes a b) i x): i, x: isize"},
        {"h": "idx_bytes_copy", "sym": "(bytes-copy (bytes a b) s e): s, e: isize"},
        {"h": "idx_string_ref", "sym": "(string-ref \"aβc\" i): i: isize"},
    ]
    t = [
        {"h": "idx_bytes_to_string", "sym": "(bytes->string/utf8 (bytes a b) s e): a, b < 128; s, e: isize"},
        {"h": "idx_integer_to_char", "sym": "(integer->char n): n: isize"},
    ]
    return q + (t if tier == "thorough" else [])


def check(pid, tier, seed):
    return p_kani.check(pid, tier, seed, SPECS, plan(tier), FUNCS, {"containers": "2 bytes / 3 characters", "integers": "full 64-bit", "unwind": "6-8"},
                        ASSUME, RULE, slots=4)


def replay(pid, path):
    return p_kani.replay(pid, path)
