"""C11 (partial): sequences behave as their mathematical models at boundary indices -- byte vectors and
strings, through the registered wrappers of the built-in procedures (engine E1, harness/idx.rs).
The equality / hashing half of the property is NOT claimed (see DESIGN §4 C11: the real equality
handler does not get through symbolic execution; harness/eq.rs is kept as the record)."""
import p_kani

RULE = ("each obligation is one Kani/CBMC query: the registered wrapper of a sequence primitive (arity test, argument "
        "conversions, body) executed on a two-element byte vector / a three-character string with symbolic contents and "
        "full-width symbolic integer arguments; asserted: the answer is the one the mathematical sequence gives (element at "
        "i, update at i, sub-sequence [s,e)) exactly for the valid indices and an error -- never a panic, never another "
        "element -- otherwise; non-trivial = covers 'accepted', 'one past the end refused' satisfied")

SPECS = [p_kani.Spec("steel-core", "steel-core/src/primitives.rs", "idx.rs", "verif_idx")]
FUNCS = ["primitives::bytevectors::{steel_bytes_ref, steel_bytes_set, steel_bytevector_copy_new, steel_bytes_to_string} (registered wrappers + bodies)",
         "primitives::strings::{steel_string_ref, steel_integer_to_char}"]
ASSUME = [
    "containers: byte vector of 2 symbolic bytes, string of 3 characters in 4 bytes (one two-byte character); longer containers are outside the bound",
    "stub: std::rt::thread_cleanup = no-op; alloc::fmt::format returns an empty String (error text is not checked, Err/Ok is); results are mem::forgotten",
    "measured out (1200 s timeout each on a loaded machine, not in any tier): list-ref / list-tail / take (im-lists), vector-ref / immutable-vector-take (imbl RRB vector), substring, make-bytes",
    "equal?, hashing, hash maps and hash sets are outside the claim",
]


def plan(tier):
    q = [
        {"h": "idx_bytes_ref", "sym": "(bytes-ref (bytes a b) i): a, b: u8; i: isize (full width)"},
        {"h": "idx_bytes_set", "sym": "(bytes-set! (bytes a b) i x): i, x: isize"},
        {"h": "idx_bytes_copy", "sym": "(bytes-copy (bytes a b) s e): s, e: isize"},
        {"h": "idx_string_ref", "sym": "(string-ref \"aβc\" i): i: isize"},
    ]
    t = [
        {"h": "idx_bytes_to_string", "sym": "(bytes->string/utf8 (bytes a b) s e): a, b < 128; s, e: isize"},
        {"h": "idx_integer_to_char", "sym": "(integer->char n): n: isize"},
    ]
    return q + (t if tier == "thorough" else [])


EQ_EXPR = {"Rational": "1/2", "BigRational": "(/ 1 (expt 10 30))", "Complex": "(make-rectangular 1 2)", "ByteVector": "(bytes 1 2)",
           "BigNum": "(expt 10 30)", "StringV": "\"s\"", "SymbolV": "'sym", "CharV": "#\\a", "NumV": "1.5", "IntV": "7", "BoolV": "#t", "Void": "(void)"}


def check(pid, tier, seed):
    run = p_kani.check(pid, tier, seed, SPECS, plan(tier), FUNCS, {"containers": "2 bytes / 3 characters", "integers": "full 64-bit", "unwind": "6-8"},
                       ASSUME, RULE, slots=4)
    eqtab_obligation(run)
    eqsides_obligation(run)
    hashtag_obligation(run)
    return run


def hashtag_obligation(run):
    """E3n: two different built-in kinds that the equality handler compares structurally are not told apart by the hash
    (lib/p_eqtab.analyse_hash: arm table of the handler x the tag Hash::hash mixes in per kind -> z3)"""
    import os, re, json, shutil, subprocess, time
    import ws, p_eqtab, p_kinds
    oid = "hashtag:cross-kind-equal-values-hash-alike"
    t0 = time.time()
    M = getattr(run, "_c11mir", None)
    try:
        if M is None:
            wsdir = ws.prepare("c11mir", [])
            root = os.path.dirname(wsdir)
            out = os.path.join(root, "steel_core.mir")
            env = ws.mir_dump(wsdir, root, out)
            run._c11mir = (wsdir, root, out, env)
        else:
            wsdir, root, out, env = M
        kinds = p_kinds.variants(os.path.join(wsdir, "crates", "steel-core", "src"))
        r = p_eqtab.analyse_hash(open(out).read(), kinds)
    except Exception as ex:
        run.ob(oid, "inconclusive", reason="extraction failed: %s" % str(ex)[-300:], engine="mir-smt")
        return
    common = dict(engine="mir-smt/z3", wall_s=round(time.time() - t0, 1), solver_s=round(r["dt"], 3), solver_checks=1)
    run.samples.append({"engine": "mir-smt", "query": "exists kinds a != b (user-defined custom types excluded): RecursiveEqualityHandler::visit has an arm of its own for (a, b) AND Hash::hash mixes different tags in for a and b",
                        "cross-kind arms of the equality handler": r["cross"], "Hash::hash mixes the discriminant in for every kind": r["mixes_discriminant"]})
    run.functions.append("rvals::<SteelVal as Hash>::hash (tag hashed per kind before the contents) against the cross-kind arms of RecursiveEqualityHandler::visit (MIR)")
    if r["res"] == "error" or not r["cross"]:
        run.ob(oid, "inconclusive", reason="solver error or no cross-kind arm recognised", **common)
        return
    try:
        r2 = p_eqtab.analyse_hash_identity(open(out).read(), kinds)
    except Exception as ex:
        run.ob(oid, "inconclusive", reason="extraction failed (identity table): %s" % str(ex)[-300:], **common)
        return
    common["solver_checks"] = 2
    run.samples.append({"engine": "mir-smt", "query": "exists kind k (user-defined custom types excluded): the arm of Hash::hash for k hashes a pointer (as_ptr / as_ptr_usize) AND the equality handler's arm for (k, k) compares contents",
                        "kinds hashed by identity": r2["identity_hashed"], "kinds compared by value": r2["compared_by_value"]})
    if r2["res"] == "error" or len(r2["compared_by_value"]) < 10 or len(r2["identity_hashed"]) < 3:
        run.ob(oid, "inconclusive", reason="solver error or vacuous identity / value tables", **common)
        return
    if r["res"] == "unsat" and r2["res"] == "unsat":
        run.ob(oid, "pass", nonvacuous=True, note="%d cross-kind arms hash with the same tag; none of the %d kinds compared by value is hashed by identity" % (len(r["cross"]), len(r2["compared_by_value"])), **common)
        return
    if r["res"] == "sat":
        pairs = [p_eqtab.HASH_PAIR_EXPR[c] for c in r["cross"] if c in p_eqtab.HASH_PAIR_EXPR]
        what = "the equality handler compares %s structurally, the hash mixes their kinds in" % ", ".join("%s with %s" % c for c in r["cross"][:2])
    else:
        pairs = [p_eqtab.HASH_VALUE_EXPR[k] for k in r2["bad"] if p_eqtab.HASH_VALUE_EXPR.get(k)]
        what = "values of kind %s are compared by their contents but hashed by their address" % ", ".join(r2["bad"])
        r = dict(r, cross=[(k, k) for k in r2["bad"]])
    try:
        shutil.copy(os.path.join(ws.VERIF, "harness", "arity_replay.rs"), os.path.join(wsdir, "crates", "steel-core", "tests", "verif_arity_replay.rs"))
        p = subprocess.run(["cargo", "test", "--offline", "-p", "steel-core", "--no-default-features", "--features", ws.FEATURES,
                            "--test", "verif_arity_replay", "--target-dir", os.path.join(root, "tn"), "--", "hashkey_replay", "--exact", "--nocapture"],
                           cwd=wsdir, env=dict(env, VERIF_HASH_PAIRS=";;".join("%s|%s" % x for x in pairs)), capture_output=True, text=True, timeout=2400)
        m = re.search(r"OBSERVED: (.*)", p.stdout + p.stderr)
    except Exception as ex:
        run.ob(oid, "inconclusive", reason="replay failed: %s" % str(ex)[-300:], **common)
        return
    if not m:
        run.ob(oid, "inconclusive", reason="solver: %s; the probe pairs were interchangeable as keys natively" % what, **common)
        return
    d = os.path.join(ws.VERIF, "replays", run.pid)
    os.makedirs(d, exist_ok=True)
    path = os.path.join(d, "hashtag.json")
    json.dump({"property": run.pid, "kind": "hashtag", "what": what, "pairs": ";;".join("%s|%s" % x for x in pairs), "observed": m.group(1), "how": "./check %s --replay <this file>" % run.pid}, open(path, "w"), indent=1)
    key = "hashtag:%s" % "+".join(sorted({c[0] for c in r["cross"]}))
    if run.is_known(key):
        run.known_hit(key, run.known[(run.pid, key)] + " -- " + m.group(1)[:200])
        run.ob(oid, "known", nonvacuous=True, **common)
    else:
        run.violation(key, "%s; natively: %s" % (what, m.group(1)[:300]), path)
        run.ob(oid, "fail", note=m.group(1)[:200], **common)


def eqsides_obligation(run):
    """E3j: the equality handler compares left with right (lib/p_eqsides.py: data flow of the handler's calls and
    comparisons from MIR -> z3)"""
    import os, re, json, shutil, subprocess, time
    import ws, p_eqsides, p_kinds
    oid = "eqsides:handler-compares-left-with-right"
    t0 = time.time()
    M = getattr(run, "_c11mir", None)
    try:
        if M is None:
            wsdir = ws.prepare("c11mir", [])
            root = os.path.dirname(wsdir)
            out = os.path.join(root, "steel_core.mir")
            env = ws.mir_dump(wsdir, root, out)
        else:
            wsdir, root, out, env = M
        kinds = p_kinds.variants(os.path.join(wsdir, "crates", "steel-core", "src"))
        r = p_eqsides.analyse(open(out).read(), kinds)
    except Exception as ex:
        run.ob(oid, "inconclusive", reason="extraction failed: %s" % str(ex)[-300:], engine="mir-smt")
        return
    common = dict(engine="mir-smt/z3", wall_s=round(time.time() - t0, 1), solver_s=round(r["dt"], 3), solver_checks=r["queries"])
    run.samples.append({"engine": "mir-smt", "query": "exists a call / comparison in RecursiveEqualityHandler::visit whose two operands both derive from the SAME popped value; "
                        "exists a kind whose arm iterates over a payload without comparing the two payloads' lengths; exists a should_visit site whose key derives from one side only",
                        "should_visit sites": r.get("visited_sites"),
                        "two-operand sites": r["sites"], "kinds iterated": r["iterating"], "kinds with a length comparison": r["length_compared"]})
    run.functions.append("rvals::cycles::RecursiveEqualityHandler::visit: operand origins of %d calls / comparisons (MIR)" % r["sites"])
    if r["errors"] or r["sites"] < 25 or len(r["iterating"]) < 2:
        run.ob(oid, "inconclusive", reason="; ".join(r["errors"][:3]) or "vacuous tables (%d sites, %d iterated kinds)" % (r["sites"], len(r["iterating"])), **common)
        return
    if not r["bad"]:
        run.ob(oid, "pass", nonvacuous=True, note="%d two-operand sites take one operand from each side; %d iterated kinds compare lengths" % (r["sites"], len(r["iterating"])), **common)
        return
    viol, known, incon = [], [], []
    for b in r["bad"]:
        if b["fact"] == "verdict":
            ks = ["early-true"]
            what = "a block that answers `true` is reachable from an arm of the comparison without emptying the work lists (blocks %s)" % b["blocks"][:4]
            pairs = p_eqsides.EARLY_PAIRS
        elif b["fact"] == "visited-key":
            ks = ["shared-substructure"]
            what = ("%d `should_visit` site(s) (kinds %s) remember a sub-object under a key made from ONE side only: the second occurrence of a shared "
                    "sub-object counts as already compared whatever stands opposite it" % (b["sites"], ", ".join(b["kinds"])))
            pairs = p_eqsides.DAG_PAIRS
        else:
            ks = b["site"]["kinds"] if b["fact"] == "two-sided" else [b["kind"]]
            pairs = [p for k in ks for p in p_eqsides.PAIRS.get(k, [])]
        what = what if b["fact"] in ("visited-key", "verdict") else ("`%s` in the arm for %s takes both operands from the %s value: the value is compared with itself" % (b["site"]["what"], "/".join(ks), "left" if b["site"]["a"] == 0 else "right")
                if b["fact"] == "two-sided" else "the arm for %s iterates over one operand without comparing the two lengths" % b["kind"])
        obs = None
        try:
            shutil.copy(os.path.join(ws.VERIF, "harness", "arity_replay.rs"), os.path.join(wsdir, "crates", "steel-core", "tests", "verif_arity_replay.rs"))
            spec = ";;".join("%s|%s|%s" % (a, bb, "t" if w else "f") for a, bb, w in pairs)
            p = subprocess.run(["cargo", "test", "--offline", "-p", "steel-core", "--no-default-features", "--features", ws.FEATURES,
                                "--test", "verif_arity_replay", "--target-dir", os.path.join(root, "tn"), "--", "eqsides_replay", "--exact", "--nocapture"],
                               cwd=wsdir, env=dict(env, VERIF_EQ_PAIRS=spec), capture_output=True, text=True, timeout=2400)
            m = re.search(r"OBSERVED: (.*)", p.stdout + p.stderr)
            obs = m.group(1) if m else None
        except Exception as ex:
            incon.append("replay failed: %s" % str(ex)[-200:])
            continue
        if not obs:
            incon.append("solver: %s; equal? answered every probe pair as expected" % what)
            continue
        d = os.path.join(ws.VERIF, "replays", run.pid)
        os.makedirs(d, exist_ok=True)
        key = "eqsides:%s-%s" % (b["fact"], "+".join(ks))
        path = os.path.join(d, "eqsides_%s.json" % "_".join(ks))
        json.dump({"property": run.pid, "kind": "eqsides", "what": what, "pairs": spec, "observed": obs, "how": "./check %s --replay <this file>" % run.pid}, open(path, "w"), indent=1)
        if run.is_known(key):
            run.known_hit(key, run.known[(run.pid, key)] + " -- " + obs[:200])
            known.append(key)
        else:
            run.violation(key, "%s; natively: %s" % (what, obs[:300]), path)
            viol.append(obs)
    if viol:
        run.ob(oid, "fail", note=viol[0][:200], **common)
    elif incon:
        run.ob(oid, "inconclusive", reason=incon[0], **common)
    else:
        run.ob(oid, "known", nonvacuous=True, **common)


def eqtab_obligation(run):
    """E3g: every kind that `PartialEq for SteelVal` compares by value at the top level also has an arm in the
    equality handler's match for nested values (lib/p_eqtab.py: MIR decision trees -> z3)"""
    import os, re, json, shutil, subprocess, time
    import ws, p_eqtab, p_kinds
    oid = "eqtab:nested-equality-has-an-arm-for-every-scalar-kind"
    t0 = time.time()
    try:
        wsdir = ws.prepare("c11mir", [])
        root = os.path.dirname(wsdir)
        out = os.path.join(root, "steel_core.mir")
        env = ws.mir_dump(wsdir, root, out)
        kinds = p_kinds.variants(os.path.join(wsdir, "crates", "steel-core", "src"))
        run._c11mir = (wsdir, root, out, env)
        r = p_eqtab.analyse(open(out).read(), kinds)
    except Exception as ex:
        run.ob(oid, "inconclusive", reason="extraction failed: %s" % str(ex)[-300:], engine="mir-smt")
        return
    common = dict(engine="mir-smt/z3", wall_s=round(time.time() - t0, 1), solver_s=round(r["dt"], 3), solver_checks=len(kinds))
    run.samples.append({"engine": "mir-smt", "query": "exists kind k (of %d): PartialEq::eq has an arm of its own for (k, k) AND RecursiveEqualityHandler::visit sends (k, k) to its catch-all" % len(kinds),
                        "kinds with a top-level arm": r["top"], "kinds with an arm in the handler": r["nested"]})
    run.functions.append("rvals::cycles::{<SteelVal as PartialEq>::eq, RecursiveEqualityHandler::visit}: decision trees of `match (left, right)` (MIR)")
    if r["res"] == "error" or len(r["top"]) < 8 or len(r["nested"]) < 15:
        run.ob(oid, "inconclusive", reason="solver error or vacuous tables (%d / %d kinds)" % (len(r["top"]), len(r["nested"])), **common)
        return
    if r["res"] == "unsat":
        run.ob(oid, "pass", nonvacuous=True, note="%d kinds compared by value at the top level, each has an arm for nested values" % len(r["top"]), **common)
        return
    what = "kinds %s are compared by value by `==` on the values themselves but fall into the catch-all (not equal) of the handler that compares nested values" % ", ".join(r["missing"])
    obs = None
    try:
        shutil.copy(os.path.join(ws.VERIF, "harness", "arity_replay.rs"), os.path.join(wsdir, "crates", "steel-core", "tests", "verif_arity_replay.rs"))
        for k in r["missing"]:
            if k not in EQ_EXPR:
                continue
            p = subprocess.run(["cargo", "test", "--offline", "-p", "steel-core", "--no-default-features", "--features", ws.FEATURES,
                                "--test", "verif_arity_replay", "--target-dir", os.path.join(root, "tn"), "--", "eqtab_replay", "--exact", "--nocapture"],
                               cwd=wsdir, env=dict(env, VERIF_EQ_EXPR=EQ_EXPR[k]), capture_output=True, text=True, timeout=2400)
            m = re.search(r"OBSERVED: (.*)", p.stdout + p.stderr)
            if m:
                obs = (k, m.group(1))
                break
    except Exception as ex:
        run.ob(oid, "inconclusive", reason="replay failed: %s" % str(ex)[-300:], **common)
        return
    if not obs:
        run.ob(oid, "inconclusive", reason="solver: %s; not reproduced through equal? on nested values" % what, **common)
        return
    d = os.path.join(ws.VERIF, "replays", run.pid)
    os.makedirs(d, exist_ok=True)
    path = os.path.join(d, "eqtab.json")
    json.dump({"property": run.pid, "kind": "eqtab", "what": what, "value_kind": obs[0], "expr": EQ_EXPR[obs[0]], "observed": obs[1], "how": "./check %s --replay <this file>" % run.pid}, open(path, "w"), indent=1)
    key = "eqtab:%s" % "+".join(r["missing"])
    if run.is_known(key):
        run.known_hit(key, run.known[(run.pid, key)] + " -- " + obs[1][:200])
        run.ob(oid, "known", nonvacuous=True, **common)
    else:
        run.violation(key, "%s; natively: %s" % (what, obs[1][:300]), path)
        run.ob(oid, "fail", note=obs[1][:200], **common)


def replay(pid, path):
    import json
    payload = json.load(open(path))
    if payload.get("kind") == "hashtag":
        import os, re, shutil, subprocess, ws
        wsdir = ws.prepare("c11replay", [])
        root = os.path.dirname(wsdir)
        shutil.copy(os.path.join(ws.VERIF, "harness", "arity_replay.rs"), os.path.join(wsdir, "crates", "steel-core", "tests", "verif_arity_replay.rs"))
        p = subprocess.run(["cargo", "test", "--offline", "-p", "steel-core", "--no-default-features", "--features", ws.FEATURES,
                            "--test", "verif_arity_replay", "--target-dir", os.path.join(root, "tn"), "--", "hashkey_replay", "--exact", "--nocapture"],
                           cwd=wsdir, env=dict(os.environ, VERIF_HASH_PAIRS=payload["pairs"]), capture_output=True, text=True)
        m = re.search(r"OBSERVED: (.*)", p.stdout + p.stderr)
        print("observed:", m.group(1) if m else "not reproduced")
        if m:
            print("VIOLATION property=%s replay=%s" % (pid, path))
            return 1
        return 0
    if payload.get("kind") == "eqsides":
        import os, re, shutil, subprocess, ws
        wsdir = ws.prepare("c11replay", [])
        root = os.path.dirname(wsdir)
        shutil.copy(os.path.join(ws.VERIF, "harness", "arity_replay.rs"), os.path.join(wsdir, "crates", "steel-core", "tests", "verif_arity_replay.rs"))
        p = subprocess.run(["cargo", "test", "--offline", "-p", "steel-core", "--no-default-features", "--features", ws.FEATURES,
                            "--test", "verif_arity_replay", "--target-dir", os.path.join(root, "tn"), "--", "eqsides_replay", "--exact", "--nocapture"],
                           cwd=wsdir, env=dict(os.environ, VERIF_EQ_PAIRS=payload["pairs"]), capture_output=True, text=True)
        m = re.search(r"OBSERVED: (.*)", p.stdout + p.stderr)
        print("observed:", m.group(1) if m else "not reproduced")
        if m:
            print("VIOLATION property=%s replay=%s" % (pid, path))
            return 1
        return 0
    if payload.get("kind") == "eqtab":
        import os, re, shutil, subprocess, ws
        wsdir = ws.prepare("c11replay", [])
        root = os.path.dirname(wsdir)
        shutil.copy(os.path.join(ws.VERIF, "harness", "arity_replay.rs"), os.path.join(wsdir, "crates", "steel-core", "tests", "verif_arity_replay.rs"))
        p = subprocess.run(["cargo", "test", "--offline", "-p", "steel-core", "--no-default-features", "--features", ws.FEATURES,
                            "--test", "verif_arity_replay", "--target-dir", os.path.join(root, "tn"), "--", "eqtab_replay", "--exact", "--nocapture"],
                           cwd=wsdir, env=dict(os.environ, VERIF_EQ_EXPR=payload["expr"]), capture_output=True, text=True)
        m = re.search(r"OBSERVED: (.*)", p.stdout + p.stderr)
        print("observed:", m.group(1) if m else "not reproduced")
        if m:
            print("VIOLATION property=%s replay=%s" % (pid, path))
            return 1
        return 0
    return p_kani.replay(pid, path)
