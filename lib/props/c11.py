"""C11: equal? is structural (engine E1; pair shapes, one comparison step from any visited history)."""
import p_kani

RULE = ("each obligation is one Kani/CBMC query: the real RecursiveEqualityHandler run on two pairs with symbolic leaves "
        "from a SYMBOLIC visited-set history (either object met before or not); asserted: the answer is the structural "
        "equality of the contents; non-trivial = the covers 'left object met before, contents differ', 'right object met "
        "before', 'fresh, equal' are satisfied")

SPECS = [p_kani.Spec("steel-core", "steel-core/src/rvals/cycles.rs", "eq.rs", "verif_eq")]
FUNCS = ["rvals::cycles::RecursiveEqualityHandler::{compare_equality, visit, should_visit}", "rvals::cycles::EqualityVisitor (queue operations)",
         "values::lists::Pair::{cons, car, cdr}", "gc::Gc::{new, ptr_eq, as_ptr}"]
ASSUME = [
    "the handler is driven with harness-owned queues and visited set, as the re-entrant arm of `impl PartialEq for SteelVal` does (the thread-local arm needs destructor-bearing thread-locals, which Kani cannot run)",
    "stub: FxHashSet<(usize,usize)>::insert is a 12-entry association list (trusted: a set); thread_cleanup no-op; fmt::format empty",
    "value kinds: pairs with integer leaves in [0,2]; lists, vectors, hash maps, structs are outside the bound (symbolic execution of deeper shapes did not finish: >1200 s, 12 GB)",
]
KF_VISITED = "eq:visited-marks-are-per-side"


def plan(tier):
    return [{"h": "eq_step_pair_with_visited_history", "sym": "leaves l0,l1,r0,r1 in [0,2]; seen_a, seen_b: bool",
             "classify": {KF_VISITED: r"depends on what was visited before"},
             "known": {KF_VISITED: "eq_step_pair_with_visited_history__kf"}}]


def check(pid, tier, seed):
    return p_kani.check(pid, tier, seed, SPECS, plan(tier), FUNCS, {"shapes": "pair of two integer leaves on each side", "unwind": 10},
                        ASSUME, RULE, slots=2)


def replay(pid, path):
    return p_kani.replay(pid, path)
