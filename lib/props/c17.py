"""C17: a running script can always be interrupted (engine E2, interpreter tier)."""
import p_sync
from .c15 import RULE, G, P, U, D, S

D_POLLS = 3


def sc(scripts, K, block):
    spec = [("script", list(x)) for x in scripts] + [("host", [("interrupt", 0)])]
    return (spec, K, "interrupt", (0, D_POLLS), block, len(spec) - 1)


SCEN = {
    "quick": {
        "host-interrupt x interpreter": sc([[U, U, U, U]], 24, []),
        "host-interrupt x interpreter x collect": sc([[U, U, U, U], [G]], 40, []),
        "host-interrupt x interpreter x collect [overwrite excluded]": sc([[U, U, U, U], [G]], 40, ["interrupt-overwrite"]),
    },
    "thorough": {
        "host-interrupt x interpreter": sc([[U, U, U, U, U]], 30, []),
        "host-interrupt x interpreter x collect": sc([[U, U, U, U], [G]], 40, []),
        "host-interrupt x interpreter x collect [overwrite excluded]": sc([[U, U, U, U], [G]], 46, ["interrupt-overwrite"]),
        "host-interrupt x interpreter x assign-global [overwrite excluded]": sc([[U, U, U, U], [S]], 46, ["interrupt-overwrite"]),
        "host-interrupt x interpreter(primitive calls)": sc([[P, P, U, U]], 34, []),
    },
}


def _replay(r):
    return "interrupt_lost", {}


def check(pid, tier, seed):
    return p_sync.check(pid, tier, seed, {"scenarios": SCEN, "finding": "interrupt-overwrite", "replay": _replay})


def replay(pid, path):
    return p_sync.replay(pid, path)
