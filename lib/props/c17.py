"""C17: a running script can always be interrupted (engine E2, interpreter tier)."""
import p_sync
from .c15 import RULE, G, P, U, D, S

D_POLLS = 3


def sc(scripts, K, block, q="interrupt", finding=None):
    spec = [("script", list(x)) for x in scripts] + [("host", [("interrupt", 0)])]
    return (spec, K, q, (0, D_POLLS) if q == "interrupt" else (), block, len(spec) - 1, finding)


OW = "interrupt-overwrite"


SCEN = {
    "quick": {
        "host-interrupt x interpreter": sc([[U, U, U, U]], 24, []),
        "host-interrupt x interpreter x collect": sc([[U, U, U, U], [G]], 40, [], "interrupt", OW),
        "host-interrupt x interpreter x collect [overwrite excluded]": sc([[U, U, U, U], [G]], 40, ["interrupt-overwrite"], "interrupt", OW),
        "host-interrupt x primitive-call: target never stuck": sc([[P, U]], 24, [], "lasso", "interrupt-mid"),
        "host-interrupt x primitive-call: target never stuck [two-store window excluded]": sc([[P, U]], 24, ["interrupt-mid"], "lasso", "interrupt-mid"),
    },
    "thorough": {
        "host-interrupt x interpreter": sc([[U, U, U, U, U]], 30, []),
        "host-interrupt x interpreter x collect": sc([[U, U, U, U], [G]], 40, [], "interrupt", OW),
        "host-interrupt x interpreter x collect [overwrite excluded]": sc([[U, U, U, U], [G]], 46, ["interrupt-overwrite"], "interrupt", OW),
        "host-interrupt x interpreter x assign-global [overwrite excluded]": sc([[U, U, U, U], [S]], 46, ["interrupt-overwrite"], "interrupt", OW),
        "host-interrupt x interpreter(primitive calls)": sc([[P, P, U, U]], 34, []),
        "host-interrupt x primitive-call: target never stuck": sc([[P, U]], 24, [], "lasso", "interrupt-mid"),
        "host-interrupt x primitive-calls: target never stuck [two-store window excluded]": sc([[P, P, U]], 32, ["interrupt-mid"], "lasso", "interrupt-mid"),
    },
}


def _replay(r):
    if "never stuck" in r["name"]:
        # unblocked: the listed two-store window (forced through hook INTERRUPT_MID); blocked twin:
        # anything else that leaves the target parked after a completed interrupt()
        return ("interrupt_hang", {}) if r["block"] else ("interrupt_between_stores", {})
    return "interrupt_lost", {}


def check(pid, tier, seed):
    return p_sync.check(pid, tier, seed, {"scenarios": SCEN, "replay": _replay})


def replay(pid, path):
    return p_sync.replay(pid, path)
