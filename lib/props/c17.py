"""C17: a running script can always be interrupted (engine E2, interpreter tier)."""
import p_sync
from .c15 import RULE, G, P, U, D, S

D_POLLS = 3


def sc(scripts, K, block, q="interrupt", finding=None):
    spec = [("script", list(x)) for x in scripts] + [("host", [("interrupt", 0)])]
    return (spec, K, q, (0, D_POLLS) if q == "interrupt" else (), block, len(spec) - 1, finding)


OW = "interrupt-overwrite"


SCEN = {
    "quick": {
        "host-interrupt x interpreter": sc([[U, U, U, U]], 24, []),
        "host-interrupt x interpreter x collect": sc([[U, U, U, U], [G]], 40, [], "interrupt", OW),
        "host-interrupt x interpreter x collect [overwrite excluded]": sc([[U, U, U, U], [G]], 40, ["interrupt-overwrite"], "interrupt", OW),
        "host-interrupt x primitive-call: target never stuck": sc([[P, U]], 24, [], "lasso"),
    },
    "thorough": {
        "host-interrupt x interpreter": sc([[U, U, U, U, U]], 30, []),
        "host-interrupt x interpreter x collect": sc([[U, U, U, U], [G]], 40, [], "interrupt", OW),
        "host-interrupt x interpreter x collect [overwrite excluded]": sc([[U, U, U, U], [G]], 46, ["interrupt-overwrite"], "interrupt", OW),
        "host-interrupt x interpreter x assign-global [overwrite excluded]": sc([[U, U, U, U], [S]], 46, ["interrupt-overwrite"], "interrupt", OW),
        "host-interrupt x interpreter(primitive calls)": sc([[P, P, U, U]], 34, []),
        "host-interrupt x primitive-call: target never stuck": sc([[P, U]], 24, [], "lasso"),
        "host-interrupt x primitive-calls: target never stuck": sc([[P, P, U]], 32, [], "lasso"),
    },
}


def _replay(r):
    if "never stuck" in r["name"]:
        # first the plain run (interrupt() completes while the target is inside a primitive); if the
        # hang needs the target to act between the two stores of interrupt(), the host is held
        # there through hook INTERRUPT_MID
        return [("interrupt_hang", {}), ("interrupt_between_stores", {})]
    return "interrupt_lost", {}


def check(pid, tier, seed):
    return p_sync.check(pid, tier, seed, {"scenarios": SCEN, "replay": _replay})


def replay(pid, path):
    return p_sync.replay(pid, path)
