"""C17: a running script can always be interrupted (engine E2, interpreter tier)."""
import p_sync
from .c15 import RULE, G, P, U, D, S

D_POLLS = 3


def sc(scripts, K, block, q="interrupt", finding=None):
    spec = [("script", list(x)) for x in scripts] + [("host", [("interrupt", 0)])]
    return (spec, K, q, (0, D_POLLS) if q == "interrupt" else (), block, len(spec) - 1, finding)


OW = "interrupt-overwrite"


SCEN = {
    "quick": {
        "host-interrupt x interpreter": sc([[U, U, U, U]], 24, []),
        "host-interrupt x interpreter x collect": sc([[U, U, U, U], [G]], 40, [], "interrupt", OW),
        "host-interrupt x interpreter x collect [overwrite excluded]": sc([[U, U, U, U], [G]], 40, ["interrupt-overwrite"], "interrupt", OW),
        "host-interrupt x primitive-call: target never stuck": sc([[P, U]], 24, [], "lasso"),
    },
    "thorough": {
        "host-interrupt x interpreter": sc([[U, U, U, U, U]], 30, []),
        "host-interrupt x interpreter x collect": sc([[U, U, U, U], [G]], 40, [], "interrupt", OW),
        "host-interrupt x interpreter x collect [overwrite excluded]": sc([[U, U, U, U], [G]], 46, ["interrupt-overwrite"], "interrupt", OW),
        "host-interrupt x interpreter x assign-global [overwrite excluded]": sc([[U, U, U, U], [S]], 46, ["interrupt-overwrite"], "interrupt", OW),
        "host-interrupt x interpreter(primitive calls)": sc([[P, P, U, U]], 34, []),
        "host-interrupt x primitive-call: target never stuck": sc([[P, U]], 24, [], "lasso"),
        "host-interrupt x primitive-calls: target never stuck": sc([[P, P, U]], 32, [], "lasso"),
    },
}


def _replay(r):
    if "never stuck" in r["name"]:
        # first the plain run (interrupt() completes while the target is inside a primitive); if the
        # hang needs the target to act between the two stores of interrupt(), the host is held
        # there through hook INTERRUPT_MID
        return [("interrupt_hang", {}), ("interrupt_between_stores", {})]
    return "interrupt_lost", {}


def check(pid, tier, seed):
    run = p_sync.check(pid, tier, seed, {"scenarios": SCEN, "replay": _replay})
    poll_obligation(run)
    return run


def poll_obligation(run):
    """E3q: delivering an interrupt does not clear the request (lib/p_order.analyse_poll)"""
    import os, re, json, shutil, subprocess, time
    import ws, p_order
    oid = "poll:delivering-an-interrupt-does-not-clear-the-request"
    t0 = time.time()
    try:
        wsdir = ws.prepare("c17mir", [])
        root = os.path.dirname(wsdir)
        out = os.path.join(root, "steel_core.mir")
        env = ws.mir_dump(wsdir, root, out)
        r = p_order.analyse_poll(open(out).read())
    except Exception as ex:
        run.ob(oid, "inconclusive", reason="extraction failed: %s" % str(ex)[-300:], engine="mir-smt")
        return
    common = dict(engine="mir-smt/z3", wall_s=round(time.time() - t0, 1), solver_s=round(r["dt"], 3), solver_checks=2)
    run.samples.append({"engine": "mir-smt", "query": "exists a path in VmCore::safepoint_or_interrupt from the arm taken when the loaded state is Interrupted to a call that writes the controller (resume / store to the state cell / store to paused); rank-encoded reachability, z3",
                        "arm": "bb%d" % r["arm"], "controller writes anywhere in the poll": r["controller_writes_in_poll"]})
    run.functions.append("steel_vm::vm::VmCore::safepoint_or_interrupt: the Interrupted arm does not write the thread-state controller (MIR control flow)")
    run.assumptions.append("poll (E3q): only direct calls in safepoint_or_interrupt are seen (a write hidden in a callee of the arm is not); the native replay is a serve-forever loop under with-handler, one interrupt(), 12 s watchdog")
    if r["res"] == "error" or r["witness"] != "sat":
        run.ob(oid, "inconclusive", reason="solver error or the Interrupted arm does not reach a return in the extracted control flow", **common)
        return
    if r["res"] == "unsat":
        run.ob(oid, "pass", nonvacuous=True, note="the Interrupted arm raises the error without writing the controller: only the host's resume() clears the request", **common)
        return
    what = "the Interrupted arm of the interpreter's poll writes the thread-state controller (bb %s): the request is cleared by the poll that delivers it" % r["controller_writes_in_poll"]
    try:
        shutil.copy(os.path.join(ws.VERIF, "harness", "arity_replay.rs"), os.path.join(wsdir, "crates", "steel-core", "tests", "verif_arity_replay.rs"))
        p = subprocess.run(["cargo", "test", "--offline", "-p", "steel-core", "--no-default-features", "--features", ws.FEATURES,
                            "--test", "verif_arity_replay", "--target-dir", os.path.join(root, "tn"), "--", "interrupt_handler_replay", "--exact", "--nocapture"],
                           cwd=wsdir, env=env, capture_output=True, text=True, timeout=2400)
        m = re.search(r"OBSERVED: (.*)", p.stdout + p.stderr)
    except Exception as ex:
        run.ob(oid, "inconclusive", reason="replay failed: %s" % str(ex)[-300:], **common)
        return
    if not m:
        run.ob(oid, "inconclusive", reason="solver: %s; the serving loop stopped natively" % what, **common)
        return
    d = os.path.join(ws.VERIF, "replays", run.pid)
    os.makedirs(d, exist_ok=True)
    path = os.path.join(d, "poll_clears_request.json")
    json.dump({"property": run.pid, "kind": "poll", "what": what, "observed": m.group(1), "how": "./check %s --replay <this file>" % run.pid}, open(path, "w"), indent=1)
    key = "poll:interrupt-cleared-by-delivery"
    if run.is_known(key):
        run.known_hit(key, run.known[(run.pid, key)] + " -- " + m.group(1)[:200])
        run.ob(oid, "known", nonvacuous=True, **common)
    else:
        run.violation(key, "%s; natively: %s" % (what, m.group(1)[:300]), path)
        run.ob(oid, "fail", note=m.group(1)[:200], **common)


def replay(pid, path):
    import json
    payload = json.load(open(path))
    if payload.get("kind") == "poll":
        import os, re, shutil, subprocess, ws
        wsdir = ws.prepare("c17replay", [])
        root = os.path.dirname(wsdir)
        shutil.copy(os.path.join(ws.VERIF, "harness", "arity_replay.rs"), os.path.join(wsdir, "crates", "steel-core", "tests", "verif_arity_replay.rs"))
        p = subprocess.run(["cargo", "test", "--offline", "-p", "steel-core", "--no-default-features", "--features", ws.FEATURES,
                            "--test", "verif_arity_replay", "--target-dir", os.path.join(root, "tn"), "--", "interrupt_handler_replay", "--exact", "--nocapture"],
                           cwd=wsdir, env=dict(os.environ, CARGO_NET_OFFLINE="true"), capture_output=True, text=True)
        m = re.search(r"OBSERVED: (.*)", p.stdout + p.stderr)
        print("observed:", m.group(1) if m else "not reproduced")
        if m:
            print("VIOLATION property=%s replay=%s" % (pid, path))
            return 1
        return 0
    return p_sync.replay(pid, path)
