"""C07: no input can crash the host / errors leave no residue (kernel level)."""
import p_kani

RULE = ("each obligation is one Kani/CBMC query with Kani's panic / overflow / shift / division checks ON: a real numeric "
        "primitive on full-width symbolic operands must return Ok or Err, never panic; and a failed evaluation rolled back in "
        "the real symbol table must leave no residue; non-trivial = boundary covers satisfied")

SPECS = [p_kani.Spec("steel-core", "steel-core/src/primitives/numbers.rs", "num.rs", "verif_num"),
         p_kani.Spec("steel-core", "steel-core/src/compiler/map.rs", "sym.rs", "verif_sym"),
         p_kani.Spec("steel-core", "steel-core/src/primitives.rs", "idx.rs", "verif_idx"),
         p_kani.Spec("steel-parser", "steel-parser/src/lexer.rs", "lex.rs", "verif_lex", features=False)]
FUNCS = ["steel_parser::lexer::parse_real (the number-literal kernel behind string->number and every numeric token)",
         "primitives::numbers::{arithmetic_shift, expt (integer base, exponent -30), abs, negate, add_two, truncate_quotient, floor_remainder, euclidean_remainder, even, odd}",
         "compiler::map::SymbolMap::{add, roll_back}",
         "registered wrappers (arity test + argument conversions + body) of bytes-ref, bytes-set!, bytes-copy, bytes->string/utf8, make-bytes, "
         "string-ref, substring, integer->char, vector-ref (immutable vectors)"]
ASSUME = [
    "Kani checks overflow as the dev/test profile does (overflow-checks on); a wrapped value in release is a C10 matter",
    "arbitrary source TEXT is outside the claim: a 2-byte symbolic input through the real lexer does not leave symbolic execution (DESIGN C12); only the number-literal kernel parse_real is executed, on strings of <= 4 bytes that avoid the decimal-to-double conversion of the standard library ('.', 'e', 'E' excluded)",
    "stubs as in C10 / C06",
    "idxguard (E3l): the preconditions of the container methods are a table read from the container libraries' sources (imbl: set/update index self[index]; split_off asserts index <= len, take = split_off; std Vec); the length compared in a guard is identified with the length of the indexed container by TYPE (a guard on another container of the same type would be mistaken for it; the native replay decides); only sites whose index is a parameter or an argument's integer payload are interpreted",
    "bounds (E3b): only branch conditions on the argument count are interpreted, every other branch is free; accesses with a non-constant index and sub-slicing (args[1..]) are not interpreted; scope = functions carrying a steel_derive function/native/native_mut/context attribute with a name",
]
KF_RESIDUE = "sym:rollback-keeps-definition-in-recycled-slot"

# index- and size-taking procedures through their registered wrappers (harness/idx.rs): integer arguments at full width
IDX_Q = [
    {"h": "idx_bytes_set", "spec": 2, "sym": "(bytes-set! (bytes a b) i x): a, b: u8; i, x: isize (full width)"},
    {"h": "idx_bytes_to_string", "spec": 2, "sym": "(bytes->string/utf8 (bytes a b) s e): a, b < 128; s, e: isize"},
    {"h": "idx_string_ref", "spec": 2, "sym": "(string-ref \"a\u03b2c\" i): i: isize"},
]
IDX_T = [
    {"h": "idx_bytes_ref", "spec": 2, "sym": "(bytes-ref (bytes a b) i): i: isize"},
    {"h": "idx_integer_to_char", "spec": 2, "sym": "(integer->char n): n: isize"},
    {"h": "idx_bytes_copy", "spec": 2, "sym": "(bytes-copy (bytes a b) s e): s, e: isize"},
]


def plan(tier):
    q = [
        {"h": "num_arithmetic_shift_exact", "spec": 0, "sym": "n: isize, m: isize"},
        {"h": "num_abs_i", "spec": 0, "sym": "x: isize"},
        {"h": "num_expt_minus_30_total", "spec": 0, "sym": "(expt l -30), 0 < |l| <= 12"},
        {"h": "sym_rollback_with_recycled_slot", "spec": 1, "sym": "f in {1,2,3}",
         "classify": {KF_RESIDUE: r"reused a released slot"}, "known": {KF_RESIDUE: "sym_rollback_with_recycled_slot__kf"}},
        {"h": "sym_rollback_1_1", "spec": 1, "sym": "f1 in {1,2,3}"},
        {"h": "lex_parse_real_total", "spec": 3, "sym": "(string->number s) / a numeric token s: every valid UTF-8 string of <= 4 bytes without '.', 'e', 'E'; radix 10 or 16"},
    ] + IDX_Q
    t = [
        {"h": "num_truncate_quotient_edge", "spec": 0, "sym": "x within 3 of isize::MIN/MAX, |y| <= 3"},
        {"h": "num_floor_remainder_edge", "spec": 0, "sym": "x within 3 of isize::MIN/MAX, |y| <= 3"},
        {"h": "num_euclidean_remainder_ii", "spec": 0, "sym": "|x| <= 2^12, |y| <= 2^6"},
        {"h": "sym_rollback_redef_1", "spec": 1, "sym": "f1 in {1,2,3}"},
        {"h": "sym_rollback_redef_twice", "spec": 1, "sym": "name 1 defined three times; f1 in {1,2,3}"},
    ]
    return q + ((t + IDX_T) if tier == "thorough" else [])


def bounds_obligations(run):
    """E3b: accesses to the argument vector stay in bounds for every argument count, for every
    built-in procedure registered through the steel_derive attributes (MIR -> SMT)."""
    import os, json, shutil, subprocess, re, time
    import ws, mir, p_bounds
    t0 = time.time()
    try:
        wsdir = ws.prepare("c07mir", [])
        root = os.path.dirname(wsdir)
        reg = p_bounds.registered(os.path.join(wsdir, "crates", "steel-core", "src"))
        out = os.path.join(root, "steel_core.mir")
        env = dict(os.environ, CARGO_NET_OFFLINE="true")
        env.pop("RUSTFLAGS", None)
        ws.mir_dump(wsdir, root, out, env)
        names = set(reg)
        funcs = mir.parse(open(out).read(), lambda n: n.split("::")[-1] in names)
        run._mir = dict(wsdir=wsdir, root=root, out=out, reg=reg, env=env)
    except Exception as ex:
        run.ob("bounds:mir-dump", "inconclusive", reason=str(ex)[-500:], engine="mir-smt")
        return
    res, errs, solver_s = {"unsat": 0, "none": 0, "skip": 0}, [], 0.0
    bad = []
    unint = 0
    for key, f in funcs.items():
        try:
            r = p_bounds.check_fn(key, f)
        except Exception as ex:
            errs.append("%s: %s" % (f.name[-50:], str(ex)[:120]))
            continue
        solver_s += r.get("dt", 0)
        unint += r.get("uninterpreted", 0) or 0
        if r["res"] == "sat":
            bad.append((f, r))
        elif r["res"] in res:
            res[r["res"]] += 1
        else:
            errs.append("%s: solver %s" % (f.name[-50:], r["res"]))
    n_checked = res["unsat"] + len(bad)
    run.functions.append("%d built-in procedures registered through steel_derive attributes: bounds checks on the argument vector (MIR)" % n_checked)
    run.samples.append({"engine": "mir-smt", "query": "exists argument count reaching `index out of bounds` on args[i] with i >= count, or reaching `.unwrap()` of the conversion of args[i] (whose kind the script chooses)",
                        "functions_with_constant-index_accesses": n_checked, "unsat": res["unsat"], "without such accesses": res["none"],
                        "accesses with a non-constant index (not interpreted)": unint})
    common = dict(engine="mir-smt/z3", wall_s=time.time() - t0, solver_s=round(solver_s, 2), solver_checks=n_checked)
    if n_checked < 100:
        run.ob("bounds:argument-vector", "inconclusive", reason="only %d registered procedures with argument-vector accesses recognised" % n_checked, **common)
        return
    if errs:
        run.ob("bounds:argument-vector", "inconclusive", reason="; ".join(errs[:3]), **common)
        return
    if not bad:
        run.ob("bounds:argument-vector", "pass", nonvacuous=True, note="%d procedures: no argument count reaches an out-of-bounds access of the argument vector or an unwrapped conversion of an argument" % res["unsat"], **common)
        return
    try:
        shutil.copy(os.path.join(ws.VERIF, "harness", "arity_replay.rs"), os.path.join(wsdir, "crates", "steel-core", "tests", "verif_arity_replay.rs"))
    except Exception as ex:
        run.ob("bounds:argument-vector", "inconclusive", reason="replay set-up failed: %s" % str(ex)[-300:], **common)
        return
    confirmed, unconfirmed = [], []
    for f, r in bad[:8]:
        kind, script_name, src = reg[f.name.split("::")[-1]]
        try:
            p = subprocess.run(["cargo", "test", "--offline", "-p", "steel-core", "--no-default-features", "--features", ws.FEATURES,
                                "--test", "verif_arity_replay", "--target-dir", os.path.join(root, "tn"), "--", "bounds_replay", "--exact", "--nocapture"],
                               cwd=wsdir, env=dict(env, VERIF_BOUNDS_NAME=script_name, VERIF_BOUNDS_LEN=str(r["len"])), capture_output=True, text=True, timeout=1800)
            m = re.search(r"OBSERVED: (.*)", p.stdout + p.stderr)
        except Exception as ex:
            m = None
        if not m:
            unconfirmed.append("%d arguments reach a panic in `%s`" % (r["len"], script_name))
            continue
        d = os.path.join(ws.VERIF, "replays", run.pid)
        os.makedirs(d, exist_ok=True)
        path = os.path.join(d, "bounds_%s.json" % re.sub(r"[^A-Za-z0-9_-]", "_", script_name))
        json.dump({"property": run.pid, "kind": "bounds", "function": f.name, "script_name": script_name, "len": r["len"], "observed": m.group(1),
                   "how": "./check C07 --replay <this file>"}, open(path, "w"), indent=1)
        key = "bounds:%s" % script_name
        if run.is_known(key):
            run.known_hit(key, run.known[(run.pid, key)] + " -- " + m.group(1)[:200])
        else:
            run.violation(key, "%s: %s" % (script_name, m.group(1)[:300]), path)
        confirmed.append(script_name)
    if unconfirmed:
        run.ob("bounds:argument-vector", "inconclusive", reason="solver: %s; not reproduced through a script call" % "; ".join(unconfirmed[:3]), **common)
    elif any(v["key"].startswith("bounds:") for v in run.violations):
        run.ob("bounds:argument-vector", "fail", note="host panic reproduced for: %s" % ", ".join(confirmed), **common)
    else:
        run.ob("bounds:argument-vector", "known", nonvacuous=True, note="only listed findings: %s" % ", ".join(confirmed), **common)


# sample expressions per value kind for the replay of E3c counterexamples (kinds a script can write down)
KIND_EXPR = {"Closure": "(lambda (x) x)", "BoolV": "#t", "NumV": "1.5", "IntV": None, "Rational": "1/2", "CharV": "#\\a",
             "VectorV": "(immutable-vector 1 2)", "Void": "(void)", "StringV": "\"s\"", "SymbolV": "'sym", "HashMapV": "(hash)",
             "HashSetV": "(hashset)", "ListV": "(list 1 2)", "Pair": "(cons 1 2)", "MutableVector": "(vector 1 2)",
             "BigNum": "(expt 10 30)", "BigRational": "(/ 1 (expt 10 30))", "Complex": "(make-rectangular 1 2)", "ByteVector": "(bytes 1 2)"}
NUMBER_KINDS = ("NumV", "IntV", "Rational", "BigNum", "BigRational", "Complex")
KERNEL_OPS = {"multiply_two": "*", "add_two": "+", "add_two_fallible": "+", "negate": "-"}


def kinds_scope(reg, funcs, numbers_src):
    """-> list of (key, func, script name, kinds restriction or None)"""
    import re
    out = []
    inner = {k[6:]: v for k, v in reg.items() if v[0] == "function" and k.startswith("steel_")}
    ref = re.compile(r"&(?:mut )?(?:rvals::)?SteelVal")
    kernels = set(re.findall(r"fn (\w+)\(", numbers_src)) & set(KERNEL_OPS)
    for key, f in funcs.items():
        last = f.name.split("::")[-1]
        if "{closure" in f.name:
            continue
        if last in reg and reg[last][0] != "function":
            out.append((key, f, reg[last][1], None))
        elif last in reg:
            out.append((key, f, reg[last][1], None))          # generated wrapper steel_<fn>
        elif last in inner and f.argtypes and all(ref.fullmatch(t.strip()) for t in f.argtypes.values()):
            out.append((key, f, inner[last][1], None))        # its body, when every parameter is a &SteelVal
        elif last in kernels and f.argtypes and all(ref.fullmatch(t.strip()) for t in f.argtypes.values()):
            out.append((key, f, KERNEL_OPS[last], NUMBER_KINDS))
    return out


def kinds_obligations(run, only_kernels=False):
    """E3c: no choice of argument KINDS (and integer payloads) reaches an explicit panic of a built-in
    procedure or of a numeric kernel (MIR -> SMT, lib/p_kinds.py)."""
    import os, json, shutil, subprocess, re, time
    import ws, mir, p_bounds, p_kinds
    oid = "kinds:numeric-kernels" if only_kernels else "kinds:built-in-procedures"
    t0 = time.time()
    M = getattr(run, "_mir", None)
    if M is None:
        run.ob(oid, "inconclusive", reason="no MIR dump", engine="mir-smt")
        return
    try:
        src = os.path.join(M["wsdir"], "crates", "steel-core", "src")
        vs = p_kinds.variants(src)
        reg = M["reg"]
        wanted = set(reg) | {k[6:] for k, v in reg.items() if v[0] == "function"} | set(KERNEL_OPS)
        funcs = mir.parse(open(M["out"]).read(), lambda n: n.split("::")[-1] in wanted)
        scope = kinds_scope(reg, funcs, open(os.path.join(src, "primitives", "numbers.rs")).read())
        if only_kernels:
            scope = [x for x in scope if x[3] is not None]
    except Exception as ex:
        run.ob(oid, "inconclusive", reason="scope extraction failed: %s" % str(ex)[-300:], engine="mir-smt")
        return
    writable = [vs.index(k) for k in KIND_EXPR if k in vs]
    cnt = {"unsat": 0, "none": 0, "skip": 0}
    bad, errs, solver_s, dropped, sites = [], [], 0.0, 0, 0
    for key, f, script, restr in scope:
        try:
            kinds = [vs.index(k) for k in restr] if restr else None
            r = p_kinds.check_fn(key, f, len(vs), p_bounds.len_cond, kinds=kinds)
            if r["res"] == "sat":
                # a witness the replay can write down: kinds with a literal expression
                r2 = p_kinds.check_fn(key, f, len(vs), p_bounds.len_cond, kinds=[k for k in (kinds or writable) if k in writable])
                if r2["res"] == "sat":
                    r = r2
                else:
                    r["unwritable"] = True
        except Exception as ex:
            errs.append("%s: %s" % (f.name[-50:], str(ex)[:120]))
            continue
        solver_s += r.get("dt", 0) or 0
        dropped += r.get("dropped", 0) or 0
        sites += r.get("sites", 0) or 0
        if r["res"] == "sat":
            bad.append((f, script, r))
        elif r["res"] in cnt:
            cnt[r["res"]] += 1
        else:
            errs.append("%s: solver %s" % (f.name[-50:], r["res"]))
    n = len(scope)
    run.functions.append("%d %s: explicit panic sites (panic!/unreachable!/todo!/unimplemented!) against symbolic argument kinds (MIR)" % (n, "numeric kernels (multiply_two, add_two, add_two_fallible, negate) on number kinds" if only_kernels else "built-in procedures, bodies of #[function] procedures and numeric kernels"))
    run.samples.append({"engine": "mir-smt", "query": "exists argument count, kind per argument (one of the %d variants of SteelVal) and integer payload reaching an explicit panic along a fully interpreted path" % len(vs),
                        "functions": n, "with panic sites": sites, "unsat": cnt["unsat"], "no explicit panic site": cnt["none"],
                        "branches not interpreted on the way to a panic site (outside the claim)": dropped})
    common = dict(engine="mir-smt/z3", wall_s=time.time() - t0, solver_s=round(solver_s, 2), solver_checks=n)
    if n < (2 if only_kernels else 300):
        run.ob(oid, "inconclusive", reason="only %d functions in scope" % n, **common)
        return
    if errs:
        run.ob(oid, "inconclusive", reason="; ".join(errs[:3]), **common)
        return
    if not bad:
        run.ob(oid, "pass", nonvacuous=True, note="%d functions, %d explicit panic sites: none reachable by a choice of argument count, kinds and integer payloads along interpreted paths" % (n, sites), **common)
        return
    try:
        shutil.copy(os.path.join(ws.VERIF, "harness", "arity_replay.rs"), os.path.join(M["wsdir"], "crates", "steel-core", "tests", "verif_arity_replay.rs"))
    except Exception as ex:
        run.ob(oid, "inconclusive", reason="replay set-up failed: %s" % str(ex)[-300:], **common)
        return
    confirmed, unconfirmed = [], []
    for f, script, r in bad[:8]:
        calls = kinds_calls(f, script, r, vs)
        obs = None
        for call in calls:
            try:
                p = subprocess.run(["cargo", "test", "--offline", "-p", "steel-core", "--no-default-features", "--features", ws.FEATURES,
                                    "--test", "verif_arity_replay", "--target-dir", os.path.join(M["root"], "tn"), "--", "kinds_replay", "--exact", "--nocapture"],
                                   cwd=M["wsdir"], env=dict(M["env"], VERIF_KINDS_CALL=call), capture_output=True, text=True, timeout=1800)
                m = re.search(r"OBSERVED: (.*)", p.stdout + p.stderr)
            except Exception:
                m = None
            if m:
                obs = (call, m.group(1))
                break
        if not obs:
            unconfirmed.append("%s: %s" % (script, calls[:2]))
            continue
        d = os.path.join(ws.VERIF, "replays", run.pid)
        os.makedirs(d, exist_ok=True)
        path = os.path.join(d, "kinds_%s.json" % re.sub(r"[^A-Za-z0-9_-]", "_", script))
        json.dump({"property": run.pid, "kind": "kinds", "function": f.name, "script_name": script, "call": obs[0], "model": r["model"], "observed": obs[1],
                   "how": "./check %s --replay <this file>" % run.pid}, open(path, "w"), indent=1)
        key = "kinds:%s" % script
        if run.is_known(key):
            run.known_hit(key, run.known[(run.pid, key)] + " -- " + obs[1][:200])
        else:
            run.violation(key, "%s: %s" % (obs[0], obs[1][:300]), path)
        confirmed.append(obs[0])
    if unconfirmed:
        run.ob(oid, "inconclusive", reason="solver: a panic site is reachable in %s; not reproduced through a script call" % "; ".join(unconfirmed[:3]), **common)
    elif any(v["key"].startswith("kinds:") for v in run.violations):
        run.ob(oid, "fail", note="host panic reproduced for: %s" % "; ".join(confirmed), **common)
    else:
        run.ob(oid, "known", nonvacuous=True, note="only listed findings: %s" % "; ".join(confirmed), **common)


def kinds_calls(f, script, r, vs):
    """script texts for a solver model: one expression per argument position"""
    import re
    model = r["model"]
    P = r.get("slice")
    params = r.get("params") or []

    def expr(name):
        k = model.get("k_" + name)
        if k is None:
            return "1"
        kind = vs[k] if k < len(vs) else "IntV"
        if kind == "IntV":
            v = model.get("v_" + name, 0)
            if v >= 1 << 63:
                v -= 1 << 64
            return str(v)
        return KIND_EXPR.get(kind) or "1"

    if P:
        n = min(int(model.get("len", 0)), 8)
        args = [expr("s%d" % i) for i in range(n)]
        orders = [args]
    else:
        args = [expr("p%s" % a[1:]) for a in params]
        orders = [args] + ([[args[1], args[0]]] if len(args) == 2 else [])
    calls = ["(%s %s)" % (script, " ".join(a)) for a in orders]
    if r.get("uniqueness_tests"):
        # the path depends on whether an argument is shared: also call with every argument held by a
        # global variable (a second reference)
        for a in orders:
            defs = " ".join("(define verif-arg-%d %s)" % (i, e) for i, e in enumerate(a))
            calls.append("%s (%s %s)" % (defs, script, " ".join("verif-arg-%d" % i for i in range(len(a)))))
    return calls


def check(pid, tier, seed):
    run = p_kani.check(pid, tier, seed, SPECS, plan(tier), FUNCS, {"operands": "full 64-bit", "names": 3, "argument count": "64-bit"}, ASSUME, RULE, slots=3)
    bounds_obligations(run)
    kinds_obligations(run)
    idxguard_obligation(run)
    from props import c10
    c10.partial_unwrap_obligation(run)
    return run


CONTAINER_EXPR = {"GenericVector": "(immutable-vector 1 2 3)", "Vec": "(vector 1 2 3)"}


def idx_calls(f, script, r):
    """script calls that pass the solver's index to the procedure: the container once held by a global (shared) and once
    fresh (unique); parameters: first value parameter = the container, integer parameters = the index, the rest = 0"""
    import re
    i, n = r["index_len"] or (3, 3)
    i = i if i < (1 << 62) else 3
    cont = CONTAINER_EXPR.get(r["container"], "(vector 1 2 3)")
    if "bytes" in f.name.split("::")[-1]:
        cont = "(bytes 1 2 3)"
    shapes = []
    for held in ("ys-cont", cont):
        args, used = [], False
        for a, t in f.argtypes.items():
            t = t.strip()
            if re.fullmatch(r"(usize|isize|u32|i32|u64|i64)", t):
                args.append(str(i))
            elif not used:
                args.append(held)
                used = True
            else:
                args.append("0")
        shapes.append("(%s %s)" % (script, " ".join(args)))
    return "(define ys-cont %s) ;; %s" % (cont, " ;; ".join(shapes))


def idxguard_obligation(run):
    """E3l: the guard in front of an indexing call implies the call's precondition (lib/p_idxguard.py)"""
    import os, re, json, shutil, subprocess, time
    import ws, mir, p_idxguard
    oid = "idxguard:guards-imply-index-preconditions"
    M = getattr(run, "_mir", None)
    t0 = time.time()
    if M is None:
        run.ob(oid, "inconclusive", reason="no MIR dump", engine="mir-smt")
        return
    try:
        reg = M["reg"]
        wanted = set(reg) | {k[6:] for k, v in reg.items() if v[0] == "function"}
        funcs = mir.parse(open(M["out"]).read(), lambda n: n.split("::")[-1] in wanted)
        res = p_idxguard.analyse(funcs)
    except Exception as ex:
        run.ob(oid, "inconclusive", reason="extraction failed: %s" % str(ex)[-300:], engine="mir-smt")
        return
    common = dict(engine="mir-smt/z3", wall_s=round(time.time() - t0, 1), solver_s=round(sum(r["dt"] for r in res), 3), solver_checks=2 * len(res))
    run.samples.append({"engine": "mir-smt", "query": "exists index i, length n (64 bit) and a path to the indexing call along which every comparison of i with the length / a constant holds, with NOT (i rel n) for the relation the call requires",
                        "sites": [(r["function"], r["method"], r["requires"], "%d guard(s)" % r["guards"], r["res"]) for r in res]})
    run.functions.append("%d indexing sites in script-callable procedures (GenericVector::{set, update, take, split_*}, Vec::{remove, insert, ..}, Index<usize>::index) with an index that is a parameter or an argument's payload: guards vs. the callee's precondition (MIR)" % len(res))
    if len(res) < 4 or any(r["witness"] != "sat" for r in res) or any(r["res"] == "error" for r in res):
        run.ob(oid, "inconclusive", reason="vacuous or solver error (%d sites)" % len(res), **common)
        return
    bad = [r for r in res if r["res"] == "sat"]
    if not bad:
        run.ob(oid, "pass", nonvacuous=True, note="%d indexing sites: every index that passes the guards satisfies the callee's precondition" % len(res), **common)
        return
    viol, incon = [], []
    seen = set()
    for r in bad:
        fn = r["function"]
        if fn in seen:
            continue
        seen.add(fn)
        f = [g for g in funcs.values() if g.name.split("::")[-1] == fn][0]
        ent = reg.get("steel_" + fn) or reg.get(fn)
        what = "%s: index %s reaches %s::%s (requires %s) past %d guard(s)" % (fn, (r["index_len"] or ("?", "?"))[0], r["container"], r["method"], r["requires"], r["guards"])
        if not ent:
            incon.append("solver: %s; no script name for the procedure" % what)
            continue
        spec = idx_calls(f, ent[1], r)
        try:
            shutil.copy(os.path.join(ws.VERIF, "harness", "arity_replay.rs"), os.path.join(M["wsdir"], "crates", "steel-core", "tests", "verif_arity_replay.rs"))
            p = subprocess.run(["cargo", "test", "--offline", "-p", "steel-core", "--no-default-features", "--features", ws.FEATURES,
                                "--test", "verif_arity_replay", "--target-dir", os.path.join(M["root"], "tn"), "--", "idxguard_replay", "--exact", "--nocapture"],
                               cwd=M["wsdir"], env=dict(M["env"], VERIF_IDX_CALLS=spec), capture_output=True, text=True, timeout=2400)
            m = re.search(r"OBSERVED: (.*)", p.stdout + p.stderr)
        except Exception as ex:
            incon.append("replay failed: %s" % str(ex)[-200:])
            continue
        if not m:
            incon.append("solver: %s; %s did not panic natively" % (what, spec))
            continue
        d = os.path.join(ws.VERIF, "replays", run.pid)
        os.makedirs(d, exist_ok=True)
        path = os.path.join(d, "idxguard_%s.json" % fn)
        json.dump({"property": run.pid, "kind": "idxguard", "what": what, "calls": spec, "observed": m.group(1), "how": "./check %s --replay <this file>" % run.pid}, open(path, "w"), indent=1)
        key = "idxguard:%s" % fn
        if run.is_known(key):
            run.known_hit(key, run.known[(run.pid, key)] + " -- " + m.group(1)[:200])
        else:
            run.violation(key, "%s; natively: %s" % (what, m.group(1)[:300]), path)
            viol.append(m.group(1))
    if viol:
        run.ob(oid, "fail", note=viol[0][:200], **common)
    elif incon:
        run.ob(oid, "inconclusive", reason=incon[0], **common)
    else:
        run.ob(oid, "known", nonvacuous=True, **common)


def replay(pid, path):
    import json
    payload = json.load(open(path))
    if payload.get("kind") == "kinds":
        import os, shutil, subprocess, re, ws
        wsdir = ws.prepare("c07replay", [])
        root = os.path.dirname(wsdir)
        shutil.copy(os.path.join(ws.VERIF, "harness", "arity_replay.rs"), os.path.join(wsdir, "crates", "steel-core", "tests", "verif_arity_replay.rs"))
        p = subprocess.run(["cargo", "test", "--offline", "-p", "steel-core", "--no-default-features", "--features", ws.FEATURES,
                            "--test", "verif_arity_replay", "--target-dir", os.path.join(root, "tn"), "--", "kinds_replay", "--exact", "--nocapture"],
                           cwd=wsdir, env=dict(os.environ, VERIF_KINDS_CALL=payload["call"]), capture_output=True, text=True)
        m = re.search(r"OBSERVED: (.*)", p.stdout + p.stderr)
        print("observed:", m.group(1) if m else "not reproduced")
        if m:
            print("VIOLATION property=%s replay=%s" % (pid, path))
            return 1
        return 0
    if payload.get("kind") == "idxguard":
        import os, shutil, subprocess, re, ws
        wsdir = ws.prepare("c07replay", [])
        root = os.path.dirname(wsdir)
        shutil.copy(os.path.join(ws.VERIF, "harness", "arity_replay.rs"), os.path.join(wsdir, "crates", "steel-core", "tests", "verif_arity_replay.rs"))
        p = subprocess.run(["cargo", "test", "--offline", "-p", "steel-core", "--no-default-features", "--features", ws.FEATURES,
                            "--test", "verif_arity_replay", "--target-dir", os.path.join(root, "tn"), "--", "idxguard_replay", "--exact", "--nocapture"],
                           cwd=wsdir, env=dict(os.environ, VERIF_IDX_CALLS=payload["calls"]), capture_output=True, text=True)
        m = re.search(r"OBSERVED: (.*)", p.stdout + p.stderr)
        print("observed:", m.group(1) if m else "not reproduced")
        if m:
            print("VIOLATION property=%s replay=%s" % (pid, path))
            return 1
        return 0
    if payload.get("kind") == "bounds":
        import os, shutil, subprocess, re, ws
        wsdir = ws.prepare("c07replay", [])
        root = os.path.dirname(wsdir)
        shutil.copy(os.path.join(ws.VERIF, "harness", "arity_replay.rs"), os.path.join(wsdir, "crates", "steel-core", "tests", "verif_arity_replay.rs"))
        p = subprocess.run(["cargo", "test", "--offline", "-p", "steel-core", "--no-default-features", "--features", ws.FEATURES,
                            "--test", "verif_arity_replay", "--target-dir", os.path.join(root, "tn"), "--", "bounds_replay", "--exact", "--nocapture"],
                           cwd=wsdir, env=dict(os.environ, VERIF_BOUNDS_NAME=payload["script_name"], VERIF_BOUNDS_LEN=str(payload["len"])), capture_output=True, text=True)
        m = re.search(r"OBSERVED: (.*)", p.stdout + p.stderr)
        print("observed:", m.group(1) if m else "not reproduced")
        if m:
            print("VIOLATION property=%s replay=%s" % (pid, path))
            return 1
        return 0
    return p_kani.replay(pid, path)
