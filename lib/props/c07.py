"""C07: no input can crash the host / errors leave no residue (kernel level)."""
import p_kani

RULE = ("each obligation is one Kani/CBMC query with Kani's panic / overflow / shift / division checks ON: a real numeric "
        "primitive on full-width symbolic operands must return Ok or Err, never panic; and a failed evaluation rolled back in "
        "the real symbol table must leave no residue; non-trivial = boundary covers satisfied")

SPECS = [p_kani.Spec("steel-core", "steel-core/src/primitives/numbers.rs", "num.rs", "verif_num"),
         p_kani.Spec("steel-core", "steel-core/src/compiler/map.rs", "sym.rs", "verif_sym")]
FUNCS = ["primitives::numbers::{arithmetic_shift, expt (integer base, exponent -30), abs, negate, add_two, truncate_quotient, floor_remainder, euclidean_remainder, even, odd}",
         "compiler::map::SymbolMap::{add, roll_back}"]
ASSUME = [
    "Kani checks overflow as the dev/test profile does (overflow-checks on); a wrapped value in release is a C10 matter",
    "arbitrary source TEXT is outside the claim: a 2-byte symbolic input through the real lexer does not leave symbolic execution (DESIGN C12)",
    "stubs as in C10 / C06",
    "bounds (E3b): only branch conditions on the argument count are interpreted, every other branch is free; accesses with a non-constant index and sub-slicing (args[1..]) are not interpreted; scope = functions carrying a steel_derive function/native/native_mut/context attribute with a name",
]
KF_RESIDUE = "sym:rollback-keeps-definition-in-recycled-slot"


def plan(tier):
    q = [
        {"h": "num_arithmetic_shift_exact", "spec": 0, "sym": "n: isize, m: isize"},
        {"h": "num_abs_i", "spec": 0, "sym": "x: isize"},
        {"h": "num_expt_minus_30_total", "spec": 0, "sym": "(expt l -30), 0 < |l| <= 12"},
        {"h": "sym_rollback_with_recycled_slot", "spec": 1, "sym": "f in {1,2,3}",
         "classify": {KF_RESIDUE: r"reused a released slot"}, "known": {KF_RESIDUE: "sym_rollback_with_recycled_slot__kf"}},
        {"h": "sym_rollback_1_1", "spec": 1, "sym": "f1 in {1,2,3}"},
    ]
    t = [
        {"h": "num_truncate_quotient_edge", "spec": 0, "sym": "x within 3 of isize::MIN/MAX, |y| <= 3"},
        {"h": "num_floor_remainder_edge", "spec": 0, "sym": "x within 3 of isize::MIN/MAX, |y| <= 3"},
        {"h": "num_euclidean_remainder_ii", "spec": 0, "sym": "|x| <= 2^12, |y| <= 2^6"},
        {"h": "sym_rollback_redef_1", "spec": 1, "sym": "f1 in {1,2,3}"},
    ]
    return q + (t if tier == "thorough" else [])


def bounds_obligations(run):
    """E3b: accesses to the argument vector stay in bounds for every argument count, for every
    built-in procedure registered through the steel_derive attributes (MIR -> SMT)."""
    import os, json, shutil, subprocess, re, time
    import ws, mir, p_bounds
    t0 = time.time()
    try:
        wsdir = ws.prepare("c07mir", [])
        root = os.path.dirname(wsdir)
        reg = p_bounds.registered(os.path.join(wsdir, "crates", "steel-core", "src"))
        out = os.path.join(root, "steel_core.mir")
        env = dict(os.environ, CARGO_NET_OFFLINE="true")
        env.pop("RUSTFLAGS", None)
        with open(out, "w") as f, open(os.path.join(root, "mir.err"), "w") as e:
            subprocess.run(["cargo", "+nightly", "rustc", "--offline", "-p", "steel-core", "--lib", "--no-default-features",
                            "--features", ws.FEATURES, "--target-dir", os.path.join(root, "tmir"), "--",
                            "-Zunpretty=mir", "-C", "debug-assertions=off"], cwd=wsdir, stdout=f, stderr=e, env=env)
        names = set(reg)
        funcs = mir.parse(open(out).read(), lambda n: n.split("::")[-1] in names)
    except Exception as ex:
        run.ob("bounds:mir-dump", "inconclusive", reason=str(ex)[-500:], engine="mir-smt")
        return
    res, errs, solver_s = {"unsat": 0, "none": 0, "skip": 0}, [], 0.0
    bad = []
    unint = 0
    for key, f in funcs.items():
        try:
            r = p_bounds.check_fn(key, f)
        except Exception as ex:
            errs.append("%s: %s" % (f.name[-50:], str(ex)[:120]))
            continue
        solver_s += r.get("dt", 0)
        unint += r.get("uninterpreted", 0) or 0
        if r["res"] == "sat":
            bad.append((f, r))
        elif r["res"] in res:
            res[r["res"]] += 1
        else:
            errs.append("%s: solver %s" % (f.name[-50:], r["res"]))
    n_checked = res["unsat"] + len(bad)
    run.functions.append("%d built-in procedures registered through steel_derive attributes: bounds checks on the argument vector (MIR)" % n_checked)
    run.samples.append({"engine": "mir-smt", "query": "exists argument count reaching `index out of bounds` on args[i] with i >= count, or reaching `.unwrap()` of the conversion of args[i] (whose kind the script chooses)",
                        "functions_with_constant-index_accesses": n_checked, "unsat": res["unsat"], "without such accesses": res["none"],
                        "accesses with a non-constant index (not interpreted)": unint})
    common = dict(engine="mir-smt/z3", wall_s=time.time() - t0, solver_s=round(solver_s, 2), solver_checks=n_checked)
    if n_checked < 100:
        run.ob("bounds:argument-vector", "inconclusive", reason="only %d registered procedures with argument-vector accesses recognised" % n_checked, **common)
        return
    if errs:
        run.ob("bounds:argument-vector", "inconclusive", reason="; ".join(errs[:3]), **common)
        return
    if not bad:
        run.ob("bounds:argument-vector", "pass", nonvacuous=True, note="%d procedures: no argument count reaches an out-of-bounds access of the argument vector or an unwrapped conversion of an argument" % res["unsat"], **common)
        return
    try:
        shutil.copy(os.path.join(ws.VERIF, "harness", "arity_replay.rs"), os.path.join(wsdir, "crates", "steel-core", "tests", "verif_arity_replay.rs"))
    except Exception as ex:
        run.ob("bounds:argument-vector", "inconclusive", reason="replay set-up failed: %s" % str(ex)[-300:], **common)
        return
    confirmed, unconfirmed = [], []
    for f, r in bad[:8]:
        kind, script_name, src = reg[f.name.split("::")[-1]]
        try:
            p = subprocess.run(["cargo", "test", "--offline", "-p", "steel-core", "--no-default-features", "--features", ws.FEATURES,
                                "--test", "verif_arity_replay", "--target-dir", os.path.join(root, "tn"), "--", "bounds_replay", "--exact", "--nocapture"],
                               cwd=wsdir, env=dict(env, VERIF_BOUNDS_NAME=script_name, VERIF_BOUNDS_LEN=str(r["len"])), capture_output=True, text=True, timeout=1800)
            m = re.search(r"OBSERVED: (.*)", p.stdout + p.stderr)
        except Exception as ex:
            m = None
        if not m:
            unconfirmed.append("%d arguments reach a panic in `%s`" % (r["len"], script_name))
            continue
        d = os.path.join(ws.VERIF, "replays", run.pid)
        os.makedirs(d, exist_ok=True)
        path = os.path.join(d, "bounds_%s.json" % re.sub(r"[^A-Za-z0-9_-]", "_", script_name))
        json.dump({"property": run.pid, "kind": "bounds", "function": f.name, "script_name": script_name, "len": r["len"], "observed": m.group(1),
                   "how": "./check C07 --replay <this file>"}, open(path, "w"), indent=1)
        key = "bounds:%s" % script_name
        if run.is_known(key):
            run.known_hit(key, run.known[(run.pid, key)] + " -- " + m.group(1)[:200])
        else:
            run.violation(key, "%s: %s" % (script_name, m.group(1)[:300]), path)
        confirmed.append(script_name)
    if unconfirmed:
        run.ob("bounds:argument-vector", "inconclusive", reason="solver: %s; not reproduced through a script call" % "; ".join(unconfirmed[:3]), **common)
    elif any(v["key"].startswith("bounds:") for v in run.violations):
        run.ob("bounds:argument-vector", "fail", note="host panic reproduced for: %s" % ", ".join(confirmed), **common)
    else:
        run.ob("bounds:argument-vector", "known", nonvacuous=True, note="only listed findings: %s" % ", ".join(confirmed), **common)


def check(pid, tier, seed):
    run = p_kani.check(pid, tier, seed, SPECS, plan(tier), FUNCS, {"operands": "full 64-bit", "names": 3, "argument count": "64-bit"}, ASSUME, RULE, slots=3)
    bounds_obligations(run)
    return run


def replay(pid, path):
    import json
    payload = json.load(open(path))
    if payload.get("kind") == "bounds":
        import os, shutil, subprocess, re, ws
        wsdir = ws.prepare("c07replay", [])
        root = os.path.dirname(wsdir)
        shutil.copy(os.path.join(ws.VERIF, "harness", "arity_replay.rs"), os.path.join(wsdir, "crates", "steel-core", "tests", "verif_arity_replay.rs"))
        p = subprocess.run(["cargo", "test", "--offline", "-p", "steel-core", "--no-default-features", "--features", ws.FEATURES,
                            "--test", "verif_arity_replay", "--target-dir", os.path.join(root, "tn"), "--", "bounds_replay", "--exact", "--nocapture"],
                           cwd=wsdir, env=dict(os.environ, VERIF_BOUNDS_NAME=payload["script_name"], VERIF_BOUNDS_LEN=str(payload["len"])), capture_output=True, text=True)
        m = re.search(r"OBSERVED: (.*)", p.stdout + p.stderr)
        print("observed:", m.group(1) if m else "not reproduced")
        if m:
            print("VIOLATION property=%s replay=%s" % (pid, path))
            return 1
        return 0
    return p_kani.replay(pid, path)
