"""C07: no input can crash the host / errors leave no residue (kernel level)."""
import p_kani

RULE = ("each obligation is one Kani/CBMC query with Kani's panic / overflow / shift / division checks ON: a real numeric "
        "primitive on full-width symbolic operands must return Ok or Err, never panic; and a failed evaluation rolled back in "
        "the real symbol table must leave no residue; non-trivial = boundary covers satisfied")

SPECS = [p_kani.Spec("steel-core", "steel-core/src/primitives/numbers.rs", "num.rs", "verif_num"),
         p_kani.Spec("steel-core", "steel-core/src/compiler/map.rs", "sym.rs", "verif_sym")]
FUNCS = ["primitives::numbers::{arithmetic_shift, expt (integer base, exponent -30), abs, negate, add_two, truncate_quotient, floor_remainder, euclidean_remainder, even, odd}",
         "compiler::map::SymbolMap::{add, roll_back}"]
ASSUME = [
    "Kani checks overflow as the dev/test profile does (overflow-checks on); a wrapped value in release is a C10 matter",
    "arbitrary source TEXT is outside the claim: a 2-byte symbolic input through the real lexer does not leave symbolic execution (DESIGN C12)",
    "stubs as in C10 / C06",
]
KF_RESIDUE = "sym:rollback-keeps-definition-in-recycled-slot"


def plan(tier):
    q = [
        {"h": "num_arithmetic_shift_exact", "spec": 0, "sym": "n: isize, m: isize"},
        {"h": "num_abs_i", "spec": 0, "sym": "x: isize"},
        {"h": "num_expt_minus_30_total", "spec": 0, "sym": "(expt l -30), 0 < |l| <= 12"},
        {"h": "sym_rollback_with_recycled_slot", "spec": 1, "sym": "f in {1,2,3}",
         "classify": {KF_RESIDUE: r"reused a released slot"}, "known": {KF_RESIDUE: "sym_rollback_with_recycled_slot__kf"}},
        {"h": "sym_rollback_1_1", "spec": 1, "sym": "f1 in {1,2,3}"},
    ]
    t = [
        {"h": "num_truncate_quotient_edge", "spec": 0, "sym": "x within 3 of isize::MIN/MAX, |y| <= 3"},
        {"h": "num_floor_remainder_edge", "spec": 0, "sym": "x within 3 of isize::MIN/MAX, |y| <= 3"},
        {"h": "num_euclidean_remainder_ii", "spec": 0, "sym": "|x| <= 2^12, |y| <= 2^6"},
        {"h": "sym_rollback_redef_1", "spec": 1, "sym": "f1 in {1,2,3}"},
    ]
    return q + (t if tier == "thorough" else [])


def check(pid, tier, seed):
    return p_kani.check(pid, tier, seed, SPECS, plan(tier), FUNCS, {"operands": "full 64-bit", "names": 3}, ASSUME, RULE, slots=3)


def replay(pid, path):
    return p_kani.replay(pid, path)
