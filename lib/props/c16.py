"""C16: threads make progress through collections and global updates (engine E2, fair-lasso query)."""
import p_sync
from .c15 import RULE, G, P, U, D, S


def sc(spec, K, block):
    return ([("script", list(x)) for x in spec], K, "lasso", (), block, None)


SCEN = {
    "quick": {
        "collect x assign-global": sc([[G], [S]], 30, []),
        "collect x assign-global [two stoppers excluded]": sc([[G], [S]], 26, ["two-stoppers"]),
        "collect x primitive-call": sc([[G], [P]], 28, []),
    },
    "thorough": {
        "collect x assign-global": sc([[G], [S]], 30, []),
        "collect x assign-global [two stoppers excluded]": sc([[G], [S]], 40, ["two-stoppers"]),
        "collect x define-global [two stoppers excluded]": sc([[G], [D]], 40, ["two-stoppers"]),
        "collect x primitive-call": sc([[G], [P]], 40, []),
        "assign-global x primitive-call": sc([[S], [P]], 44, []),
        "collect x user-steps": sc([[G], [U, U]], 36, []),
        "collect x collect": sc([[G], [G]], 40, ["two-stoppers"]),
    },
}


def _replay(r):
    return "two_stoppers", {}


def check(pid, tier, seed):
    return p_sync.check(pid, tier, seed, {"scenarios": SCEN, "finding": "two-stoppers", "replay": _replay})


def replay(pid, path):
    return p_sync.replay(pid, path)
