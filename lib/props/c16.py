"""C16: threads make progress through collections and global updates (engine E2, fair-lasso query)."""
import p_sync
from .c15 import RULE, G, P, U, D, S


def sc(spec, K, block, finding=None):
    return ([("script", list(x)) for x in spec], K, "lasso", (), block, None, finding)


TS = "two-stoppers"


SCEN = {
    "quick": {
        "collect x assign-global": sc([[G], [S]], 30, [], TS),
        "collect x assign-global [two stoppers excluded]": sc([[G], [S]], 26, ["two-stoppers"], TS),
        "collect x primitive-call": sc([[G], [P]], 28, []),
        "assign-global x spawn": sc([[S], ["spawn"]], 28, []),
        "assign-global x exiting thread": sc([[S], [U]], 28, []),
        "collect x exiting thread": sc([[G], [U]], 28, []),
        # the collection is already under way (heap lock held) when the assignment begins: on the pinned tree the
        # assigning thread waits for the heap lock inside a safepoint, so the two world-stoppers cannot meet in this order
        "collect (under way) x assign-global": sc([[G], [S]], 30, ["gc-first"]),
    },
    "thorough": {
        "collect x assign-global": sc([[G], [S]], 30, [], TS),
        "collect x assign-global [two stoppers excluded]": sc([[G], [S]], 40, ["two-stoppers"], TS),
        "collect x define-global [two stoppers excluded]": sc([[G], [D]], 40, ["two-stoppers"], TS),
        "collect x primitive-call": sc([[G], [P]], 40, []),
        "assign-global x primitive-call": sc([[S], [P]], 44, []),
        "collect x user-steps": sc([[G], [U, U]], 36, []),
        "collect x collect": sc([[G], [G]], 40, ["two-stoppers"], TS),
        "assign-global x spawn": sc([[S], ["spawn"]], 40, []),
        "collect x spawn": sc([[G], ["spawn"]], 36, []),
        "assign-global x exiting thread": sc([[S], [U]], 36, []),
        "collect x exiting thread": sc([[G], [U]], 36, []),
        "collect (under way) x assign-global": sc([[G], [S]], 40, ["gc-first"]),
        "collect (under way) x define-global": sc([[G], [D]], 40, ["gc-first"]),
        # K = 60 covers one COMPLETE stop-scan-resume cycle and the other thread's wake-up after it
        # (measured: unsat in 2181 s on a loaded machine; own cap of 2 h)
        "assign-global x primitive-call, whole cycle": sc([[S], [P]], 60, []) + (7200,),
    },
}


def _replay(r):
    ops = [op for _, prog in r["spec"] for op in prog]
    if "spawn" in ops or r["name"].endswith("exiting thread"):
        # no forced schedule: stress with a single stopper and a watchdog
        if G in ops and S not in ops and D not in ops:
            return "stress_progress", {"VERIF_SYNC_STOPPER": "gc", "VERIF_SYNC_ROUNDS": "240"}
        return "stress_progress", {}
    if r["name"].startswith("collect (under way)"):
        return "gc_first", {}
    return "two_stoppers", {}


def check(pid, tier, seed):
    return p_sync.check(pid, tier, seed, {"scenarios": SCEN, "replay": _replay, "conformance": {"thorough": [("set", "user")]}})


def replay(pid, path):
    return p_sync.replay(pid, path)
