"""C19: unreachable mutable storage is eventually reclaimed (allocator accounting kernel)."""
import p_kani
from . import c04

RULE = ("each obligation is one Kani/CBMC query over the real FreeList<T> accounting from every 3-slot pre-state: a slot "
        "without any handle is free after a weak collection; after mark_all_unreachable + marks + recount the free count "
        "equals the number of unmarked slots and the fill ratio stays in [0,1]; non-trivial = covers 'something reclaimed', "
        "'everything reached', 'nothing reached' satisfied")


def plan(tier):
    q = [{"h": "heap_weak_collection_step", "sym": "reachable[3], value[3], held[3], cursor"},
         {"h": "heap_reset_and_recount_step", "sym": "pre-state + marked[3]"},
         {"h": "heap_roots_history", "sym": "root(a); g1 <= 2 generation increments; root(b); g2 <= 2 increments; free one of the two tokens"}]
    t = [{"h": "heap_grow_step", "sym": "any valid 3-slot state incl. a full heap; grow_by(2)"}]
    return q + (t if tier == "thorough" else [])


def check(pid, tier, seed):
    run = p_kani.check(pid, tier, seed, c04.SPECS, plan(tier), c04.FUNCS, {"slots": 3, "unwind": 5},
                        c04.ASSUME + ["heap_roots_history: the FxHashMap of Roots is replaced by a 4-entry association list (trusted: a finite map)", "cyclic garbage, the trigger policy and weak boxes are outside the claim (they need the marker and a running VM)"],
                        RULE + "; host roots: after releasing one of two root tokens made in arbitrary generations exactly the other value is still rooted",
                        slots=3, timeout=2400)
    recycle_roots_obligation(run)
    return run


def recycle_roots_obligation(run):
    """E3e' : the global-slot recycler queues a global root only after the candidate-set membership test (lib/p_order.py)"""
    import os, re, json, shutil, subprocess, time
    import ws, p_order
    oid = "recycle:candidates-are-not-roots"
    t0 = time.time()
    try:
        wsdir = ws.prepare("c19mir", [])
        root = os.path.dirname(wsdir)
        out = os.path.join(root, "steel_core.mir")
        env = ws.mir_dump(wsdir, root, out)
        res = p_order.analyse_recycle(open(out).read())
    except Exception as ex:
        run.ob(oid, "inconclusive", reason="extraction failed: %s" % str(ex)[-300:], engine="mir-smt")
        return
    common = dict(engine="mir-smt/z3", wall_s=round(time.time() - t0, 1), solver_s=round(sum(r["dt"] for r in res), 3), solver_checks=2 * len(res))
    run.samples.append({"engine": "mir-smt", "query": "exists a control-flow path in GlobalSlotRecycler::recycle from the entry to a push_back of a value taken from the roots slice that does not pass the membership test of the candidate set (HashSet::contains); rank-encoded reachability, z3",
                        "sites": [(r["block"], r["res"]) for r in res]})
    run.functions.append("values::closed::GlobalSlotRecycler::recycle: order of the candidate-set test and the queueing of global roots (MIR control flow)")
    run.assumptions.append("recycle (E3e'): only the ORDER membership-test -> push_back is decided, not the direction of the branch taken on the test's answer")
    if not res or any(r["witness"] != "sat" or r["res"] == "error" for r in res):
        run.ob(oid, "inconclusive", reason="vacuous or solver error (%d root-queueing sites)" % len(res), **common)
        return
    bad = [r for r in res if r["res"] == "sat"]
    if not bad:
        run.ob(oid, "pass", nonvacuous=True, note="%d site(s) queue a global root, each only after the candidate-set test" % len(res), **common)
        return
    what = "GlobalSlotRecycler::recycle queues a global root on a path that has not tested its index against the candidate set: candidates keep themselves (and what they mention) alive"
    try:
        shutil.copy(os.path.join(ws.VERIF, "harness", "arity_replay.rs"), os.path.join(wsdir, "crates", "steel-core", "tests", "verif_arity_replay.rs"))
        p = subprocess.run(["cargo", "test", "--offline", "-p", "steel-core", "--no-default-features", "--features", ws.FEATURES,
                            "--test", "verif_arity_replay", "--target-dir", os.path.join(root, "tn"), "--", "recycle_roots_replay", "--exact", "--nocapture"],
                           cwd=wsdir, env=env, capture_output=True, text=True, timeout=2400)
        m = re.search(r"OBSERVED: (.*)", p.stdout + p.stderr)
    except Exception as ex:
        run.ob(oid, "inconclusive", reason="replay failed: %s" % str(ex)[-300:], **common)
        return
    if not m:
        run.ob(oid, "inconclusive", reason="solver: %s; the shadowed generations were released natively" % what, **common)
        return
    d = os.path.join(ws.VERIF, "replays", run.pid)
    os.makedirs(d, exist_ok=True)
    path = os.path.join(d, "recycle_roots.json")
    json.dump({"property": run.pid, "kind": "recycle", "what": what, "observed": m.group(1), "how": "./check %s --replay <this file>" % run.pid}, open(path, "w"), indent=1)
    key = "recycle:candidates-queued-as-roots"
    if run.is_known(key):
        run.known_hit(key, run.known[(run.pid, key)] + " -- " + m.group(1)[:200])
        run.ob(oid, "known", nonvacuous=True, **common)
    else:
        run.violation(key, "%s; natively: %s" % (what, m.group(1)[:300]), path)
        run.ob(oid, "fail", note=m.group(1)[:200], **common)


def replay(pid, path):
    import json
    payload = json.load(open(path))
    if payload.get("kind") == "recycle":
        import os, re, shutil, subprocess, ws
        wsdir = ws.prepare("c19replay", [])
        root = os.path.dirname(wsdir)
        shutil.copy(os.path.join(ws.VERIF, "harness", "arity_replay.rs"), os.path.join(wsdir, "crates", "steel-core", "tests", "verif_arity_replay.rs"))
        p = subprocess.run(["cargo", "test", "--offline", "-p", "steel-core", "--no-default-features", "--features", ws.FEATURES,
                            "--test", "verif_arity_replay", "--target-dir", os.path.join(root, "tn"), "--", "recycle_roots_replay", "--exact", "--nocapture"],
                           cwd=wsdir, env=dict(os.environ, CARGO_NET_OFFLINE="true"), capture_output=True, text=True)
        m = re.search(r"OBSERVED: (.*)", p.stdout + p.stderr)
        print("observed:", m.group(1) if m else "not reproduced")
        if m:
            print("VIOLATION property=%s replay=%s" % (pid, path))
            return 1
        return 0
    return p_kani.replay(pid, path)
