"""C19: unreachable mutable storage is eventually reclaimed (allocator accounting kernel)."""
import p_kani
from . import c04

RULE = ("each obligation is one Kani/CBMC query over the real FreeList<T> accounting from every 3-slot pre-state: a slot "
        "without any handle is free after a weak collection; after mark_all_unreachable + marks + recount the free count "
        "equals the number of unmarked slots and the fill ratio stays in [0,1]; non-trivial = covers 'something reclaimed', "
        "'everything reached', 'nothing reached' satisfied")


def plan(tier):
    q = [{"h": "heap_weak_collection_step", "sym": "reachable[3], value[3], held[3], cursor"},
         {"h": "heap_reset_and_recount_step", "sym": "pre-state + marked[3]"},
         {"h": "heap_roots_history", "sym": "root(a); g1 <= 2 generation increments; root(b); g2 <= 2 increments; free one of the two tokens"}]
    t = [{"h": "heap_grow_step", "sym": "any valid 3-slot state incl. a full heap; grow_by(2)"}]
    return q + (t if tier == "thorough" else [])


def check(pid, tier, seed):
    return p_kani.check(pid, tier, seed, c04.SPECS, plan(tier), c04.FUNCS, {"slots": 3, "unwind": 5},
                        c04.ASSUME + ["heap_roots_history: the FxHashMap of Roots is replaced by a 4-entry association list (trusted: a finite map)", "cyclic garbage, the trigger policy and weak boxes are outside the claim (they need the marker and a running VM)"],
                        RULE + "; host roots: after releasing one of two root tokens made in arbitrary generations exactly the other value is still rooted",
                        slots=3, timeout=2400)


def replay(pid, path):
    return p_kani.replay(pid, path)
