"""C19: unreachable mutable storage is eventually reclaimed (allocator accounting kernel)."""
import p_kani
from . import c04

RULE = ("each obligation is one Kani/CBMC query over the real FreeList<T> accounting from every 3-slot pre-state: a slot "
        "without any handle is free after a weak collection; after mark_all_unreachable + marks + recount the free count "
        "equals the number of unmarked slots and the fill ratio stays in [0,1]; non-trivial = covers 'something reclaimed', "
        "'everything reached', 'nothing reached' satisfied")


def plan(tier):
    return [{"h": "heap_weak_collection_step", "sym": "reachable[3], value[3], held[3], cursor"},
            {"h": "heap_reset_and_recount_step", "sym": "pre-state + marked[3]"}]


def check(pid, tier, seed):
    return p_kani.check(pid, tier, seed, c04.SPECS, plan(tier), c04.FUNCS, {"slots": 3, "unwind": 5},
                        c04.ASSUME + ["cyclic garbage, the trigger policy and weak boxes are outside the claim (they need the marker and a running VM)"],
                        RULE, slots=2, timeout=2400)


def replay(pid, path):
    return p_kani.replay(pid, path)
