"""C20: the host boundary converts faithfully (engine E1; scalar conversions)."""
import p_kani

RULE = ("each obligation is one Kani/CBMC query: a real FromSteelVal / IntoSteelVal / From impl executed on a "
        "full-width symbolic scalar; asserted: Ok(v) only with the same mathematical value, out of range => Err, "
        "never a wrapped value, round trip is the identity; non-trivial = in-range and out-of-range covers satisfied")

SPECS = [p_kani.Spec("steel-core", "steel-core/src/primitives.rs", "conv.rs", "verif_conv")]

FUNCS = ["primitives::{FromSteelVal, TryFrom<SteelVal>, TryFrom<&SteelVal>} for {i8,u8,i16,u16,i32,u32,i64,u64,isize,usize,f32,f64,char,bool,()}",
         "primitives::{IntoSteelVal, From<T> for SteelVal} for {i8,u8,i16,u16,i32,u32,i64,u64,isize,usize,u128,f32,f64,char,bool,(),Option<T>}"]

ASSUME = [
    "stub: std::rt::thread_cleanup = no-op; alloc::fmt::format returns an empty String (error text not checked, Err/Ok is)",
    "feature set std,sync,biased,imbl,rooted-instructions; values are mem::forgotten",
    "script integers are IntV (machine word); BigNum sources are covered only through u64/usize/i64 'into' directions",
]

INTS = ["i8", "u8", "i16", "u16", "i32", "u32", "i64", "u64", "isize", "usize"]


def plan(tier):
    q = [{"h": "conv_from_%s" % t, "sym": "x: isize (full width) as IntV"} for t in ("i32", "u64", "usize", "u8")]
    q += [{"h": "conv_into_%s" % t, "sym": "v: %s (full width)" % t} for t in ("u64", "i64")]
    q += [{"h": "conv_char_bool_unit", "sym": "c: char, b: bool, i: isize"},
          {"h": "conv_into_u128", "sym": "v: u128 < 2^70"},
          {"h": "conv_from_big_i64", "sym": "big integer a, 2^63 <= |a| < 2^66, as i64"}]
    t = [{"h": "conv_from_%s" % t, "sym": "x: isize"} for t in INTS if t not in ("i32", "u64", "usize", "u8")]
    t += [{"h": "conv_into_%s" % t, "sym": "v: %s" % t} for t in INTS if t not in ("u64", "i64")]
    t += [{"h": "conv_fromtrait_%s" % t, "sym": "v: %s" % t} for t in ("u64", "u32", "i64", "usize")]
    t += [{"h": "conv_f64_roundtrip", "sym": "v: f64 (all bit patterns)"}, {"h": "conv_f32_roundtrip", "sym": "v: f32"},
          {"h": "conv_option_i32", "sym": "Option<i32>"},
          {"h": "conv_from_big_u8", "sym": "big integer as u8"}, {"h": "conv_from_big_i8", "sym": "big integer as i8"}]
    return q + (t if tier == "thorough" else [])


def check(pid, tier, seed):
    return p_kani.check(pid, tier, seed, SPECS, plan(tier), FUNCS,
                        {"scalars": "full width of each type", "unwind": 6}, ASSUME, RULE, slots=4)


def replay(pid, path):
    return p_kani.replay(pid, path)
