"""C20: the host boundary converts faithfully (engine E1; scalar conversions)."""
import p_kani

RULE = ("each obligation is one Kani/CBMC query: a real FromSteelVal / IntoSteelVal / From impl executed on a "
        "full-width symbolic scalar; asserted: Ok(v) only with the same mathematical value, out of range => Err, "
        "never a wrapped value, round trip is the identity; non-trivial = in-range and out-of-range covers satisfied")

SPECS = [p_kani.Spec("steel-core", "steel-core/src/primitives.rs", "conv.rs", "verif_conv")]

FUNCS = ["primitives::{FromSteelVal, TryFrom<SteelVal>, TryFrom<&SteelVal>} for {i8,u8,i16,u16,i32,u32,i64,u64,isize,usize,f32,f64,char,bool,()}",
         "primitives::{IntoSteelVal, From<T> for SteelVal} for {i8,u8,i16,u16,i32,u32,i64,u64,isize,usize,u128,f32,f64,char,bool,(),Option<T>}"]

ASSUME = [
    "arity (E3): only branch conditions on the slice length of the argument vector are interpreted; every other branch is free; wrappers = closures named register_fn*::{closure#0} taking &[SteelVal]",
    "stub: std::rt::thread_cleanup = no-op; alloc::fmt::format returns an empty String (error text not checked, Err/Ok is)",
    "feature set std,sync,biased,imbl,rooted-instructions; values are mem::forgotten",
    "script integers are IntV (machine word); BigNum sources are covered only through u64/usize/i64 'into' directions",
    "lend (E3i): only the three facts named in lib/p_lend.py are decided, per wrapper closure, as path queries (branches other than argument-count tests are free); the run-time checks that USE the flags (as_mut_ref_from_ref / as_ref_from_ref), the nursery's clean-up at the end of the lending call and clones of a derived reference are not encoded -- the native replay exercises them",
]

INTS = ["i8", "u8", "i16", "u16", "i32", "u32", "i64", "u64", "isize", "usize"]


def plan(tier):
    q = [{"h": "conv_from_%s" % t, "sym": "x: isize (full width) as IntV"} for t in ("i32", "u64", "usize", "u8")]
    q += [{"h": "conv_into_%s" % t, "sym": "v: %s (full width)" % t} for t in ("u64", "i64")]
    q += [{"h": "conv_char_bool_unit", "sym": "c: char, b: bool, i: isize"},
          {"h": "conv_into_u128", "sym": "v: u128 < 2^70"},
          {"h": "conv_from_big_i64", "sym": "big integer a, 2^63 <= |a| < 2^66, as i64"},
          {"h": "conv_roundtrip_u64", "sym": "v: u64 (full width): into the script side and back"}]
    t = [{"h": "conv_from_%s" % t, "sym": "x: isize"} for t in INTS if t not in ("i32", "u64", "usize", "u8")]
    t += [{"h": "conv_into_%s" % t, "sym": "v: %s" % t} for t in INTS if t not in ("u64", "i64")]
    t += [{"h": "conv_fromtrait_%s" % t, "sym": "v: %s" % t} for t in ("u64", "u32", "i64", "usize")]
    t += [{"h": "conv_f64_roundtrip", "sym": "v: f64 (all bit patterns)"}, {"h": "conv_f32_roundtrip", "sym": "v: f32"},
          {"h": "conv_option_i32", "sym": "Option<i32>"},
          {"h": "conv_from_big_u8", "sym": "big integer as u8"}, {"h": "conv_from_big_i8", "sym": "big integer as i8"},
          {"h": "conv_roundtrip_usize", "sym": "v: usize"}, {"h": "conv_roundtrip_i64", "sym": "v: i64"}, {"h": "conv_roundtrip_u32", "sym": "v: u32"}]
    return q + (t if tier == "thorough" else [])


def arity_obligations(run, wsdir_for_mir=None):
    """E3: the register_fn wrapper closures (MIR -> SMT): the script's argument count is pinned to
    one value on every path to the host call."""
    import os, json, shutil, subprocess, re, time
    import ws, mir, p_arity, p_sync
    t0 = time.time()
    try:
        wsdir = ws.prepare("c20mir", [])
        root = os.path.dirname(wsdir)
        out = os.path.join(root, "steel_core.mir")
        env = dict(os.environ, CARGO_NET_OFFLINE="true")
        env.pop("RUSTFLAGS", None)
        ws.mir_dump(wsdir, root, out, env)
        funcs = mir.parse(open(out).read(), lambda n: "register_fn" in n and "{closure" in n)
        wrappers = p_arity.wrappers(funcs)
    except Exception as ex:
        run.ob("arity:mir-dump", "inconclusive", reason=str(ex)[-500:], engine="mir-smt")
        return
    if len(wrappers) < 20:
        run.ob("arity:wrappers", "inconclusive", reason="only %d register_fn wrapper closures recognised in the MIR dump" % len(wrappers), engine="mir-smt")
        return
    bad, errs, n_unsat, solver_s = [], [], 0, 0.0
    for key, f, calls in wrappers:
        try:
            r = p_arity.check_wrapper(key, f, calls)
        except Exception as ex:
            errs.append("%s: %s" % (key[-60:], str(ex)[:120]))
            continue
        solver_s += r["dt"]
        if r["res"] == "unsat":
            n_unsat += 1
        elif r["res"] == "sat":
            bad.append(r)
        else:
            errs.append("%s: solver %s" % (key[-60:], r["res"]))
    run.functions.append("steel_vm::register_fn: %d wrapper closures `register_fn::{closure#0}` / `register_owned_fn` / `register_fn_borrowed` (MIR)" % len(wrappers))
    run.samples.append({"engine": "mir-smt", "wrappers": len(wrappers), "query": "exists len1 != len2 both reaching <FN as Fn<..>>::call", "unsat": n_unsat})
    common = dict(engine="mir-smt/z3", wall_s=time.time() - t0, solver_s=round(solver_s, 2), solver_checks=len(wrappers))
    mapping_obligation(run, wrappers, wsdir, root, env)
    lend_obligation(run, out, wsdir, root, env)
    tuple_obligation(run, out, wsdir, root, env)
    if errs:
        run.ob("arity:wrappers", "inconclusive", reason="; ".join(errs[:3]), **common)
        return
    if not bad:
        run.ob("arity:wrappers", "pass", nonvacuous=True, note="%d wrappers: argument count pinned on every path to the host call" % n_unsat, **common)
        return
    # replay natively
    r = bad[0]
    lens = ",".join(str(x) for x in r["lens"])
    try:
        shutil.copy(os.path.join(ws.VERIF, "harness", "arity_replay.rs"), os.path.join(wsdir, "crates", "steel-core", "tests", "verif_arity_replay.rs"))
        p = subprocess.run(["cargo", "test", "--offline", "-p", "steel-core", "--no-default-features", "--features", ws.FEATURES,
                            "--test", "verif_arity_replay", "--target-dir", os.path.join(root, "tn"), "--", "arity_replay", "--exact", "--nocapture"],
                           cwd=wsdir, env=dict(env, VERIF_ARITY_LENS=lens), capture_output=True, text=True, timeout=1800)
        m = re.search(r"OBSERVED: (.*)", p.stdout + p.stderr)
    except Exception as ex:
        m, p = None, None
        run.ob("arity:wrappers", "inconclusive", reason="replay failed: %s" % str(ex)[-300:], **common)
        return
    if not m:
        run.ob("arity:wrappers", "inconclusive", reason="solver: argument counts %s both reach the host call in %s, but no wrong-arity call was accepted natively" % (lens, r["name"][-80:]), **common)
        return
    d = os.path.join(ws.VERIF, "replays", run.pid)
    os.makedirs(d, exist_ok=True)
    path = os.path.join(d, "arity.json")
    json.dump({"property": run.pid, "wrapper": r["name"], "lens": r["lens"], "observed": m.group(1), "kind": "arity",
               "how": "./check C20 --replay <this file>"}, open(path, "w"), indent=1)
    run.violation("arity:host-function-called-with-wrong-argument-count", "%s: %s" % (r["name"][-80:], m.group(1)[:300]), path)
    run.ob("arity:wrappers", "fail", note=m.group(1)[:200], **common)


def mapping_obligation(run, wrappers, wsdir, root, env):
    """E3 (second query): every parameter of the host function is computed from the argument written at
    the same position (the conversion of args[k] feeds parameter k, for every wrapper)."""
    import os, json, shutil, subprocess, re, time
    import ws, p_arity
    t0 = time.time()
    bad, errs, n_unsat, solver_s = [], [], 0, 0.0
    for key, f, calls in wrappers:
        try:
            r = p_arity.check_mapping(key, f, calls)
        except Exception as ex:
            errs.append("%s: %s" % (key[-60:], str(ex)[:120]))
            continue
        solver_s += r["dt"]
        if r["res"] == "unsat":
            n_unsat += 1
        elif r["res"] == "sat":
            bad.append(r)
        else:
            errs.append("%s: solver %s" % (key[-60:], r["res"]))
    run.samples.append({"engine": "mir-smt", "wrappers": len(wrappers), "query": "exists parameter position k of the host call whose value is not computed from args[k]", "unsat": n_unsat})
    common = dict(engine="mir-smt/z3", wall_s=time.time() - t0, solver_s=round(solver_s, 2), solver_checks=len(wrappers))
    oid = "arity:argument-mapping"
    if errs:
        run.ob(oid, "inconclusive", reason="; ".join(errs[:3]), **common)
        return
    if not bad:
        run.ob(oid, "pass", nonvacuous=True, note="%d wrappers: parameter k of the host call is the conversion of args[k], for every k" % n_unsat, **common)
        return
    r = bad[0]
    try:
        shutil.copy(os.path.join(ws.VERIF, "harness", "arity_replay.rs"), os.path.join(wsdir, "crates", "steel-core", "tests", "verif_arity_replay.rs"))
        p = subprocess.run(["cargo", "test", "--offline", "-p", "steel-core", "--no-default-features", "--features", ws.FEATURES,
                            "--test", "verif_arity_replay", "--target-dir", os.path.join(root, "tn"), "--", "mapping_replay", "--exact", "--nocapture"],
                           cwd=wsdir, env=dict(env, VERIF_MAP_N=str(r["n"])), capture_output=True, text=True, timeout=1800)
        m = re.search(r"OBSERVED: (.*)", p.stdout + p.stderr)
    except Exception as ex:
        run.ob(oid, "inconclusive", reason="replay failed: %s" % str(ex)[-300:], **common)
        return
    what = "%d wrapper(s), e.g. %s: parameter %d of a %d-parameter host function is computed from argument(s) %s" % (len(bad), r["name"][-70:], r["k"], r["n"], r["src"][r["k"]])
    if not m:
        run.ob(oid, "inconclusive", reason="solver: %s; not reproduced through a script call" % what, **common)
        return
    d = os.path.join(ws.VERIF, "replays", run.pid)
    os.makedirs(d, exist_ok=True)
    path = os.path.join(d, "mapping.json")
    json.dump({"property": run.pid, "wrapper": r["name"], "n": r["n"], "k": r["k"], "src": r["src"], "observed": m.group(1), "kind": "mapping",
               "how": "./check C20 --replay <this file>"}, open(path, "w"), indent=1)
    run.violation("arity:host-parameter-fed-from-another-argument", "%s; natively: %s" % (what, m.group(1)[:300]), path)
    run.ob(oid, "fail", note=m.group(1)[:200], **common)


def tuple_obligation(run, mir_path, wsdir, root, env):
    """E3r: a fixed-size host shape is extracted from a script list only after its length was tested (lib/p_order.analyse_tuple_len)"""
    import os, json, shutil, subprocess, re, time
    import ws, p_order
    oid = "tuple:fixed-size-shapes-test-the-list-length"
    t0 = time.time()
    try:
        res = p_order.analyse_tuple_len(open(mir_path).read())
    except Exception as ex:
        run.ob(oid, "inconclusive", reason="extraction failed: %s" % str(ex)[-300:], engine="mir-smt")
        return
    common = dict(engine="mir-smt/z3", wall_s=round(time.time() - t0, 1), solver_s=round(sum(r["dt"] for r in res), 3), solver_checks=len(res))
    run.samples.append({"engine": "mir-smt", "query": "exists a path in <(A, B, ..) as FromSteelVal>::from_steelval from the entry to the Ok(..) result that passes no branch on a comparison of the list's len() with a constant",
                        "impls": [(r["shape"], r["length_tests"], r["res"]) for r in res]})
    run.functions.append("conversions::<(A, B) as FromSteelVal>::from_steelval: the length test dominates the Ok result (MIR control flow)")
    if not res or any(r["res"] == "error" for r in res):
        run.ob(oid, "inconclusive", reason="no tuple conversion recognised or solver error", **common)
        return
    bad = [r for r in res if r["res"] == "sat"]
    if not bad:
        run.ob(oid, "pass", nonvacuous=True, note="%d tuple conversion(s): Ok only behind a test of the list's length" % len(res), **common)
        return
    what = "the conversion of a script list to the host shape %s reaches Ok on a path without a test of the list's length" % bad[0]["shape"]
    try:
        shutil.copy(os.path.join(ws.VERIF, "harness", "arity_replay.rs"), os.path.join(wsdir, "crates", "steel-core", "tests", "verif_arity_replay.rs"))
        p = subprocess.run(["cargo", "test", "--offline", "-p", "steel-core", "--no-default-features", "--features", ws.FEATURES,
                            "--test", "verif_arity_replay", "--target-dir", os.path.join(root, "tn"), "--", "tuple_len_replay", "--exact", "--nocapture"],
                           cwd=wsdir, env=env, capture_output=True, text=True, timeout=2400)
        m = re.search(r"OBSERVED: (.*)", p.stdout + p.stderr)
    except Exception as ex:
        run.ob(oid, "inconclusive", reason="replay failed: %s" % str(ex)[-300:], **common)
        return
    if not m:
        run.ob(oid, "inconclusive", reason="solver: %s; only the two-element list converted natively" % what, **common)
        return
    d = os.path.join(ws.VERIF, "replays", run.pid)
    os.makedirs(d, exist_ok=True)
    path = os.path.join(d, "tuple_len.json")
    json.dump({"property": run.pid, "kind": "tuple", "what": what, "observed": m.group(1), "how": "./check C20 --replay <this file>"}, open(path, "w"), indent=1)
    run.violation("tuple:length-not-tested", "%s; natively: %s" % (what, m.group(1)[:300]), path)
    run.ob(oid, "fail", note=m.group(1)[:200], **common)


def lend_obligation(run, mir_path, wsdir, root, env):
    """E3i: the wrappers that hand out a reference derived from a lent reference mark the parent as borrowed, park the
    owner of the derived pointer in the nursery, and mark the parent the reference was derived from (lib/p_lend.py)."""
    import os, json, shutil, subprocess, re, time
    import ws, p_lend
    oid = "lend:derived-reference-protocol"
    t0 = time.time()
    try:
        r = p_lend.analyse(open(mir_path).read())
    except Exception as ex:
        run.ob(oid, "inconclusive", reason="extraction failed: %s" % str(ex)[-300:], engine="mir-smt")
        return
    common = dict(engine="mir-smt/z3", wall_s=round(time.time() - t0, 1), solver_s=round(r["solver_s"], 2), solver_checks=r["queries"])
    run.functions.append("steel_vm::register_fn: %d wrapper closures that hand out a derived reference (ReadOnlyBorrowedObject::new / BorrowedObject::with_parent_flag), control-flow paths (MIR)" % len(r["wrappers"]))
    run.samples.append({"engine": "mir-smt", "query": "exists an acyclic path (and argument count) from the wrapper's entry to the hand-out of a derived reference that avoids "
                        "(marked) the increment / store(true) on the parent's borrow flag, (owned) OpaqueReferenceNursery::allocate; (parent) flag taken from another argument than the receiver",
                        "wrappers": [(w["where"], w["kind"], {k: v.get("res", v) for k, v in w["facts"].items()}) for w in r["wrappers"]]})
    if r["errors"] or len(r["wrappers"]) < 4:
        run.ob(oid, "inconclusive", reason="; ".join(r["errors"][:3]) or "only %d derived-reference wrappers recognised" % len(r["wrappers"]), **common)
        return
    if not r["bad"]:
        run.ob(oid, "pass", nonvacuous=True, note="%d wrappers x 3 facts: no path to the hand-out without them" % len(r["wrappers"]), **common)
        return
    b = r["bad"][0]
    what = "%s (%s reference): a path to the hand-out of the derived reference %s" % (
        b["where"], "read-only" if b["kind"] == "ro" else "mutable",
        {"marked": "does not mark the parent as borrowed", "owned": "does not park the owner of the derived pointer in the nursery",
         "parent": "marks the flag of argument %s while the reference is derived from argument %s" % (b.get("flag_of_argument"), b.get("receiver_argument"))}[b["fact"]])
    try:
        shutil.copy(os.path.join(ws.VERIF, "harness", "arity_replay.rs"), os.path.join(wsdir, "crates", "steel-core", "tests", "verif_arity_replay.rs"))
        p = subprocess.run(["cargo", "test", "--offline", "-p", "steel-core", "--no-default-features", "--features", ws.FEATURES,
                            "--test", "verif_arity_replay", "--target-dir", os.path.join(root, "tn"), "--", "lend_replay", "--exact", "--nocapture"],
                           cwd=wsdir, env=env, capture_output=True, text=True, timeout=2400)
        m = re.search(r"OBSERVED: (.*)", p.stdout + p.stderr)
    except Exception as ex:
        run.ob(oid, "inconclusive", reason="replay failed: %s" % str(ex)[-300:], **common)
        return
    if not m:
        run.ob(oid, "inconclusive", reason="solver: %s; not reproduced through a lending call" % what, **common)
        return
    d = os.path.join(ws.VERIF, "replays", run.pid)
    os.makedirs(d, exist_ok=True)
    path = os.path.join(d, "lend.json")
    json.dump({"property": run.pid, "kind": "lend", "what": what, "bad": r["bad"][:4], "observed": m.group(1), "how": "./check C20 --replay <this file>"}, open(path, "w"), indent=1)
    run.violation("lend:%s-%s" % (b["fact"], b["kind"]), "%s; natively: %s" % (what, m.group(1)[:300]), path)
    run.ob(oid, "fail", note=m.group(1)[:200], **common)


def check(pid, tier, seed):
    run = p_kani.check(pid, tier, seed, SPECS, plan(tier), FUNCS,
                       {"scalars": "full width of each type", "unwind": 6, "arity": "all register_fn wrapper closures in the MIR dump, argument count 64-bit"}, ASSUME, RULE, slots=4)
    arity_obligations(run)
    return run


def replay(pid, path):
    import json
    payload = json.load(open(path))
    if payload.get("kind") == "mapping":
        import os, shutil, subprocess, re, ws
        wsdir = ws.prepare("c20replay", [])
        root = os.path.dirname(wsdir)
        shutil.copy(os.path.join(ws.VERIF, "harness", "arity_replay.rs"), os.path.join(wsdir, "crates", "steel-core", "tests", "verif_arity_replay.rs"))
        p = subprocess.run(["cargo", "test", "--offline", "-p", "steel-core", "--no-default-features", "--features", ws.FEATURES,
                            "--test", "verif_arity_replay", "--target-dir", os.path.join(root, "tn"), "--", "mapping_replay", "--exact", "--nocapture"],
                           cwd=wsdir, env=dict(os.environ, VERIF_MAP_N=str(payload["n"])), capture_output=True, text=True)
        m = re.search(r"OBSERVED: (.*)", p.stdout + p.stderr)
        print("observed:", m.group(1) if m else "not reproduced")
        if m:
            print("VIOLATION property=%s replay=%s" % (pid, path))
            return 1
        return 0
    if payload.get("kind") == "tuple":
        import os, shutil, subprocess, re, ws
        wsdir = ws.prepare("c20replay", [])
        root = os.path.dirname(wsdir)
        shutil.copy(os.path.join(ws.VERIF, "harness", "arity_replay.rs"), os.path.join(wsdir, "crates", "steel-core", "tests", "verif_arity_replay.rs"))
        p = subprocess.run(["cargo", "test", "--offline", "-p", "steel-core", "--no-default-features", "--features", ws.FEATURES,
                            "--test", "verif_arity_replay", "--target-dir", os.path.join(root, "tn"), "--", "tuple_len_replay", "--exact", "--nocapture"],
                           cwd=wsdir, env=dict(os.environ, CARGO_NET_OFFLINE="true"), capture_output=True, text=True)
        m = re.search(r"OBSERVED: (.*)", p.stdout + p.stderr)
        print("observed:", m.group(1) if m else "not reproduced")
        if m:
            print("VIOLATION property=%s replay=%s" % (pid, path))
            return 1
        return 0
    if payload.get("kind") == "lend":
        import os, shutil, subprocess, re, ws
        wsdir = ws.prepare("c20replay", [])
        root = os.path.dirname(wsdir)
        shutil.copy(os.path.join(ws.VERIF, "harness", "arity_replay.rs"), os.path.join(wsdir, "crates", "steel-core", "tests", "verif_arity_replay.rs"))
        p = subprocess.run(["cargo", "test", "--offline", "-p", "steel-core", "--no-default-features", "--features", ws.FEATURES,
                            "--test", "verif_arity_replay", "--target-dir", os.path.join(root, "tn"), "--", "lend_replay", "--exact", "--nocapture"],
                           cwd=wsdir, env=dict(os.environ, CARGO_NET_OFFLINE="true"), capture_output=True, text=True)
        m = re.search(r"OBSERVED: (.*)", p.stdout + p.stderr)
        print("observed:", m.group(1) if m else "not reproduced")
        if m:
            print("VIOLATION property=%s replay=%s" % (pid, path))
            return 1
        return 0
    if payload.get("kind") == "arity":
        import os, shutil, subprocess, re, ws
        wsdir = ws.prepare("c20replay", [])
        root = os.path.dirname(wsdir)
        shutil.copy(os.path.join(ws.VERIF, "harness", "arity_replay.rs"), os.path.join(wsdir, "crates", "steel-core", "tests", "verif_arity_replay.rs"))
        p = subprocess.run(["cargo", "test", "--offline", "-p", "steel-core", "--no-default-features", "--features", ws.FEATURES,
                            "--test", "verif_arity_replay", "--target-dir", os.path.join(root, "tn"), "--", "arity_replay", "--exact", "--nocapture"],
                           cwd=wsdir, env=dict(os.environ, VERIF_ARITY_LENS=",".join(str(x) for x in payload["lens"])), capture_output=True, text=True)
        m = re.search(r"OBSERVED: (.*)", p.stdout + p.stderr)
        print("observed:", m.group(1) if m else "not reproduced")
        if m:
            print("VIOLATION property=%s replay=%s" % (pid, path))
            return 1
        return 0
    return p_kani.replay(pid, path)
