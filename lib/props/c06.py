"""C06: earlier definitions keep their meaning across any evaluation history (symbol-table kernel)."""
import p_kani

RULE = ("each obligation is one Kani/CBMC query over a short symbolic HISTORY of real SymbolMap operations "
        "(define / redefine over 3 names, slot release by the recycler, failed evaluation rolled back as the engine "
        "does), compared after every step with a ghost table of the binding in force per name; non-trivial = the "
        "covers 'redefined an earlier name', 'introduced a new name', 'released slot reused' are satisfied")

SPECS = [p_kani.Spec("steel-core", "steel-core/src/compiler/map.rs", "sym.rs", "verif_sym")]
FUNCS = ["compiler::map::SymbolMap::{new, add, get/map, len, roll_back}", "compiler::map::FreeList::{add_shadowed, pop_next_free}"]
ASSUME = [
    "stub: HashSet::insert (recently_freed) is a no-op returning true; std::rt::thread_cleanup no-op; fmt::format empty",
    "names are raw InternedString::new(k) keys (no interner); histories: <= 2 successful definitions, then <= 2 definitions of a failed evaluation",
    "the recycler's release of a slot is modelled by what GlobalSlotRecycler does to the table (shadowed_slots.pop -> free_list.push); whether its reachability scan is complete is outside the claim",
]


KF_RESIDUE = "sym:rollback-keeps-definition-in-recycled-slot"


def plan(tier):
    q = [
        {"h": "sym_rollback_1_1", "sym": "one successful definition; failed evaluation defines f1 in {1,2,3}"},
        {"h": "sym_rollback_redef_1", "sym": "name 1 defined twice; failed evaluation defines f1 in {1,2,3}"},
        {"h": "sym_rollback_redef_twice", "sym": "name 1 defined three times; failed evaluation defines f1 in {1,2,3}"},
        {"h": "sym_recycled_slot_reuse", "sym": "a != b, c in {1,2,3}"},
        {"h": "sym_rollback_with_recycled_slot", "sym": "f in {1,2,3}",
         "classify": {KF_RESIDUE: r"reused a released slot"}, "known": {KF_RESIDUE: "sym_rollback_with_recycled_slot__kf"}},
    ]
    # not covered (measured): failed evaluations with TWO definitions (sym_rollback_1_2 / 2_2): the
    # solver runs out of memory (26 GB) on the Vec operations of the repaired roll_back
    t = [
        {"h": "sym_rollback_2_1", "sym": "two successful definitions; f1"},
    ]
    return q + (t if tier == "thorough" else [])


def check(pid, tier, seed):
    run = p_kani.check(pid, tier, seed, SPECS, plan(tier), FUNCS, {"names": 3, "history": "<= 4 definitions + 1 roll-back", "unwind": 8},
                        ASSUME, RULE, slots=3)
    import p_visit_ob
    p_visit_ob.obligations(run, ["GlobalSlotRecycler"])
    return run


def replay(pid, path):
    import json
    payload = json.load(open(path))
    if payload.get("kind") in ("trace", "opscan", "bypass"):
        import p_visit_ob
        return p_visit_ob.replay(pid, payload, path)
    return p_kani.replay(pid, path)
