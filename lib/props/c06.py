"""C06: earlier definitions keep their meaning across any evaluation history (symbol-table kernel)."""
import p_kani

RULE = ("each obligation is one Kani/CBMC query over a short symbolic HISTORY of real SymbolMap operations "
        "(define / redefine over 3 names, slot release by the recycler, failed evaluation rolled back as the engine "
        "does), compared after every step with a ghost table of the binding in force per name; non-trivial = the "
        "covers 'redefined an earlier name', 'introduced a new name', 'released slot reused' are satisfied")

SPECS = [p_kani.Spec("steel-core", "steel-core/src/compiler/map.rs", "sym.rs", "verif_sym")]
FUNCS = ["compiler::map::SymbolMap::{new, add, get/map, len, roll_back}", "compiler::map::FreeList::{add_shadowed, pop_next_free}"]
ASSUME = [
    "stub: HashSet::insert (recently_freed) is a no-op returning true; std::rt::thread_cleanup no-op; fmt::format empty",
    "names are raw InternedString::new(k) keys (no interner); histories: <= 2 successful definitions, then <= 2 definitions of a failed evaluation",
    "the recycler's release of a slot is modelled by what GlobalSlotRecycler does to the table (shadowed_slots.pop -> free_list.push); whether its reachability scan is complete is outside the claim",
]
KF_ROLLBACK = "sym:rollback-unbinds-redefined-name"


def plan(tier):
    return [
        {"h": "sym_rollback_restores_earlier_definitions", "sym": "n1,n2,f1,f2 in {1,2,3}; two/ftwo: bool",
         "classify": {KF_ROLLBACK: r"no longer resolves as before"}, "known": {KF_ROLLBACK: "sym_rollback_restores_earlier_definitions__kf"}},
        {"h": "sym_recycled_slot_reuse", "sym": "a != b, c in {1,2,3}"},
        {"h": "sym_rollback_with_recycled_slot", "sym": "a, f in {1,2,3}",
         "classify": {KF_ROLLBACK: r"do not resolve as before"}},
    ]


def check(pid, tier, seed):
    return p_kani.check(pid, tier, seed, SPECS, plan(tier), FUNCS, {"names": 3, "history": "<= 4 definitions + 1 roll-back", "unwind": 8},
                        ASSUME, RULE, slots=3)


def replay(pid, path):
    return p_kani.replay(pid, path)
