"""C04: the collector never reclaims or overwrites reachable mutable storage (allocator kernel)."""
import p_kani

RULE = ("each obligation is one Kani/CBMC query: ONE real FreeList<T> operation (allocate / weak collection) from EVERY "
        "3-slot pre-state satisfying the representation invariant (symbolic reachable bits, values, held handles, cursor); "
        "asserted: no slot with a held handle is overwritten or freed, the new handle reads back its value, invariant "
        "re-established; non-trivial = covers 'cursor wrapped around', 'some handle is held', 'something reclaimed' satisfied")

SPECS = [p_kani.Spec("steel-core", "steel-core/src/values/closed.rs", "heap.rs", "verif_heap")]
FUNCS = ["values::closed::FreeList<T>::{allocate, weak_collection, collect_on_condition, mark_all_unreachable, recount, percent_full, grow_by}",
         "values::closed::Roots::{root, free, increment_generation}",
         "values::closed::{HeapRef::get, HeapAllocated::{new, is_reachable, mark_reachable, reset}}"]
ASSUME = [
    "FreeList<T> is instantiated at T = u8 (HeapAble for u8 lives in the harness); the generic code is the repository's",
    "N = 3 slots; at least two free slots before an allocation, so that heap growth (EXTEND_CHUNK = 25600 slots) is not taken: growth and compaction are outside the claim",
    "the root set handed to the marker (stack, frames, globals, other threads) and the marker's traversal of value kinds are outside the claim (they need a running VM)",
    "stub: thread_cleanup no-op; fmt::format empty",
]


def plan(tier):
    q = [{"h": "heap_weak_collection_step", "sym": "reachable[3], value[3], held[3], cursor"},
         {"h": "heap_allocate_step", "sym": "reachable[3], value[3], held[3], cursor, v: u8"}]
    t = [{"h": "heap_reset_and_recount_step", "sym": "pre-state + marked[3]"},
         {"h": "heap_roots_history", "sym": "root(a); increments; root(b); increments; free one token"},
         {"h": "heap_grow_step", "sym": "any valid 3-slot state incl. a full heap; grow_by(2)"}]
    return q + (t if tier == "thorough" else [])


def check(pid, tier, seed):
    run = p_kani.check(pid, tier, seed, SPECS, plan(tier), FUNCS, {"slots": 3, "unwind": 5}, ASSUME, RULE, slots=2, timeout=2400)
    import p_visit_ob
    p_visit_ob.obligations(run, ["MarkAndSweepContext", "MarkAndSweepContextRefQueue"])
    return run


def replay(pid, path):
    import json
    payload = json.load(open(path))
    if payload.get("kind") in ("trace", "order", "bypass", "allocroots", "recount"):
        import p_visit_ob
        return p_visit_ob.replay(pid, payload, path)
    return p_kani.replay(pid, path)
