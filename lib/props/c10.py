"""C10: exact arithmetic is exact and the numeric tower is coherent (engine E1)."""
import p_kani

RULE = ("each obligation is one Kani/CBMC query: the real numeric primitive executed symbolically on full-width "
        "(64-bit) symbolic operands, result compared with an oracle computed in 128-bit arithmetic and checked for "
        "canonical form; non-trivial = all branch covers (promotion taken / not taken, boundary operands) satisfied")

SPECS = [p_kani.Spec("steel-core", "steel-core/src/primitives/numbers.rs", "num.rs", "verif_num")]

FUNCS = ["primitives::numbers::{add_two, add_two_fallible, negate, abs, subtract_primitive, multiply_two, truncate_quotient, "
         "truncate_remainder, floor_quotient, floor_remainder, euclidean_quotient, euclidean_remainder, even, odd, "
         "exact_integer_sqrt, exact_integer_impl, arithmetic_shift, expt (exact integer base, exponent -1)}", "primitives::IntoSteelVal for {isize, BigInt} (canonicalisation)"]

ASSUME = [
    "stub: std::rt::thread_cleanup = no-op (Kani ICE workaround); alloc::fmt::format returns an empty String (error text is not checked, error VALUES are)",
    "stub: core::arch::x86_64::{_addcarry_u64,_subborrow_u64} replaced by their arithmetic definition (Kani does not model the LLVM intrinsic)",
    "model: num-bigint's `BigInt += isize` and `BigInt *= isize` are replaced by exact i128 arithmetic for magnitudes < 2^126 (num-bigint is a dependency, not the subject)",
    "model: `BigInt << u32` is not executed; the stub records its operands (the harness checks they are (n, m) and that the path is taken exactly when the result does not fit)",
    "num_neg_rational only: `Ratio::new` skips the reduction (the operands are already in lowest terms with a positive denominator)",
    "feature set std,sync,biased,imbl,rooted-instructions (no jit2/dylibs); results are IntV/BigNum values that are mem::forgotten (drop glue is not the subject)",
    "Kani checks overflow as the dev/test profile does; release-profile wrap-around is covered by the value oracle",
    "model (num_*_i_big only): num-bigint's long division is not executed; its four entry points (biguint::division::{div_rem, div_rem_ref, div_rem_digit, rem_digit}) are replaced by an exact model valid for dividend magnitude < 2 * divisor magnitude (quotient digit 0 or 1), the operand region of those harnesses; a cover witnesses that the division is reached",
    "E3c (kinds:numeric-kernels): only explicit panic sites (panic!/unreachable!/todo!) of multiply_two / add_two / add_two_fallible / negate, operands restricted to the six number kinds; paths through branches other than kind / integer-payload tests are not interpreted",
]

SYM2 = "x: isize (full width), y: isize (full width)"
KF_ABS = "num:abs-most-negative"


def plan(tier):
    q = [
        {"h": "num_neg_i", "sym": "x: isize"},
        {"h": "num_abs_i", "sym": "x: isize"},
        {"h": "num_add_ii", "sym": SYM2},
        {"h": "num_even_odd_i", "sym": "x: isize"},
        {"h": "num_add_big_i", "sym": "big integer a just beyond +-2^63, y: isize, either argument order"},
        {"h": "num_neg_rational", "sym": "n/3 for every i32 n not divisible by 3"},
        {"h": "num_int_float_equality", "sym": "i: isize, f: finite f64"},
        {"h": "num_arithmetic_shift_exact", "sym": "n: isize, m: isize (both full width)"},
        {"h": "num_expt_reciprocal", "sym": "(expt l -1), l: every non-zero integer with i32::MIN < l <= i32::MAX"},
        {"h": "num_exact_of_integral_double", "sym": "(exact f), f: every finite integral f64"},
        {"h": "num_magnitude_i", "sym": "x: isize"},
        {"h": "num_truncate_quotient_i_big", "sym": "x: isize (full width), divisor 2^63 + off or -(2^63 + 1 + off), off: u16"},
    ]
    t = [
        {"h": "num_add_fallible_ii", "sym": SYM2},
        {"h": "num_sub_ii", "sym": SYM2},
        {"h": "num_sub_big_i", "sym": "big integer a, y: isize"},
        {"h": "num_mul_ii_nowrap", "sym": SYM2},
        {"h": "num_mul_ii_small", "sym": "x: isize, |y| <= 2^15"},
        {"h": "num_truncate_quotient_ii", "sym": "|x| <= 2^12, |y| <= 2^6 (all signs, zero divisor)"},
        {"h": "num_truncate_quotient_edge", "sym": "x within 3 of isize::MIN/MAX, |y| <= 3"},
        {"h": "num_truncate_remainder_ii", "sym": "|x| <= 2^12, |y| <= 2^6 (all signs, zero divisor)"},
        {"h": "num_truncate_remainder_edge", "sym": "x within 3 of isize::MIN/MAX, |y| <= 3"},
        {"h": "num_floor_quotient_ii", "sym": "|x| <= 2^12, |y| <= 2^6 (all signs, zero divisor)"},
        {"h": "num_floor_quotient_edge", "sym": "x within 3 of isize::MIN/MAX, |y| <= 3"},
        {"h": "num_floor_remainder_ii", "sym": "|x| <= 2^12, |y| <= 2^6 (all signs, zero divisor)"},
        {"h": "num_floor_remainder_edge", "sym": "x within 3 of isize::MIN/MAX, |y| <= 3"},
        {"h": "num_euclidean_quotient_ii", "sym": "|x| <= 2^12, |y| <= 2^6 (all signs, zero divisor)"},
        {"h": "num_euclidean_quotient_edge", "sym": "x within 3 of isize::MIN/MAX, |y| <= 3"},
        {"h": "num_euclidean_remainder_ii", "sym": "|x| <= 2^12, |y| <= 2^6 (all signs, zero divisor)"},
        {"h": "num_euclidean_remainder_edge", "sym": "x within 3 of isize::MIN/MAX, |y| <= 3"},
        {"h": "num_exact_integer_sqrt_small", "sym": "0 <= x < 2^12"},
        {"h": "num_truncate_remainder_i_big", "sym": "x: isize (full width), divisor just beyond +-2^63"},
    ]
    # not covered (measured): full-width division (two divider circuits: > 2400 s each), (isize::MIN, -1) for
    # euclidean-remainder (num-bigint division is inline assembly), num_floor_remainder_i_big (real num-bigint division: solver out of memory),
    # num_expt_* (expt with concrete exponent -2/-3 and |base| <= 12: 900 s timeout),
    # 64x64-bit product equality, gcd/lcm, number<->string
    return q + (t if tier == "thorough" else [])


def check(pid, tier, seed):
    run = p_kani.check(pid, tier, seed, SPECS, plan(tier), FUNCS,
                       {"operands": "full 64-bit unless stated per harness", "unwind": "4-6 (BigInt digit loops, <= 2 limbs)"},
                       ASSUME, RULE, slots=5)
    kernel_kinds(run)
    return run


def kernel_kinds(run):
    """E3c restricted to the numeric kernels: every pair of number kinds is handled (no unreachable!())"""
    import os, subprocess, time
    import ws, p_bounds
    from props import c07
    try:
        wsdir = ws.prepare("c10mir", [])
        root = os.path.dirname(wsdir)
        out = os.path.join(root, "steel_core.mir")
        env = dict(os.environ, CARGO_NET_OFFLINE="true")
        env.pop("RUSTFLAGS", None)
        ws.mir_dump(wsdir, root, out, env)
        run._mir = dict(wsdir=wsdir, root=root, out=out, reg=p_bounds.registered(os.path.join(wsdir, "crates", "steel-core", "src")), env=env)
    except Exception as ex:
        run.ob("kinds:numeric-kernels", "inconclusive", reason=str(ex)[-300:], engine="mir-smt")
        return
    c07.kinds_obligations(run, only_kernels=True)


def replay(pid, path):
    return p_kani.replay(pid, path)
