"""C10: exact arithmetic is exact and the numeric tower is coherent (engine E1)."""
import p_kani

RULE = ("each obligation is one Kani/CBMC query: the real numeric primitive executed symbolically on full-width "
        "(64-bit) symbolic operands, result compared with an oracle computed in 128-bit arithmetic and checked for "
        "canonical form; non-trivial = all branch covers (promotion taken / not taken, boundary operands) satisfied")

SPECS = [p_kani.Spec("steel-core", "steel-core/src/primitives/numbers.rs", "num.rs", "verif_num")]

FUNCS = ["rvals::<SteelVal as PartialOrd>::partial_cmp (the comparison behind <, <=, >, >= and the LTE* opcodes) on IntV x NumV, IntV x IntV, IntV x BigNum, Rational x IntV",
         "primitives::numbers::{floor, ceiling, truncate, round} on small rationals; divide_primitive (reciprocal of a machine integer); expt (small rational base, machine-integer exponent)",
         "primitives::numbers::{add_two, add_two_fallible, negate, abs, subtract_primitive, multiply_two, truncate_quotient, "
         "truncate_remainder, floor_quotient, floor_remainder, euclidean_quotient, euclidean_remainder, even, odd, "
         "exact_integer_sqrt, exact_integer_impl, arithmetic_shift, expt (exact integer base, exponent -1)}", "primitives::IntoSteelVal for {isize, BigInt} (canonicalisation)"]

ASSUME = [
    "stub: std::rt::thread_cleanup = no-op (Kani ICE workaround); alloc::fmt::format returns an empty String (error text is not checked, error VALUES are)",
    "stub: core::arch::x86_64::{_addcarry_u64,_subborrow_u64} replaced by their arithmetic definition (Kani does not model the LLVM intrinsic)",
    "model: num-bigint's `BigInt += isize` and `BigInt *= isize` are replaced by exact i128 arithmetic for magnitudes < 2^126 (num-bigint is a dependency, not the subject)",
    "model: `BigInt << u32` is not executed; the stub records its operands (the harness checks they are (n, m) and that the path is taken exactly when the result does not fit)",
    "num_neg_rational only: `Ratio::new` skips the reduction (the operands are already in lowest terms with a positive denominator)",
    "feature set std,sync,biased,imbl,rooted-instructions (no jit2/dylibs); results are IntV/BigNum values that are mem::forgotten (drop glue is not the subject)",
    "Kani checks overflow as the dev/test profile does; release-profile wrap-around is covered by the value oracle",
    "model (num_*_i_big only): num-bigint's long division is not executed; its four entry points (biguint::division::{div_rem, div_rem_ref, div_rem_digit, rem_digit}) are replaced by an exact model valid for dividend magnitude < 2 * divisor magnitude (quotient digit 0 or 1), the operand region of those harnesses; a cover witnesses that the division is reached",
    "rational harnesses: `Ratio::new` is replaced by its sign normalisation only (operands are coprime by construction, the gcd loops are skipped); num_expt_rational_i: num-bigint's big-integer power is a recording stub (which path is taken is checked, the big value is not)",
    "E3m (oparm): which callees an arm reaches per operand kind is read from MIR; WHAT the arm does with their results (e.g. negating a comparison) is not interpreted -- the native differential replay (literal / two-local forms against the generic procedure, 16 probe operands of every number kind) decides a sat answer; the fused LTEIMMEDIATEIF jump targets and the native tier are outside",
    "E3k (imm): only payload sites whose operand is computed from a literal token's integer payload are interpreted; comparisons of that value with constants are the only branch conditions kept; builds with the native tier (jit2) do not emit these opcodes",
    "E3c (kinds:numeric-kernels): only explicit panic sites (panic!/unreachable!/todo!) of multiply_two / add_two / add_two_fallible / negate, operands restricted to the six number kinds; paths through branches other than kind / integer-payload tests are not interpreted",
]

SYM2 = "x: isize (full width), y: isize (full width)"
KF_ABS = "num:abs-most-negative"


def plan(tier):
    q = [
        {"h": "num_abs_i", "sym": "x: isize"},
        {"h": "num_add_ii", "sym": SYM2},
        {"h": "num_neg_rational", "sym": "n/3 for every i32 n not divisible by 3"},
        {"h": "num_int_float_equality", "sym": "i: isize, f: finite f64"},
        {"h": "num_arithmetic_shift_exact", "sym": "n: isize, m: isize (both full width)"},
        {"h": "num_expt_reciprocal", "sym": "(expt l -1), l: every non-zero integer with i32::MIN < l <= i32::MAX"},
        {"h": "num_exact_of_integral_double", "sym": "(exact f), f: every finite integral f64"},
        {"h": "num_truncate_quotient_i_big", "sym": "x: isize (full width), divisor 2^63 + off or -(2^63 + 1 + off), off: u16"},
        {"h": "num_cmp_int_float", "sym": "(< i f), (< f i) ...: i: isize (full width), f: every finite f64"},
        {"h": "num_floor_rational", "sym": "(floor n/d): n: every i32 coprime to d, d in {2,3,5,7}"},
        {"h": "num_recip_i", "sym": "(/ x): x: isize (full width)"},
    ]
    t = [
        # moved out of the quick tier in round 3 (vp check stops a quick command after 900 s):
        {"h": "num_neg_i", "sym": "x: isize"},
        {"h": "num_even_odd_i", "sym": "x: isize"},
        {"h": "num_add_big_i", "sym": "big integer a just beyond +-2^63, y: isize, either argument order"},
        {"h": "num_magnitude_i", "sym": "x: isize"},
        {"h": "num_cmp_int_big", "sym": "i: isize (full width) against a big integer just beyond +-2^63, both orders"},
        {"h": "num_ceiling_rational", "sym": "(ceiling n/d): n: every i32 coprime to d, d in {2,3,5,7}"},
        {"h": "num_add_fallible_ii", "sym": SYM2},
        {"h": "num_sub_ii", "sym": SYM2},
        {"h": "num_sub_big_i", "sym": "big integer a, y: isize"},
        {"h": "num_mul_ii_nowrap", "sym": SYM2},
        {"h": "num_mul_ii_small", "sym": "x: isize, |y| <= 2^15"},
        {"h": "num_truncate_quotient_ii", "sym": "|x| <= 2^12, |y| <= 2^6 (all signs, zero divisor)"},
        {"h": "num_truncate_quotient_edge", "sym": "x within 3 of isize::MIN/MAX, |y| <= 3"},
        {"h": "num_truncate_remainder_ii", "sym": "|x| <= 2^12, |y| <= 2^6 (all signs, zero divisor)"},
        {"h": "num_truncate_remainder_edge", "sym": "x within 3 of isize::MIN/MAX, |y| <= 3"},
        {"h": "num_floor_quotient_ii", "sym": "|x| <= 2^12, |y| <= 2^6 (all signs, zero divisor)"},
        {"h": "num_floor_quotient_edge", "sym": "x within 3 of isize::MIN/MAX, |y| <= 3"},
        {"h": "num_floor_remainder_ii", "sym": "|x| <= 2^12, |y| <= 2^6 (all signs, zero divisor)"},
        {"h": "num_floor_remainder_edge", "sym": "x within 3 of isize::MIN/MAX, |y| <= 3"},
        {"h": "num_euclidean_quotient_ii", "sym": "|x| <= 2^12, |y| <= 2^6 (all signs, zero divisor)"},
        {"h": "num_euclidean_quotient_edge", "sym": "x within 3 of isize::MIN/MAX, |y| <= 3"},
        {"h": "num_euclidean_remainder_ii", "sym": "|x| <= 2^12, |y| <= 2^6 (all signs, zero divisor)"},
        {"h": "num_euclidean_remainder_edge", "sym": "x within 3 of isize::MIN/MAX, |y| <= 3"},
        {"h": "num_exact_integer_sqrt_small", "sym": "0 <= x < 2^12"},
        {"h": "num_truncate_remainder_i_big", "sym": "x: isize (full width), divisor just beyond +-2^63"},
        {"h": "num_cmp_ii", "sym": SYM2},
        {"h": "num_cmp_rational_int", "sym": "n/d (n: every i32 coprime to d, d in {2,3,5,7}) against y: isize (full width), both orders"},
        {"h": "num_truncate_rational", "sym": "(truncate n/d): n: every i32, d in {2,3,5,7}"},
        {"h": "num_expt_rational_i", "sym": "(expt n/d e): n in -3..3, d in {2,3,5}, e in -40..40"},
    ]
    # not covered (measured): full-width division (two divider circuits: > 2400 s each), (isize::MIN, -1) for
    # euclidean-remainder (num-bigint division is inline assembly), num_floor_remainder_i_big (real num-bigint division: solver out of memory),
    # num_expt_* (expt with concrete exponent -2/-3 and |base| <= 12: 900 s timeout),
    # 64x64-bit product equality, gcd/lcm, number<->string,
    # num_cmp_float_big_total (a double against a big integer through bigdecimal: 25 min, 8 GB, no answer; E3s decides the panic-freedom half),
    # num_round_rational (unwinding bound 6 too small for Ratio::cmp's continued-fraction loop), num_add_rational_i (Ratio::checked_add with its
    # gcd loops on a symbolic i32: solver out of memory) -- both kept in harness/num.rs, in no tier
    return q + (t if tier == "thorough" else [])


def check(pid, tier, seed):
    run = p_kani.check(pid, tier, seed, SPECS, plan(tier), FUNCS,
                       {"operands": "full 64-bit unless stated per harness", "unwind": "4-6 (BigInt digit loops, <= 2 limbs)"},
                       ASSUME, RULE, slots=5, timeout=(None if tier == "quick" else 6000))
    kernel_kinds(run)
    return run


def kernel_kinds(run):
    """E3c restricted to the numeric kernels: every pair of number kinds is handled (no unreachable!())"""
    import os, subprocess, time
    import ws, p_bounds
    from props import c07
    try:
        wsdir = ws.prepare("c10mir", [])
        root = os.path.dirname(wsdir)
        out = os.path.join(root, "steel_core.mir")
        env = dict(os.environ, CARGO_NET_OFFLINE="true")
        env.pop("RUSTFLAGS", None)
        ws.mir_dump(wsdir, root, out, env)
        run._mir = dict(wsdir=wsdir, root=root, out=out, reg=p_bounds.registered(os.path.join(wsdir, "crates", "steel-core", "src")), env=env)
    except Exception as ex:
        run.ob("kinds:numeric-kernels", "inconclusive", reason=str(ex)[-300:], engine="mir-smt")
        return
    c07.kinds_obligations(run, only_kernels=True)
    cmp_obligation(run)
    imm_obligation(run)
    oparm_obligation(run)
    partial_unwrap_obligation(run)


def cmp_obligation(run):
    """E3g on `PartialOrd for SteelVal`: every ordered pair of real-number kinds has an arm in partial_cmp"""
    import os, re, json, shutil, subprocess, time
    import ws, p_eqtab, p_kinds
    oid = "cmp:every-pair-of-real-kinds-is-comparable"
    M = getattr(run, "_mir", None)
    t0 = time.time()
    try:
        kinds = p_kinds.variants(os.path.join(M["wsdir"], "crates", "steel-core", "src"))
        r = p_eqtab.analyse_cmp(open(M["out"]).read(), kinds)
    except Exception as ex:
        run.ob(oid, "inconclusive", reason="extraction failed: %s" % str(ex)[-300:], engine="mir-smt")
        return
    common = dict(engine="mir-smt/z3", wall_s=round(time.time() - t0, 1), solver_s=round(r["dt"], 3), solver_checks=len(r["real"]) ** 2)
    run.samples.append({"engine": "mir-smt", "query": "exists an ordered pair (a, b) of the kinds %s that PartialOrd::partial_cmp sends to its catch-all (None: not comparable)" % r["real"],
                        "pairs with an arm of their own": r["handled"], "of the %d real pairs" % (len(r["real"]) ** 2): r["real_pairs_handled"]})
    run.functions.append("rvals::<SteelVal as PartialOrd>::partial_cmp: decision tree of `match (self, other)` (MIR)")
    if r["res"] == "error" or r["handled"] < 10:
        run.ob(oid, "inconclusive", reason="solver error or vacuous table (%d handled pairs)" % r["handled"], **common)
        return
    if r["res"] == "unsat":
        run.ob(oid, "pass", nonvacuous=True, note="all %d ordered pairs of real-number kinds have an arm in partial_cmp" % (len(r["real"]) ** 2), **common)
        return
    from props import c07
    a, b = r["pair"]
    call = "(< %s %s)" % (c07.KIND_EXPR.get(a) or "7", c07.KIND_EXPR.get(b) or "7")
    obs = None
    try:
        shutil.copy(os.path.join(ws.VERIF, "harness", "arity_replay.rs"), os.path.join(M["wsdir"], "crates", "steel-core", "tests", "verif_arity_replay.rs"))
        p = subprocess.run(["cargo", "test", "--offline", "-p", "steel-core", "--no-default-features", "--features", ws.FEATURES,
                            "--test", "verif_arity_replay", "--target-dir", os.path.join(M["root"], "tn"), "--", "kinds_replay", "--exact", "--nocapture"],
                           cwd=M["wsdir"], env=dict(M["env"], VERIF_KINDS_CALL=call), capture_output=True, text=True, timeout=1800)
        out = p.stdout + p.stderr
        m = re.search(r"OBSERVED: (.*)", out) or re.search(r"COMPLETED: .* returned (Err\(.*)", out)
        obs = m.group(1) if m else None
    except Exception as ex:
        run.ob(oid, "inconclusive", reason="replay failed: %s" % str(ex)[-300:], **common)
        return
    what = "partial_cmp has no arm for (%s, %s): two real numbers that cannot be compared" % (a, b)
    if not obs:
        run.ob(oid, "inconclusive", reason="solver: %s; %s returned a value natively" % (what, call), **common)
        return
    d = os.path.join(ws.VERIF, "replays", run.pid)
    os.makedirs(d, exist_ok=True)
    path = os.path.join(d, "cmp_pair.json")
    json.dump({"property": run.pid, "kind": "cmp", "what": what, "call": call, "observed": obs, "how": "./check %s --replay <this file>" % run.pid}, open(path, "w"), indent=1)
    run.violation("cmp:%s-%s" % (a, b), "%s; natively: %s: %s" % (what, call, obs[:200]), path)
    run.ob(oid, "fail", note=obs[:200], **common)


def partial_unwrap_obligation(run):
    """E3s: the result of a partial conversion of a double (None for NaN / infinities) is never unwrapped in the numeric code"""
    import os, re, json, shutil, subprocess, time
    import ws, p_order
    oid = "partial:conversions-of-doubles-are-not-unwrapped"
    M = getattr(run, "_mir", None)
    t0 = time.time()
    try:
        r = p_order.analyse_partial_unwrap(open(M["out"]).read())
    except Exception as ex:
        run.ob(oid, "inconclusive", reason="extraction failed: %s" % str(ex)[-300:], engine="mir-smt")
        return
    common = dict(engine="mir-smt/z3", wall_s=round(time.time() - t0, 1), solver_s=round(r["dt"], 3), solver_checks=1)
    run.samples.append({"engine": "mir-smt", "query": "exists an Option::unwrap / expect site in rvals.rs / primitives/numbers.rs whose operand derives from from_f64 / from_f32 / from_float (None for NaN and the infinities)",
                        "unwrap sites": r["sites"], "of a partial conversion": [(b["function"], b["bb"]) for b in r["bad"]]})
    run.functions.append("rvals::{partial_cmp, number_equality, ..}, primitives::numbers::*: operands of %d unwrap / expect sites (MIR)" % r["sites"])
    if r["res"] == "error" or r["sites"] < 8:
        run.ob(oid, "inconclusive", reason="solver error or only %d unwrap sites in scope" % r["sites"], **common)
        return
    if r["res"] == "unsat":
        run.ob(oid, "pass", nonvacuous=True, note="%d unwrap / expect sites, none on the result of a partial conversion of a double" % r["sites"], **common)
        return
    b = r["bad"][0]
    what = "%s unwraps the result of a partial conversion of a double (%s)" % (b["function"], b["what"][:80])
    obs = None
    try:
        shutil.copy(os.path.join(ws.VERIF, "harness", "arity_replay.rs"), os.path.join(M["wsdir"], "crates", "steel-core", "tests", "verif_arity_replay.rs"))
        for call in ("(< +inf.0 (expt 10 30))", "(< (expt 10 30) +inf.0)", "(< +nan.0 (expt 10 30))", "(< (expt 10 30) +nan.0)", "(> -inf.0 (/ 1 (expt 10 30)))", "(< (/ 1 (expt 10 30)) +nan.0)",
                     "(= +inf.0 (expt 10 30))", "(exact +inf.0)", "(exact +nan.0)", "(rationalize +inf.0 1)"):
            p = subprocess.run(["cargo", "test", "--offline", "-p", "steel-core", "--no-default-features", "--features", ws.FEATURES,
                                "--test", "verif_arity_replay", "--target-dir", os.path.join(M["root"], "tn"), "--", "kinds_replay", "--exact", "--nocapture"],
                               cwd=M["wsdir"], env=dict(M["env"], VERIF_KINDS_CALL=call), capture_output=True, text=True, timeout=1800)
            m = re.search(r"OBSERVED: (.*)", p.stdout + p.stderr)
            if m:
                obs = (call, m.group(1))
                break
    except Exception as ex:
        run.ob(oid, "inconclusive", reason="replay failed: %s" % str(ex)[-300:], **common)
        return
    if not obs:
        run.ob(oid, "inconclusive", reason="solver: %s; no probe call with a non-finite double panicked natively" % what, **common)
        return
    d = os.path.join(ws.VERIF, "replays", run.pid)
    os.makedirs(d, exist_ok=True)
    path = os.path.join(d, "partial_unwrap.json")
    json.dump({"property": run.pid, "kind": "cmp", "what": what, "call": obs[0], "observed": obs[1], "how": "./check %s --replay <this file>" % run.pid}, open(path, "w"), indent=1)
    run.violation("partial:%s" % b["function"], "%s; natively: %s: %s" % (what, obs[0], obs[1][:200]), path)
    run.ob(oid, "fail", note=obs[1][:200], **common)


def oparm_obligation(run):
    """E3m: every number kind that reaches a specialised arithmetic / comparison opcode arm goes through an operation the
    harnesses decide (lib/p_oparms.py)"""
    import os, re, json, shutil, subprocess, time
    import ws, p_oparms, p_kinds
    oid = "oparm:specialised-opcodes-delegate-to-the-decided-operations"
    M = getattr(run, "_mir", None)
    t0 = time.time()
    try:
        kinds = p_kinds.variants(os.path.join(M["wsdir"], "crates", "steel-core", "src"))
        r = p_oparms.analyse(open(M["out"]).read(), open(os.path.join(M["wsdir"], "crates", "steel-gen", "src", "opcode.rs")).read(), kinds)
    except Exception as ex:
        run.ob(oid, "inconclusive", reason="extraction failed: %s" % str(ex)[-300:], engine="mir-smt")
        return
    common = dict(engine="mir-smt/z3", wall_s=round(time.time() - t0, 1), solver_s=round(r["dt"], 3), solver_checks=len(r["table"]))
    run.samples.append({"engine": "mir-smt", "query": "exists (opcode, number kind): the arm of VmCore::vm for the opcode, followed with the operand's kind known, calls no operation of the opcode's family (generic primitive / PartialOrd on SteelVal / checked machine operation)",
                        "opcodes": r["opcodes"], "arms": r["info"], "callees per (opcode, kind)": {k: v for k, v in list(r["table"].items())[:60]}})
    run.functions.append("steel_vm::vm::VmCore::vm: arms of %s (callees per operand kind, MIR)" % ", ".join(r["opcodes"]))
    if r["res"] == "error":
        run.ob(oid, "inconclusive", reason="solver error", **common)
        return
    if r["res"] == "unsat":
        run.ob(oid, "pass", nonvacuous=True, note="%d opcodes x 5 number kinds: each reaches an operation of its family" % len(r["opcodes"]), **common)
        return
    what = "the arm(s) %s answer without calling an operation of the opcode's family" % ", ".join("%s for %s" % b for b in r["bad"][:4])
    try:
        shutil.copy(os.path.join(ws.VERIF, "harness", "arity_replay.rs"), os.path.join(M["wsdir"], "crates", "steel-core", "tests", "verif_arity_replay.rs"))
        p = subprocess.run(["cargo", "test", "--offline", "-p", "steel-core", "--no-default-features", "--features", ws.FEATURES,
                            "--test", "verif_arity_replay", "--target-dir", os.path.join(M["root"], "tn"), "--", "oparm_replay", "--exact", "--nocapture"],
                           cwd=M["wsdir"], env=M["env"], capture_output=True, text=True, timeout=2400)
        m = re.search(r"OBSERVED: (.*)", p.stdout + p.stderr)
    except Exception as ex:
        run.ob(oid, "inconclusive", reason="replay failed: %s" % str(ex)[-300:], **common)
        return
    if not m:
        run.ob(oid, "inconclusive", reason="solver: %s; the specialised and the generic forms agreed on every probe natively" % what, **common)
        return
    d = os.path.join(ws.VERIF, "replays", run.pid)
    os.makedirs(d, exist_ok=True)
    path = os.path.join(d, "oparm.json")
    json.dump({"property": run.pid, "kind": "oparm", "what": what, "observed": m.group(1), "how": "./check %s --replay <this file>" % run.pid}, open(path, "w"), indent=1)
    key = "oparm:%s" % "+".join(sorted({b[0] for b in r["bad"]}))
    if run.is_known(key):
        run.known_hit(key, run.known[(run.pid, key)] + " -- " + m.group(1)[:200])
        run.ob(oid, "known", nonvacuous=True, **common)
    else:
        run.violation(key, "%s; natively: %s" % (what, m.group(1)[:300]), path)
        run.ob(oid, "fail", note=m.group(1)[:200], **common)


def imm_obligation(run):
    """E3k: a literal packed into a 24-bit instruction payload by the code generator fits it (lib/p_imm.py)"""
    import os, re, json, shutil, subprocess, time
    import ws, p_imm
    oid = "imm:literal-operands-fit-the-instruction-payload"
    M = getattr(run, "_mir", None)
    t0 = time.time()
    try:
        r = p_imm.analyse(open(M["out"]).read())
    except Exception as ex:
        run.ob(oid, "inconclusive", reason="extraction failed: %s" % str(ex)[-300:], engine="mir-smt")
        return
    ls = r["literal_sites"]
    common = dict(engine="mir-smt/z3", wall_s=round(time.time() - t0, 1), solver_s=round(sum(x["dt"] for x in ls), 3), solver_checks=2 * len(ls))
    run.samples.append({"engine": "mir-smt", "query": "exists a 64-bit literal v reaching a 24-bit payload site of the code generator (LabeledInstruction::payload / u24::from_usize fed by the integer "
                        "payload of a literal token) along a path whose comparisons of v with constants hold, with (v as usize) >= 2^24",
                        "payload sites in the compiler": r["sites_total"], "fed by a literal": [(x["function"], x["callee"], x["res"]) for x in ls]})
    run.functions.append("compiler::code_gen::CodeGenerator::specialize_immediate_call (+ every other 24-bit payload site of compiler::{code_gen, program}): value range of literal operands (MIR)")
    if r["errors"] or r["sites_total"] < 10 or not ls or any(x["witness"] != "sat" for x in ls) or any(x["res"] == "error" for x in ls):
        run.ob(oid, "inconclusive", reason="; ".join(r["errors"][:2]) or "vacuous or solver error (%d payload sites, %d fed by a literal)" % (r["sites_total"], len(ls)), **common)
        return
    bad = [x for x in ls if x["res"] == "sat"]
    if not bad:
        run.ob(oid, "pass", nonvacuous=True, note="%d literal-fed payload site(s): every literal that reaches them is below 2^24" % len(ls), **common)
        return
    b = bad[0]
    what = "%s packs the literal operand of (+ x N) / (- x N) / (<= x N) into a 24-bit payload without an upper bound: N = %s reaches it" % (b["function"], b["literal"])
    try:
        shutil.copy(os.path.join(ws.VERIF, "harness", "arity_replay.rs"), os.path.join(M["wsdir"], "crates", "steel-core", "tests", "verif_arity_replay.rs"))
        p = subprocess.run(["cargo", "test", "--offline", "-p", "steel-core", "--no-default-features", "--features", ws.FEATURES,
                            "--test", "verif_arity_replay", "--target-dir", os.path.join(M["root"], "tn"), "--", "imm_replay", "--exact", "--nocapture"],
                           cwd=M["wsdir"], env=dict(M["env"], VERIF_IMM_LIT=str(b["literal"] or (1 << 24))), capture_output=True, text=True, timeout=2400)
        m = re.search(r"OBSERVED: (.*)", p.stdout + p.stderr)
    except Exception as ex:
        run.ob(oid, "inconclusive", reason="replay failed: %s" % str(ex)[-300:], **common)
        return
    if not m:
        run.ob(oid, "inconclusive", reason="solver: %s; literal and variable operands agreed natively" % what, **common)
        return
    d = os.path.join(ws.VERIF, "replays", run.pid)
    os.makedirs(d, exist_ok=True)
    path = os.path.join(d, "imm.json")
    json.dump({"property": run.pid, "kind": "imm", "what": what, "literal": b["literal"] or (1 << 24), "observed": m.group(1), "how": "./check %s --replay <this file>" % run.pid}, open(path, "w"), indent=1)
    key = "imm:literal-truncated"
    if run.is_known(key):
        run.known_hit(key, run.known[(run.pid, key)] + " -- " + m.group(1)[:200])
        run.ob(oid, "known", nonvacuous=True, **common)
    else:
        run.violation(key, "%s; natively: %s" % (what, m.group(1)[:300]), path)
        run.ob(oid, "fail", note=m.group(1)[:200], **common)


def replay(pid, path):
    import json
    payload = json.load(open(path))
    if payload.get("kind") in ("imm", "cmp", "oparm"):
        import os, re, shutil, subprocess, ws
        wsdir = ws.prepare("c10replay", [])
        root = os.path.dirname(wsdir)
        shutil.copy(os.path.join(ws.VERIF, "harness", "arity_replay.rs"), os.path.join(wsdir, "crates", "steel-core", "tests", "verif_arity_replay.rs"))
        test, env = ("imm_replay", {"VERIF_IMM_LIT": str(payload["literal"])}) if payload["kind"] == "imm" else (("oparm_replay", {}) if payload["kind"] == "oparm" else ("kinds_replay", {"VERIF_KINDS_CALL": payload["call"]}))
        p = subprocess.run(["cargo", "test", "--offline", "-p", "steel-core", "--no-default-features", "--features", ws.FEATURES,
                            "--test", "verif_arity_replay", "--target-dir", os.path.join(root, "tn"), "--", test, "--exact", "--nocapture"],
                           cwd=wsdir, env=dict(os.environ, CARGO_NET_OFFLINE="true", **env), capture_output=True, text=True)
        m = re.search(r"OBSERVED: (.*)", p.stdout + p.stderr)
        print("observed:", m.group(1) if m else "not reproduced")
        if m:
            print("VIOLATION property=%s replay=%s" % (pid, path))
            return 1
        return 0
    return p_kani.replay(pid, path)
