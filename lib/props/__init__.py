"""Property id -> module with check(pid, tier, seed) -> core.Run, replay(pid, path), RULE."""
from . import c05, c10, c15, c16, c17, c20

REGISTRY = {"C05": c05, "C10": c10, "C15": c15, "C16": c16, "C17": c17, "C20": c20}
