"""Property id -> module with check(pid, tier, seed) -> core.Run, replay(pid, path), RULE."""
from . import c03, c04, c05, c06, c07, c10, c11, c15, c16, c17, c19, c20

REGISTRY = {"C03": c03, "C04": c04, "C05": c05, "C06": c06, "C07": c07, "C10": c10, "C11": c11,
            "C15": c15, "C16": c16, "C17": c17, "C19": c19, "C20": c20}
