"""Property id -> module with check(pid, tier, seed) -> core.Run, replay(pid, path), RULE."""
from . import c05

REGISTRY = {"C05": c05}
