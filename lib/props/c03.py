"""C03: immutable values never change -- the part decided here is the uniqueness test that
authorises every in-place update (Gc::get_mut / make_mut / try_unwrap -> steel-rc)."""
import p_rc

RULE = ("each obligation is one Kani/CBMC query: the real uniqueness-testing operation (get_mut, make_mut, try_unwrap) "
        "from EVERY reference-count word satisfying the representation invariant and every acting thread; asserted: "
        "in-place access / unwrap only with exactly one live reference, other holders keep seeing the old contents; "
        "non-trivial = granted and refused branches both witnessed")

# the try_unwrap harness is run with the C05 finding (merge-queue entry outlives the box: a memory
# safety matter, not an aliasing one) excluded; C05 reports that finding
QUICK = ["rc_step_get_mut", "rc_step_make_mut", "rc_step_try_unwrap__kf_stale_queue"]


ROLE_EXPR = {"hm_union": ("hash-union", "(hash 'a 1 'b 2)", "(hash 'a 9 'c 3)")}


def check(pid, tier, seed):
    run = p_rc.check(pid, tier, seed, QUICK, [],
                     "in-place mutation (Gc::get_mut/make_mut/try_unwrap) is authorised only for the sole holder; "
                     "the compiler's last-use analysis, which decides WHEN the count is 1, is outside the claim")
    roles_obligation(run)
    return run


def roles_obligation(run):
    """E3o: the sharing arms of a collection primitive give the operands the same roles (lib/p_roles.py)"""
    import os, re, json, shutil, subprocess, time
    import ws, mir, p_bounds, p_roles
    oid = "roles:sharing-arms-agree-on-operand-roles"
    t0 = time.time()
    try:
        wsdir = ws.prepare("c03mir", [])
        root = os.path.dirname(wsdir)
        out = os.path.join(root, "steel_core.mir")
        env = ws.mir_dump(wsdir, root, out)
        reg = p_bounds.registered(os.path.join(wsdir, "crates", "steel-core", "src"))
        wanted = set(reg) | {k[6:] for k, v in reg.items() if v[0] == "function"}
        funcs = mir.parse(open(out).read(), lambda n: n.split("::")[-1] in wanted)
        r = p_roles.analyse(funcs)
    except Exception as ex:
        run.ob(oid, "inconclusive", reason="extraction failed: %s" % str(ex)[-300:], engine="mir-smt")
        return
    common = dict(engine="mir-smt/z3", wall_s=round(time.time() - t0, 1), solver_s=round(r["dt"], 3), solver_checks=r["queries"])
    run.samples.append({"engine": "mir-smt", "query": "per (procedure, library call) with several call sites whose two operands derive from two different parameters: exist two sites whose receiver derives from different parameters",
                        "two-parameter call sites": r["groups"], "groups with several sites": r["multi_site_groups"][:24]})
    run.functions.append("%d (procedure, callee) groups of script-callable procedures with several call sites taking one operand from each of two parameters (hash-union: 4 sharing arms, ...): operand roles per site (MIR)" % len(r["multi_site_groups"]))
    run.assumptions.append("roles (E3o): a site is interpreted only when each operand derives from exactly one parameter (tuple projections reduced); which of the two roles is RIGHT is not decided, only that all arms agree -- a change that swaps the operands in every arm alike is not seen; comparisons (eq / cmp / ptr_eq) are excluded as symmetric")
    if r["errors"] or len(r["multi_site_groups"]) < 5 or not any(g[0] == "hm_union" for g in r["multi_site_groups"]):
        run.ob(oid, "inconclusive", reason="; ".join(r["errors"][:2]) or "vacuous: %d multi-site groups, hash-union's arms not recognised" % len(r["multi_site_groups"]), **common)
        return
    if not r["bad"]:
        run.ob(oid, "pass", nonvacuous=True, note="%d groups: every site of a group gives the receiver role to the same parameter" % len(r["multi_site_groups"]), **common)
        return
    b = r["bad"][0]
    what = "%s: the call sites of `%s` disagree on which parameter is the receiver (%s)" % (b["function"], b["callee"], ", ".join("bb%d: %s.%s(%s)" % (s["bb"], s["recv"], b["callee"], s["arg"]) for s in b["sites"]))
    rec = ROLE_EXPR.get(b["function"])
    if not rec:
        run.ob(oid, "inconclusive", reason="solver: %s; no replay recipe for this procedure" % what, **common)
        return
    try:
        shutil.copy(os.path.join(ws.VERIF, "harness", "arity_replay.rs"), os.path.join(wsdir, "crates", "steel-core", "tests", "verif_arity_replay.rs"))
        p = subprocess.run(["cargo", "test", "--offline", "-p", "steel-core", "--no-default-features", "--features", ws.FEATURES,
                            "--test", "verif_arity_replay", "--target-dir", os.path.join(root, "tn"), "--", "roles_replay", "--exact", "--nocapture"],
                           cwd=wsdir, env=dict(env, VERIF_ROLE_CALL="|".join(rec)), capture_output=True, text=True, timeout=2400)
        m = re.search(r"OBSERVED: (.*)", p.stdout + p.stderr)
    except Exception as ex:
        run.ob(oid, "inconclusive", reason="replay failed: %s" % str(ex)[-300:], **common)
        return
    if not m:
        run.ob(oid, "inconclusive", reason="solver: %s; the four sharing patterns agreed natively" % what, **common)
        return
    d = os.path.join(ws.VERIF, "replays", run.pid)
    os.makedirs(d, exist_ok=True)
    path = os.path.join(d, "roles_%s.json" % b["function"])
    json.dump({"property": run.pid, "kind": "roles", "what": what, "call": "|".join(rec), "observed": m.group(1), "how": "./check %s --replay <this file>" % run.pid}, open(path, "w"), indent=1)
    key = "roles:%s" % b["function"]
    if run.is_known(key):
        run.known_hit(key, run.known[(run.pid, key)] + " -- " + m.group(1)[:200])
        run.ob(oid, "known", nonvacuous=True, **common)
    else:
        run.violation(key, "%s; natively: %s" % (what, m.group(1)[:300]), path)
        run.ob(oid, "fail", note=m.group(1)[:200], **common)


def replay(pid, path):
    import json
    payload = json.load(open(path))
    if payload.get("kind") == "roles":
        import os, re, shutil, subprocess, ws
        wsdir = ws.prepare("c03replay", [])
        root = os.path.dirname(wsdir)
        shutil.copy(os.path.join(ws.VERIF, "harness", "arity_replay.rs"), os.path.join(wsdir, "crates", "steel-core", "tests", "verif_arity_replay.rs"))
        p = subprocess.run(["cargo", "test", "--offline", "-p", "steel-core", "--no-default-features", "--features", ws.FEATURES,
                            "--test", "verif_arity_replay", "--target-dir", os.path.join(root, "tn"), "--", "roles_replay", "--exact", "--nocapture"],
                           cwd=wsdir, env=dict(os.environ, CARGO_NET_OFFLINE="true", VERIF_ROLE_CALL=payload["call"]), capture_output=True, text=True)
        m = re.search(r"OBSERVED: (.*)", p.stdout + p.stderr)
        print("observed:", m.group(1) if m else "not reproduced")
        if m:
            print("VIOLATION property=%s replay=%s" % (pid, path))
            return 1
        return 0
    return p_rc.replay(pid, path)
