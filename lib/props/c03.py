"""C03: immutable values never change -- the part decided here is the uniqueness test that
authorises every in-place update (Gc::get_mut / make_mut / try_unwrap -> steel-rc)."""
import p_rc

RULE = ("each obligation is one Kani/CBMC query: the real uniqueness-testing operation (get_mut, make_mut, try_unwrap) "
        "from EVERY reference-count word satisfying the representation invariant and every acting thread; asserted: "
        "in-place access / unwrap only with exactly one live reference, other holders keep seeing the old contents; "
        "non-trivial = granted and refused branches both witnessed")

# the try_unwrap harness is run with the C05 finding (merge-queue entry outlives the box: a memory
# safety matter, not an aliasing one) excluded; C05 reports that finding
QUICK = ["rc_step_get_mut", "rc_step_make_mut", "rc_step_try_unwrap__kf_stale_queue"]


def check(pid, tier, seed):
    return p_rc.check(pid, tier, seed, QUICK, [],
                      "in-place mutation (Gc::get_mut/make_mut/try_unwrap) is authorised only for the sole holder; "
                      "the compiler's last-use analysis, which decides WHEN the count is 1, is outside the claim")


def replay(pid, path):
    return p_rc.replay(pid, path)
