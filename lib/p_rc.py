"""C05 (and the shared part of C03): steel-rc, engine E1 (Kani one-step harnesses) + native replay."""
import os, re, json, subprocess, time, shutil
import ws, kani, core

HARNESS = os.path.join(ws.VERIF, "harness", "rc.rs")
NATIVE = os.path.join(ws.VERIF, "harness", "rc_native.rs")

FUNCTIONS = [
    "steel_rc::Packed::{new_with,value,set_value,update_counter,set_merged,set_queued,is_merged,is_queued}",
    "steel_rc::SharedPacked::{load,compare_exchange}",
    "steel_rc::RcBox::{increment,fast_increment,slow_increment,decrement,fast_decrement,slow_decrement,has_unique_ref,dealloc}",
    "steel_rc::BiasedRc::{new,clone,drop,get_mut,make_mut,try_unwrap,try_unwrap_internal,try_unwrap_internal_same_thread,drop_contents_and_maybe_box}",
    "steel_rc::QueueHandle::explicit_merge",
]

# harness -> (operation name for the native replayer, has acting thread variable)
OPS = {
    "rc_step_clone": "clone", "rc_step_drop": "drop", "rc_step_get_mut": "get_mut",
    "rc_step_make_mut": "make_mut", "rc_step_try_unwrap": "try_unwrap", "rc_step_explicit_merge": "merge",
}

# known-finding key -> harnesses that have a masked twin
KF_STALE = "rc:merge-queue-entry-outlives-box"
KF_OWNER_CELL = "rc:owner-cell-cleared-after-merge-published"
MASKED = {"rc_step_drop": KF_STALE, "rc_step_try_unwrap": KF_STALE, "rc_il_drop": KF_OWNER_CELL}
TWIN = {"rc_step_drop": "rc_step_drop__kf_stale_queue", "rc_step_try_unwrap": "rc_step_try_unwrap__kf_stale_queue",
        "rc_il_drop": "rc_il_drop__kf_owner_cell"}
IL_BASE = {"rc_il_drop": "drop", "rc_il_clone": "clone", "rc_il_get_mut": "get_mut"}

SYMBOLIC = ("merged:bool, queued:bool, owner_cell_none:bool, biased:u32, shared:i32 (30-bit field), "
            "holders[3]:u32 (live handles per logical thread), merge_queue_entry:bool, acting_thread in {1(owner),2,3}")


def prepare(tag="rc"):
    return ws.prepare(tag, [("steel-rc/src/lib.rs", HARNESS, "verif_rc", "kani"),
                            ("steel-rc/src/lib.rs", NATIVE, "verif_rc_native", "verif_native")])


def decode_cex(log_text, assertion_desc=None):
    """Parse Kani's concrete-playback print for the failing assertion -> list of ints."""
    blocks = re.split(r"Concrete playback unit test for", log_text)
    for b in blocks[1:]:
        m = re.search(r"Check for `\w+`: \"+(?:CEX:)?(.*?)\"+\n", b)
        if not m or ("`cover`" in m.group(0) and "CEX:" not in m.group(0)):
            continue
        if assertion_desc and assertion_desc not in m.group(1):
            continue
        vals = []
        for vm in re.finditer(r"vec!\[([0-9, ]*)\],", b):
            bs = [int(x) for x in vm.group(1).split(",") if x.strip()]
            vals.append((int.from_bytes(bytes(bs), "little"), len(bs)))
        return vals
    return None


def target_from_cex(harness, vals):
    def signed(v, n):
        return v - (1 << (8 * n)) if v >= 1 << (8 * n - 1) else v
    vals = vals[1:]  # vals[0] is the playback tag
    m, q, n, b = vals[0][0], vals[1][0], vals[2][0], vals[3][0]
    s = signed(vals[4][0], 4)
    h = [vals[5][0], vals[6][0], vals[7][0]]
    iq = vals[8][0]
    t = vals[9][0] if len(vals) > 9 else 1
    pre = {"merged": m, "queued": q, "owner_cell_none": n, "biased": b, "shared": s, "holders": h, "queue_entry": iq}
    if harness in IL_BASE:
        u, fa, fo, after = vals[10][0], vals[11][0], vals[12][0], vals[13][0]
        opstr = "%s@%d[%d%s:%s@%d]" % (IL_BASE[harness], t, fa, "a" if after else "b", ["clone", "drop", "get_mut"][fo], u)
    else:
        opstr = "%s@%d" % (OPS[harness], t)
    tgt = "%d,%d,%d,%d,%d,%d,%d,%d,%d;%s" % (m, q, n, b, s, h[0], h[1], h[2], iq, opstr)
    return pre, tgt, opstr


class Native:
    """Native test binary of steel-rc with the replay module (built once per run)."""

    def __init__(self, wsdir, root):
        self.ws, self.root = wsdir, root
        self.bin = None
        self.build_s = 0

    def build(self):
        if self.bin:
            return self.bin
        t0 = time.time()
        env = dict(os.environ, RUSTFLAGS="--cfg verif_native --cfg steel_verif", CARGO_NET_OFFLINE="true")
        tdir = os.path.join(self.root, "tnative")
        out = subprocess.run(["cargo", "test", "--offline", "-p", "steel-rc", "--lib", "--no-run",
                              "--target-dir", tdir, "--message-format=json"],
                             cwd=self.ws, env=env, capture_output=True, text=True)
        for line in out.stdout.splitlines():
            try:
                j = json.loads(line)
            except ValueError:
                continue
            if j.get("reason") == "compiler-artifact" and j.get("executable") and j["target"]["name"] == "steel_rc":
                self.bin = j["executable"]
        self.build_s = time.time() - t0
        if not self.bin:
            raise RuntimeError("native replay build failed:\n" + out.stderr[-3000:])
        return self.bin

    def search(self, target, depth=14, ignore_stale=False):
        b = self.build()
        env = dict(os.environ, VERIF_RC_TARGET=target, VERIF_RC_DEPTH=str(depth))
        if ignore_stale:
            env["VERIF_RC_IGNORE_STALE"] = "1"
        try:
            out = subprocess.run([b, "verif_rc_native::search", "--exact", "--nocapture", "--test-threads", "1"],
                                 env=env, capture_output=True, text=True, timeout=600).stdout
        except subprocess.TimeoutExpired:
            return None, None, "native search timed out"
        m = re.search(r"^.*HISTORY: (.*)$", out, re.M)
        hm = re.search(r"(?<!PRESTATE-)HISTORY: (.*)", out)
        em = re.search(r"EXPECTED: (.*)", out)
        if hm and em:
            note = " (solver pre-state not reproduced; history found by unguided native search)" if "FALLBACK" in out else ""
            return hm.group(1).strip(), em.group(1).strip() + note, None
        if "UNREACHED" in out:
            return None, None, "pre-state not reachable by any history of <= %d real operations (invariant too weak for this tree)" % depth
        if "NOFAILURE" in out:
            return None, None, "pre-state reached, operation applied, but no natively observable failure within 3 further operations"
        return None, None, "native search gave no answer: " + out[-400:]

    def run_history(self, history):
        """-> (failed:bool, observed:str)"""
        b = self.build()
        env = dict(os.environ, VERIF_RC_HISTORY=history)
        p = subprocess.run(["valgrind", "--error-exitcode=9", "--exit-on-first-error=yes", "-q",
                            b, "verif_rc_native::run", "--exact", "--nocapture", "--test-threads", "1"],
                           env=env, capture_output=True, text=True, timeout=600)
        out = p.stdout + p.stderr
        m = re.search(r"OBSERVED: (.*)", out)
        if m:
            return True, m.group(1).strip()
        vm = re.search(r"==\d+== (Invalid (?:read|write) of size \d+|Invalid free.*|Use of uninitialised.*)", out)
        if vm:
            at = re.search(r"==\d+==\s+(?:at|by) 0x[0-9A-F]+: (\S*steel_rc\S*) \((lib\.rs:\d+)\)", out)
            blk = "inside a block free'd" in out or "free'd" in out
            return True, "valgrind: %s%s%s" % (vm.group(1), " of freed memory" if blk else "", (" at %s %s" % (at.group(1), at.group(2))) if at else "")
        if p.returncode not in (0,):
            return True, "native run terminated abnormally (exit %d): %s" % (p.returncode, out[-300:])
        return False, "completed without failure"


def replay_file(pid, key, payload):
    d = os.path.join(ws.VERIF, "replays", pid)
    os.makedirs(d, exist_ok=True)
    path = os.path.join(d, re.sub(r"[^A-Za-z0-9_.-]", "_", key) + ".json")
    with open(path, "w") as f:
        json.dump(payload, f, indent=1)
    return path


def classify(harness, desc, pre, expected="", observed=""):
    if "merge-queue entry" in desc and ("queue entry outlived" in expected or "explicit_merge" in observed):
        return KF_STALE
    if harness.startswith("rc_il_") and "Invalid write" in observed and ("decrement" in observed or "merge" in observed):
        return KF_OWNER_CELL
    return "rc:%s:%s" % (harness, re.sub(r"[^a-z0-9]+", "-", desc.lower()).strip("-")[:60])


def handle_failure(run, r, wsdir, root, native, logdir, tdir):
    """A Kani harness failed: extract the assignment, replay natively, classify."""
    h = r["harness"]
    desc = r["failed"][0]["desc"]
    # re-run with concrete playback to obtain the assignment; first the small-scope twin
    # (counters <= 3) so that the native search can reach the pre-state, else the harness itself
    base = h.split("__kf_")[0]
    vals = None
    if base in IL_BASE:
        desc_match = None  # any failed check: pointer checks have no message of ours
    for cand in ([h + "__small"] if base in OPS else []) + [h]:
        r2 = kani.run(wsdir, "steel-rc", cand, logdir + "/cex", tdir, 600,
                      extra=["-Z", "concrete-playback", "--concrete-playback=print"], modpath="verif_rc")
        vals = decode_cex(open(r2["log"], errors="replace").read(), None if base in IL_BASE else desc)
        if vals:
            break
    h = base
    if not vals or (h not in OPS and h not in IL_BASE):
        return "inconclusive", "counterexample values could not be extracted for %s (%s)" % (h, desc), None
    pre, tgt, op = target_from_cex(h, vals)
    hist, expected, why = native.search(tgt, ignore_stale=run.is_known(KF_STALE) and "merge-queue entry" not in desc)
    if not hist:
        return "inconclusive", "solver counterexample %s / %s not replayed: %s" % (pre, op, why), None
    failed, observed = native.run_history(hist)
    if not failed:
        return "inconclusive", "history %s did not fail natively (expected: %s)" % (hist, expected), None
    key = classify(h, desc, pre, expected, observed)
    payload = {"property": run.pid, "key": key, "engine": "kani-incrate + native replay (real threads, valgrind)",
               "harness": h, "failed_assertion": desc, "solver_prestate": pre, "operation": op,
               "history": hist, "expected": expected, "observed": observed,
               "how": "./check %s --replay <this file>" % run.pid}
    return "fail", (key, "%s: %s from pre-state %s; history %s; natively: %s" % (desc, op, pre, hist, observed), payload), None


def check(pid, tier, seed, harness_list, thorough_extra, prop_note):
    run = core.Run(pid, tier, seed)
    run.functions = FUNCTIONS
    run.bounds = {"unwind": 3, "counter_magnitudes": "<= 2^20 each (field is 30 bits)", "logical_threads": 3,
                  "steps": "1 real operation from any pre-state satisfying the written invariant (inductive step) + base case new()"}
    run.assumptions = [
        "representation invariant inv() in harness/rc.rs describes exactly the states between operations",
        "stub: ThreadId::current_thread reads a harness variable (acting thread is symbolic)",
        "stub: std::rt::thread_cleanup = no-op (Kani ICE workaround)",
        "stub: QueueHandle::enqueue counts calls instead of touching the dashmap queue",
        "sequentially consistent atomics; one operation at a time in the quick tier",
        "allocation never fails",
    ]
    wsdir = prepare()
    root = os.path.dirname(wsdir)
    logdir = os.path.join(root, "logs")
    native = Native(wsdir, root)
    hs = list(harness_list) + (thorough_extra if tier == "thorough" else [])
    # add masked twins for known findings
    plan = []
    for h in hs:
        plan.append(h)
        if h in MASKED and run.is_known(MASKED[h]):
            plan.append(TWIN[h])
    timeout = 300 if tier == "quick" else 1800
    res = kani.run_many(wsdir, "steel-rc", plan, logdir, os.path.join(root, "tk"), timeout, slots=min(6, len(plan)), modpath="verif_rc")
    for h in plan:
        r = res[h]
        base = h.split("__kf_")[0]
        common = dict(engine="kani-incrate", wall_s=r["wall_s"], solver_s=r.get("verif_time_s"),
                      solver_checks=r.get("summary_total", r["n_checks"]),
                      covers_total=len(r["covers"]),
                      covers_satisfied=sum(1 for v in r["covers"].values() if v == "SATISFIED"))
        vac = [d for d, v in r["covers"].items() if v != "SATISFIED"]
        if r["status"] == "pass":
            if vac:
                run.ob(h, "inconclusive", reason="vacuous: cover not satisfied: %s" % vac, **common)
            else:
                run.ob(h, "pass", nonvacuous=True, **common)
            continue
        if r["status"] == "inconclusive":
            run.ob(h, "inconclusive", reason=r["reason"] + (": " + r.get("compile_error", "") if r.get("compile_error") else ""), **common)
            continue
        # failed
        masked_twin = h in MASKED and run.is_known(MASKED[h])
        try:
            st, info, _ = handle_failure(run, r, wsdir, root, native, logdir, os.path.join(root, "tk", "cex"))
        except Exception as e:  # replay machinery failed: never a verdict
            st, info = "inconclusive", "replay machinery failed: %s" % str(e)[-600:]
        if st == "inconclusive":
            run.ob(h, "inconclusive", reason=info, **common)
            continue
        key, what, payload = info
        if run.is_known(key) and masked_twin:
            run.known_hit(key, run.known[(pid, key)] + " -- reproduced: " + payload["history"] + " => " + payload["observed"])
            run.ob(h, "known", nonvacuous=True, note="known finding %s reproduced natively; masked twin decides the rest" % key, **common)
        else:
            path = replay_file(pid, key, payload)
            run.violation(key, what, path)
            run.ob(h, "fail", note=what, **common)
    run.samples = [{"harness": "rc_step_*", "symbolic": SYMBOLIC, "operation": "one real BiasedRc operation", "asserts": "destroy iff last reference; exclusive access iff sole holder; invariant re-established"}]
    for h in plan:
        r = res[h]
        if r["covers"]:
            run.samples.append({"harness": h, "branches_witnessed": sorted(r["covers"].keys())})
    run.extra["prop_note"] = prop_note
    return run


def replay(pid, path):
    payload = json.load(open(path))
    wsdir = prepare("replay")
    native = Native(wsdir, os.path.dirname(wsdir))
    failed, observed = native.run_history(payload["history"])
    print("history: %s" % payload["history"])
    print("observed: %s" % observed)
    if failed:
        print("VIOLATION property=%s replay=%s" % (pid, path))
        return 1
    print("not reproduced on this tree")
    return 0
