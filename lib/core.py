"""Common result bookkeeping: obligations, known findings, evidence, exit codes."""
import json, os, re, sys, time

VERIF = os.path.dirname(os.path.dirname(os.path.abspath(__file__)))
KNOWN_FILE = os.path.join(VERIF, "known_findings.txt")


def load_known():
    """lines:  finding: property=<id> key=<key> <what fails>
               fixed: property=<id> <commit> <what failed>"""
    open_, fixed = {}, []
    if os.path.exists(KNOWN_FILE):
        for line in open(KNOWN_FILE):
            line = line.strip()
            if not line or line.startswith("#"):
                continue
            m = re.match(r"finding:\s+property=(\S+)\s+key=(\S+)\s+(.*)$", line)
            if m:
                open_[(m.group(1), m.group(2))] = m.group(3)
                continue
            m = re.match(r"fixed:\s+property=(\S+)\s+(\S+)\s+(.*)$", line)
            if m:
                fixed.append((m.group(1), m.group(2), m.group(3)))
    return open_, fixed


class Run:
    def __init__(self, pid, tier, seed, level="model_checking"):
        self.pid, self.tier, self.seed, self.level = pid, tier, seed, level
        self.t0 = time.time()
        self.obligations = []   # dicts: id,status(pass|fail|known|inconclusive),...
        self.violations = []    # dicts: key, what, replay
        self.known_hits = []    # (key, what)
        self.samples = []
        self.assumptions = []
        self.functions = []
        self.bounds = {}
        self.extra = {}
        self.known, self.fixed = load_known()

    def ob(self, oid, status, **kw):
        d = {"id": oid, "status": status}
        d.update(kw)
        self.obligations.append(d)
        tag = {"pass": "ok", "fail": "FAIL", "known": "known", "inconclusive": "INCONCLUSIVE"}[status]
        extra = kw.get("reason") or kw.get("note") or ""
        print("  [%s] %-44s %6.1fs %s" % (tag, oid, kw.get("wall_s", 0.0), extra), flush=True)
        return d

    def is_known(self, key):
        return (self.pid, key) in self.known

    def known_hit(self, key, what):
        if key not in [k for k, _ in self.known_hits]:
            self.known_hits.append((key, what))

    def violation(self, key, what, replay):
        self.violations.append({"key": key, "what": what, "replay": replay})

    def finish(self, rule, explanation=None):
        wall = time.time() - self.t0
        n_ob = len(self.obligations)
        n_pass = sum(1 for o in self.obligations if o["status"] in ("pass", "known"))
        inconc = [o for o in self.obligations if o["status"] == "inconclusive"]
        evals = sum(int(o.get("solver_checks", 0) or 0) for o in self.obligations)
        # distinct non-trivial cases = the distinct reachability witnesses the solver exhibited: every satisfied
        # cover of a discharged obligation is one (an obligation without covers counts once)
        nontrivial = sum(max(1, int(o.get("covers_satisfied") or 0)) for o in self.obligations if o["status"] in ("pass", "known") and o.get("nonvacuous"))
        cov = {
            "evaluations": max(evals, 0),
            "distinct_nontrivial": nontrivial,
            "rule": rule + "; distinct_nontrivial counts, over the discharged obligations, the satisfied reachability covers (each a distinct branch witness produced by the solver; an obligation without covers counts once)",
            "samples": self.samples[:12] or ["(no sample recorded)"],
            "obligations": n_ob,
            "discharged": n_pass,
            "inconclusive": [{"id": o["id"], "reason": o.get("reason")} for o in inconc],
            "functions_encoded": self.functions,
            "bounds": self.bounds,
            "per_obligation": [{k: o.get(k) for k in ("id", "status", "engine", "wall_s", "solver_s", "solver_checks", "covers_satisfied", "covers_total", "note", "reason") if o.get(k) is not None} for o in self.obligations],
            "known_findings_reproduced": [k for k, _ in self.known_hits],
            "solver_wall_s": round(sum(float(o.get("solver_s") or 0) for o in self.obligations), 2),
        }
        if explanation:
            cov["explanation"] = explanation
        cov.update(self.extra)
        ev = {
            "property_id": self.pid, "tier": self.tier, "seed": self.seed, "level": self.level,
            "coverage": cov, "assumptions": self.assumptions, "wall_s": round(wall, 1),
            "violations": len(self.violations),
        }
        # the registered commands write /verif/evidence; calibration and seed runs against a tree
        # other than /repo's unchanged working tree are pointed elsewhere (VERIF_EVIDENCE_DIR)
        evdir = os.environ.get("VERIF_EVIDENCE_DIR") or os.path.join(VERIF, "evidence")
        os.makedirs(evdir, exist_ok=True)
        with open(os.path.join(evdir, self.pid + ".json"), "w") as f:
            json.dump(ev, f, indent=1)
        for key, what in self.known_hits:
            print("KNOWN-FINDING: property=%s %s [%s]" % (self.pid, what, key))
        for v in self.violations:
            print("VIOLATION property=%s replay=%s" % (self.pid, v["replay"]))
            print("  what: %s [%s]" % (v["what"], v["key"]))
        print("%s %s: %d/%d obligations discharged, %d inconclusive, %d violation(s), %d known finding(s), %.0fs"
              % (self.pid, self.tier, n_pass, n_ob, len(inconc), len(self.violations), len(self.known_hits), wall), flush=True)
        if self.violations:
            return 1
        if inconc:
            for o in inconc:
                print("INCONCLUSIVE %s: %s" % (o["id"], o.get("reason")))
            return 2
        return 0
