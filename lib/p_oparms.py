"""E3m (part of C10): every number kind that reaches a SPECIALISED arithmetic / comparison opcode goes through a numeric
operation that the arithmetic harnesses decide.

The compiler replaces `(+ x N)`, `(- x N)`, `(<= x N)`, `(+ a b)` ... by specialised opcodes (ADDIMMEDIATE, SUBIMMEDIATE,
LTEIMMEDIATE, LTEIMMEDIATEIF, ADDREGISTER, SUBREGISTER, LTEREGISTER, SUBREGISTER1, BINOPADD, BINOPADDTAIL) whose arms
live in the interpreter's dispatch loop `VmCore::vm`.  The arms are not executed symbolically (the loop's reach is the whole
interpreter); what is read from MIR is, per opcode and per number kind (IntV, NumV, Rational, BigNum, BigRational) of the
operand, which callees the arm reaches: the arm's blocks are those reachable from the opcode's target of the dispatch switch
without passing the dispatch block again; inside the arm a switch on the operand's kind is followed with the kind known.
delegates(op, k) = the blocks for kind k call an operation of the opcode's family -- the generic primitive
(`add_primitive`, `subtract_primitive`, `lte_primitive`, `add_two(_fallible)`), the shared ordering (`PartialOrd::le` /
`partial_cmp` on SteelVal) or a checked machine operation (`checked_add` / `checked_sub`) -- which are the functions the
C10 harnesses decide.  Query (z3, opcode and kind are the symbolic variables): exists (op, k) with NOT delegates(op, k):
an arm that answers a number kind with logic of its own.  A sat answer is replayed DIFFERENTIALLY on the engine: the
operation with the operand a literal (specialised opcode) against the same operation with the operand in a variable
(generic path), for probe values of every number kind."""
import re, subprocess, time
import mir, p_opscan

FAMILY = {
    "ADD": re.compile(r"^(add_primitive|add_primitive_no_check|add_two|add_two_fallible|add_handler_none_none|checked_add)$"),
    "SUB": re.compile(r"^(subtract_primitive|checked_sub|sub_handler_none_none)$"),
    "LTE": re.compile(r"^(le|lte_primitive|partial_cmp|lte_handler_none_none)$"),
}
OPS = {"ADDIMMEDIATE": "ADD", "ADDREGISTER": "ADD", "BINOPADD": "ADD", "BINOPADDTAIL": "ADD",
       "SUBIMMEDIATE": "SUB", "SUBREGISTER": "SUB", "SUBREGISTER1": "SUB",
       "LTEIMMEDIATE": "LTE", "LTEIMMEDIATEIF": "LTE", "LTEREGISTER": "LTE"}
NUMBER_KINDS = ("IntV", "NumV", "Rational", "BigNum", "BigRational")


def analyse(mir_text, opcode_src, kinds):
    t0 = time.time()
    ops = p_opscan.opcodes(opcode_src)
    funcs = mir.parse(mir_text, lambda n: n.endswith("::vm"))
    vm = None
    for f in funcs.values():
        if re.search(r"vm\.rs:[0-9: ]+>::vm$", f.name) and "VmCore" in f.args_s:
            vm = f
    if vm is None:
        raise ValueError("VmCore::vm not found in the MIR dump")
    db, dt = p_opscan._dispatch(vm)
    if dt is None:
        raise ValueError("opcode dispatch not found in VmCore::vm")
    tg = dict(dt["targets"])
    table, info = {}, {}
    for name, fam in OPS.items():
        if name not in ops:
            continue
        i = ops.index(name)
        if i not in tg:
            info[name] = "no arm of its own in the dispatch switch"
            continue
        region = p_opscan._region(vm, tg[i], db.n)
        ksw = None
        for x in sorted(region):
            b = vm.blocks[x]
            t = b.term
            if t.get("kind") != "switch" or len(t["targets"]) < 3:
                continue
            on = re.sub(r"^(move|copy)\s+", "", t["on"].strip())
            for s in b.stmts:
                m = re.match(r"%s = discriminant\(\(\*_\d+\)\);$" % re.escape(on), s)
                if m:
                    ksw = (x, t)
            if ksw:
                break
        for k in NUMBER_KINDS:
            kk = kinds.index(k)
            if ksw is None:
                blocks = region
            else:
                st = dict(ksw[1]["targets"]).get(kk, ksw[1]["otherwise"])
                blocks = p_opscan._region(vm, st, db.n) if st is not None else set()
            calls = {p_opscan._short(c) for c in p_opscan._calls(vm, blocks)}
            hit = sorted(c for c in calls if FAMILY[fam].match(c))
            table[(name, k)] = hit
        info[name] = "kind switch at bb%d" % ksw[0] if ksw else "no kind switch: every kind takes the same calls"
    names = sorted({n for n, _ in table})
    if len(names) < 6:
        raise ValueError("only %d specialised opcode arms recognised" % len(names))
    rows = sorted(table)
    cond = " ".join("(and (= o (_ bv%d 8)) (= k (_ bv%d 8)))" % (names.index(n), NUMBER_KINDS.index(k)) for (n, k) in rows if not table[(n, k)])
    q = "(set-logic QF_BV)\n(declare-const o (_ BitVec 8))\n(declare-const k (_ BitVec 8))\n(assert (or false %s))\n(check-sat)\n" % cond
    p = subprocess.run(["z3", "-in", "-T:30"], input=q, capture_output=True, text=True)
    res = p.stdout.strip().split("\n")[0] if p.stdout.strip() else "error"
    if "(error" in p.stdout or res not in ("sat", "unsat"):
        res = "error"
    bad = [(n, k) for (n, k) in rows if not table[(n, k)]]
    return {"res": res, "opcodes": names, "info": info, "table": {"%s/%s" % nk: v for nk, v in table.items()}, "bad": bad, "dt": time.time() - t0}
