"""E3l (part of C07): the guard in front of an indexing call implies the call's precondition.

Scope: the script-callable procedures and the bodies of `#[function]` procedures (as E3b/E3c).  An *indexing site* is a call
of a container method that panics when its index operand is out of range; the table below gives, per method, the operand
positions and the relation the method requires (read once from the source of the container library, quoted in DESIGN):

    GenericVector::set / update          index <  len        (`self[index]`)
    GenericVector::take / split_at / split_off   index <= len   (`assert!(index <= self.len())` in split_off)
    Vec::remove / swap_remove            index <  len
    Vec::insert / split_off              index <= len
    <.. as Index<usize>>::index(_mut)    index <  len

A site is interpreted when its index operand resolves (through single definitions) to a parameter of the procedure or to the
integer payload of an argument.  On every path from the entry, a `switchInt` on a comparison `Lt/Le/Gt/Ge/Eq/Ne(a, b)` in which
one operand is that same index value and the other is a `len()` of a container of the indexed container's type (or a constant) is a
path condition over two 64-bit variables `i` (the index) and `n` (the length); all other branches are free.  Query (z3, QF_BV,
rank-encoded reachability): exists i, n and a path to the site along which every such condition holds and NOT (i rel n).  sat = an
index that passes the guards and violates the precondition: a panic inside the container library, in the host.  The replay calls
the procedure by its script name on a three-element container with the index the solver chose for n = 3."""
import re, subprocess, time
import mir

PRE = [
    (re.compile(r"GenericVector::<.*>::(set|update)$"), 0, 1, "<", "GenericVector"),
    (re.compile(r"GenericVector::<.*>::(take|split_at|split_off)$"), 0, 1, "<=", "GenericVector"),
    (re.compile(r"Vec::<.*>::(remove|swap_remove)$"), 0, 1, "<", "Vec"),
    (re.compile(r"Vec::<.*>::(insert|split_off)$"), 0, 1, "<=", "Vec"),
    (re.compile(r"<(?:std::vec::)?Vec<.*> as (?:std::ops::)?Index(?:Mut)?<usize>>::index(_mut)?$"), 0, 1, "<", "Vec"),
    (re.compile(r"<GenericVector<.*> as (?:std::ops::)?Index(?:Mut)?<usize>>::index(_mut)?$"), 0, 1, "<", "GenericVector"),
]
CMP = {"Lt": ("bvult", "bvslt"), "Le": ("bvule", "bvsle"), "Gt": ("bvugt", "bvsgt"), "Ge": ("bvuge", "bvsge"), "Eq": ("=", "="), "Ne": ("distinct", "distinct")}


def _norm(o):
    return re.sub(r"\s+", " ", o).strip()


def _strip(o):
    o = _norm(o)
    changed = True
    while changed:
        changed = False
        m = re.fullmatch(r"(?:move|copy) (.*)", o)
        if m:
            o, changed = m.group(1), True
        if o.startswith("(") and o.endswith(")") and _bal(o[1:-1]):
            o, changed = o[1:-1].strip(), True
        m = re.fullmatch(r"(.*) as usize \(IntToInt\)", o)
        if m:
            o, changed = m.group(1).strip(), True
    return o


def _bal(s):
    d = 0
    for ch in s:
        if ch == "(":
            d += 1
        elif ch == ")":
            d -= 1
            if d < 0:
                return False
    return d == 0


def index_core(f, arg):
    """-> canonical text of the index value if it is a parameter or an argument's integer payload, else None"""
    o = _strip(mir.origin(f, arg))
    if re.fullmatch(r"_\d+", o) and o in f.argtypes and re.fullmatch(r"(usize|isize|u32|i32|u64|i64)", f.argtypes[o].strip()):
        return o
    if re.search(r"as IntV\)\.0: isize", o) and o.count("as IntV") == 1:
        return o
    return None


def _signed(f, operand_text):
    m = re.fullmatch(r"(?:move |copy )?(_\d+)", operand_text.strip())
    if m:
        return f.type_of(m.group(1)).strip().startswith("i")
    return False


def guard(f, t, core, ctype):
    """-> smt relation over i, n for a switch on a comparison of the index with a length / constant, or None"""
    on = t["on"]
    m0 = re.fullmatch(r"(?:move |copy )?(_\d+)", on.strip())
    if not m0:
        return None
    ds = f.defs.get(m0.group(1))
    if not ds or len(set(ds)) != 1:
        return None
    m = re.fullmatch(r"(Lt|Le|Gt|Ge|Eq|Ne)\((.*), (.*)\)", ds[0].strip())
    if not m:
        return None
    op, a, b = m.group(1), m.group(2), m.group(3)
    sa, sb = _strip(mir.origin(f, a)), _strip(mir.origin(f, b))
    signed = _signed(f, a) or _signed(f, b)

    def term(s):
        if s == core:
            return "i"
        mm = re.fullmatch(r"const (-?\d+)_[iu]size", s)
        if mm:
            return "(_ bv%d 64)" % (int(mm.group(1)) & ((1 << 64) - 1))
        if re.search(r"%s::<.*>::len\(" % ctype, s) or (ctype == "Vec" and ("::len(" in s or "borrow::<usize" in s)):
            return "n"
        return None
    ta, tb = term(sa), term(sb)
    if ta is None or tb is None or "i" not in (ta, tb):
        return None
    return "(%s %s %s)" % (CMP[op][1 if signed else 0], ta, tb)


def check_site(f, bb, core, rel, ctype, timeout=30):
    blocks = sorted(n for n, b in f.blocks.items() if not b.cleanup)
    preds, guards = {}, 0
    for n in blocks:
        t = f.blocks[n].term
        if t["kind"] in ("goto", "drop", "call") and "to" in t:
            preds.setdefault(t["to"], []).append((n, None))
        elif t["kind"] == "switch":
            g = guard(f, t, core, ctype)
            if g:
                guards += 1
            vals = []
            for val, tgt in t["targets"]:
                preds.setdefault(tgt, []).append((n, None if g is None else (g if val != 0 else "(not %s)" % g)))
                vals.append(val)
            if t["otherwise"] is not None:
                c = None
                if g is not None:
                    c = "(and true %s)" % " ".join(("(not %s)" % g) if x == 1 else g for x in vals)
                preds.setdefault(t["otherwise"], []).append((n, c))
    lines = ["(set-logic QF_BV)", "(declare-const i (_ BitVec 64))", "(declare-const n (_ BitVec 64))", "(assert (bvult n (_ bv%d 64)))" % (1 << 62)]
    for x in blocks:
        lines.append("(declare-const r%d Bool)(declare-const d%d (_ BitVec 16))" % (x, x))
    lines.append("(assert r0)(assert (= d0 (_ bv0 16)))")
    for x in blocks:
        if x == 0:
            continue
        alts = ["(and r%d (bvult d%d d%d) %s)" % (s, s, x, c or "true") for s, c in preds.get(x, []) if s in f.blocks and not f.blocks[s].cleanup]
        lines.append("(assert (=> r%d (or false %s)))" % (x, " ".join(alts)))
    lines.append("(assert r%d)" % bb)
    base = "\n".join(lines) + "\n"
    t0 = time.time()
    p = subprocess.run(["z3", "-in", "-T:%d" % timeout], input=base + "(check-sat)\n", capture_output=True, text=True)
    wit = p.stdout.strip().split("\n")[0] if p.stdout.strip() else "error"
    viol = "(assert (not (%s i n)))\n" % ("bvult" if rel == "<" else "bvule")
    p = subprocess.run(["z3", "-in", "-T:%d" % timeout], input=base + viol + "(check-sat)\n", capture_output=True, text=True)
    res = p.stdout.strip().split("\n")[0] if p.stdout.strip() else "error"
    if "(error" in p.stdout or res not in ("sat", "unsat"):
        res = "error"
    idx = None
    if res == "sat":
        # a script-sized witness: a container of three elements, the smallest offending index
        for extra in ("(assert (= n (_ bv3 64)))\n(assert (bvule i (_ bv4 64)))\n", "(assert (= n (_ bv3 64)))\n", ""):
            p = subprocess.run(["z3", "-in", "-T:%d" % timeout], input=base + viol + extra + "(check-sat)\n(get-value (i n))\n", capture_output=True, text=True)
            vs = re.findall(r"#x([0-9a-f]{16})", p.stdout)
            if p.stdout.startswith("sat") and len(vs) >= 2:
                idx = (int(vs[0], 16), int(vs[1], 16))
                break
    return {"res": res, "witness": wit, "guards": guards, "index_len": idx, "dt": time.time() - t0}


def analyse(funcs):
    """funcs: parsed MIR functions in scope (dict).  -> list of site results"""
    out = []
    for key, f in funcs.items():
        for n, b in sorted(f.blocks.items()):
            t = b.term
            if b.cleanup or t.get("kind") != "call":
                continue
            for rx, ci, ai, rel, ctype in PRE:
                if rx.search(t["callee"]) and len(t["args"]) > ai:
                    core = index_core(f, t["args"][ai])
                    if core is None:
                        continue
                    r = check_site(f, n, core, rel, ctype)
                    r.update({"function": f.name.split("::")[-1], "bb": n, "method": re.sub(r"<.*>", "", t["callee"]).split("::")[-1] or t["callee"][-20:],
                              "container": ctype, "requires": "index %s len" % rel, "index_is": "parameter" if re.fullmatch(r"_\d+", core) else "argument payload"})
                    out.append(r)
                    break
    return out
