"""Engine E2: bounded model checking of the thread-synchronisation protocol with the SCHEDULE
as a symbolic variable.  The per-thread automata are extracted from the compiler's MIR of the
real functions (lib/mir.py); this module
  1. projects each function's MIR control-flow graph onto the synchronisation vocabulary,
  2. inlines callees/closures and composes thread roles (the "harness"),
  3. unrolls the product with a symbolic scheduler into SMT (z3), and
  4. decodes a satisfying assignment into a schedule.
Anything in a listed function that the vocabulary/assumption tables do not explain raises
ExtractionError: the model is never completed by hand."""
import re, itertools, subprocess, os, time, json
import mir


class ExtractionError(Exception):
    pass


# --------------------------------------------------------------------------- vocabulary
T_CTX = r"AtomicCell::<(?:std::option::)?Option<\*mut (?:steel_vm::)?vm::SteelThread>>"
T_STATE = r"AtomicCell::<(?:steel_vm::vm::|vm::)?ThreadState>"
T_BOOL = r"Atomic::<bool>"
T_CTX_N = r"AtomicCell<(?:std::option::)?Option<\*mut (?:steel_vm::)?vm::SteelThread>>"  # nested (no turbofish)

STATE_NAMES = ["Running", "Interrupted", "Suspended", "PausedAtSafepoint"]


def whose(orig, fn):
    """Which thread's object does this origin expression denote: 'self', 'iter' or 'recv'."""
    if "Iterator>::next(" in orig or "upgrade(" in orig or "as_underlying_type" in orig or re.search(r"\(\*_2\)", orig) and "ThreadContext" in fn.argtypes.get("_2", ""):
        return "iter"
    a1 = fn.argtypes.get("_1", "")
    if "ThreadStateController" in a1 and "(*_1)" in orig:
        return "recv"
    if "(*_1)" in orig or "_1" in orig:
        return "self"
    raise ExtractionError("cannot attribute %s in %s" % (orig[:200], fn.name))


def classify_call(fn, term):
    c = term["callee"]
    args = [mir.origin(fn, a) for a in term["args"]]
    a0 = args[0] if args else ""
    if re.search(T_BOOL + r"::load$", c):
        return {"k": "paused_load", "w": whose(a0, fn)}
    if re.search(T_BOOL + r"::store$", c):
        v = "const true" in args[1]
        if "const true" not in args[1] and "const false" not in args[1]:
            raise ExtractionError("paused store of non-constant in %s" % fn.name)
        return {"k": "paused_store", "w": whose(a0, fn), "v": v}
    if re.search(T_STATE + r"::load$", c):
        return {"k": "state_load", "w": whose(a0, fn)}
    if re.search(T_STATE + r"::store$", c):
        m = re.search(r"ThreadState::(\w+)", args[1])
        if not m:
            raise ExtractionError("state store of unknown value %s" % args[1][:100])
        return {"k": "state_store", "w": whose(a0, fn), "v": STATE_NAMES.index(m.group(1))}
    if re.search(T_CTX + r"::load$", c):
        return {"k": "ctx_load", "w": whose(a0, fn)}
    if re.search(T_CTX + r"::store$", c):
        if "::Some(" in args[1]:
            v = True
        elif "::None" in args[1]:
            v = False
        else:
            raise ExtractionError("ctx store of unknown value %s" % args[1][:100])
        return {"k": "ctx_store", "w": whose(a0, fn), "v": v}
    if re.search(r"verif_hook::point$", c) or (c == "point" and args and "verif_hook::" in args[0]):
        # only present when the MIR is dumped with --cfg steel_verif (conformance run, DESIGN 3.5)
        m = re.search(r"const (\d+)_u32", args[0]) or re.search(r"const (?:\w+::)*(\w+)", args[0])
        if not m:
            raise ExtractionError("hook point with a non-constant id in %s" % fn.name)
        return {"k": "hook", "id": m.group(1)}
    if c == "park" or c.endswith("thread::park"):
        return {"k": "park"}
    if re.search(r"Thread::unpark$", c):
        return {"k": "unpark", "w": whose(a0, fn)}
    if re.search(r"Mutex::<Vec<(?:steel_vm::)?vm::ThreadContext>>::lock$", c):
        return {"k": "reglock"}
    if re.search(r"Iter<'_, (?:steel_vm::)?vm::ThreadContext> as (?:std::iter::)?IntoIterator>::into_iter$", c):
        return {"k": "iter_init"}
    if re.search(r"Iter<'_, (?:steel_vm::)?vm::ThreadContext> as (?:std::iter::)?Iterator>::next$", c):
        return {"k": "iter_next"}
    m = re.search(r"Iter<'_, (?:steel_vm::)?vm::ThreadContext> as (?:std::iter::)?Iterator>::for_each::<\{closure@(.*?)\}>$", c)
    if m:
        return {"k": "foreach", "closure": m.group(1)}
    if re.search(r"Weak::<(?:crossbeam_utils::atomic::)?" + T_CTX_N + r">::upgrade$", c):
        return {"k": "upgrade"}
    if re.search(r"Arc::<(?:crossbeam_utils::atomic::)?" + T_CTX_N + r">::ptr_eq$", c):
        return {"k": "same"}
    if re.match(r"<(impl Fn|F as Fn)", c):
        on_iter = "AtomicCell::<" in " ".join(args) and "::load(" in " ".join(args)
        forked = "try_lock" in " ".join(args)
        return {"k": "callback", "on_iter": on_iter, "forked": forked}
    m = re.match(r"(?:vm::|steel_vm::vm::)?(ThreadStateController::(?:pause_for_safepoint|resume|suspend|interrupt))$", c)
    if m:
        return {"k": "call", "fn": m.group(1), "w": whose(a0, fn)}
    m = re.match(r"(?:vm::|steel_vm::vm::)?Synchronizer::(stop_threads|resume_threads|enumerate_stacks)$", c)
    if m:
        return {"k": "call", "fn": "Synchronizer::" + m.group(1)}
    m = re.match(r"(?:vm::|steel_vm::vm::)?Synchronizer::call_per_ctx::<\{closure@(.*?)\}>$", c)
    if m:
        return {"k": "call", "fn": "Synchronizer::call_per_ctx", "closure": m.group(1)}
    if re.search(r"VmCore::<'_>::park_thread_while_paused$", c):
        return {"k": "call", "fn": "VmCore::park_thread_while_paused"}
    m = re.match(r"(?:vm::|steel_vm::vm::)?SteelThread::enter_safepoint::<.*\{closure@(.*?)\}>$", c)
    if m:
        return {"k": "call", "fn": "SteelThread::enter_safepoint", "closure": m.group(1)}
    m = re.match(r"(?:vm::|steel_vm::vm::)?SteelThread::with_locked_env::<.*\{closure@(.*?)\}>$", c)
    if m:
        return {"k": "call", "fn": "SteelThread::with_locked_env", "closure": m.group(1)}
    m = re.match(r"(?:closed::|values::closed::)?Heap::(allocate|allocate_vector|allocate_vector_iter|collection|value_collection|vector_collection|mark_and_sweep_new|mark)(?:::<.*>)?$", c)
    if m:
        return {"k": "call", "fn": "Heap::" + m.group(1)}
    # heap lock (parking_lot arc lock) -- only in the role closures
    if c.endswith("::lock_arc") or "lock_arc" in c:
        return {"k": "heaplock"}
    return None  # tau


def classify_switch(fn, term, pending):
    """`pending`: classification of the value-producing action this switch consumes (or None).
    -> ('guard', mapping value->bb, otherwise) | ('assume', bb) | ('free', [bbs])"""
    o = mir.origin(fn, term["on"])
    tg, other = term["targets"], term["otherwise"]
    # assumption table -------------------------------------------------------
    if re.search(r"^\(*copy \(\(\*_1\)\.\d+: bool\)+$", o) and "SteelThread" in fn.argtypes.get("_1", ""):
        return ("assume", other, "safepoints_enabled == true")
    if re.search(r"Synchronizer\)\.3: bool\)", o):
        t0 = dict(tg).get(0)
        return ("assume", t0, "spawned_via_make_thread == false")
    if re.match(r"^\(discriminant\(\(rvals::as_underlying_type::<ThreadHandle>\(", o):
        return ("assume", dict(tg)[1], "registry handle is a ThreadHandle")
    if re.match(r"^\(discriminant\(.*as_underlying_type::<ThreadHandle>\(", o) and re.search(
            r"ThreadHandle\)+\.\d+: (?:std::option::)?Option<std::sync::Weak<std::sync::Mutex<[^>]*SteelThread>>>\)+$", o):
        return ("assume", dict(tg)[0], "forked_thread_handle == None (native threads only)")
    if re.match(r"^\(discriminant\(", o) and re.search(r": rvals::SteelVal\)+$", o) and "::load(" not in o:
        if len(tg) == 1:
            return ("assume", tg[0][1], "registry handle is SteelVal::Custom")
    return None


DROP_HEAP = re.compile(r"ArcMutexGuard<parking_lot::RawMutex, (?:values::closed::)?Heap>")
DROP_REG = re.compile(r"MutexGuard<'_, (?:std::vec::)?Vec<(?:steel_vm::)?vm::ThreadContext>>")


# --------------------------------------------------------------------------- automaton
class Node:
    __slots__ = ("id", "k", "a", "succ", "src")

    def __init__(self, nid, k, a=None, src=None):
        self.id, self.k, self.a, self.succ, self.src = nid, k, a or {}, {}, src

    def __repr__(self):
        return "N%d:%s%s->%s" % (self.id, self.k, {k: v for k, v in self.a.items()}, self.succ)


class Builder:
    """Flattens functions into one automaton per role instance."""

    def __init__(self, funcs, free_fns=()):
        self.funcs = funcs
        self.nodes = []
        self.assumptions = set()
        self.free_fns = free_fns
        self.encoded = set()

    def new(self, k, a=None, src=None):
        n = Node(len(self.nodes), k, a, src)
        self.nodes.append(n)
        return n

    def find(self, suffix, selftype=None):
        """by name suffix and (optionally) the type of the receiver `_1` -- never by source line"""
        c = [f for f in self.funcs.values() if (f.name.endswith(suffix) or f.name == suffix.lstrip(":")) and (selftype is None or re.search(selftype, f.argtypes.get("_1", "")))]
        if len(c) != 1:
            raise ExtractionError("function %s (self: %s): %d candidates in the MIR dump" % (suffix, selftype, len(c)))
        return c[0]

    def find_closure(self, loc):
        c = [f for f in self.funcs.values() if ("{closure@%s}" % loc) in f.argtypes.get("_1", "")]
        if len(c) != 1:
            raise ExtractionError("closure %s: %d candidates" % (loc, len(c)))
        return c[0]

    def inline(self, fn, cont, recv=None, callback=None, free=False, depth=0):
        """Instantiate fn's automaton; every `return` continues at node `cont`.
        recv: what 'recv' means for ThreadStateController methods ('self'|'iter').
        callback: function(cont_node, info) -> entry node, for FnMut/FnOnce parameter calls.
        Returns the entry node."""
        if depth > 14:
            raise ExtractionError("inline depth")
        self.encoded.add(fn.name)
        memo = {}

        def res_w(w):
            if w == "recv":
                if recv is None:
                    raise ExtractionError("recv unbound in %s" % fn.name)
                return recv
            return w

        def at(bb, pending=None):
            key = (bb, json.dumps(pending, sort_keys=True) if pending else None)
            if key in memo:
                return memo[key]
            b = fn.blocks[bb]
            t = b.term
            src = "%s:bb%d" % (fn.name.split(">::")[-1], bb)
            if t["kind"] == "goto":
                ph = self.new("tau", src=src)
                memo[key] = ph
                ph.succ["ok"] = at(t["to"], pending)
                return ph
            if t["kind"] == "return":
                memo[key] = cont
                return cont
            if t["kind"] == "dead":
                n = self.new("dead", src=src)
                memo[key] = n
                return n
            if t["kind"] == "drop":
                if DROP_HEAP.search(fn.type_of(t["place"])) and not b.cleanup:
                    n = self.new("heapunlock", src=src)
                    memo[key] = n
                    n.succ["ok"] = at(t["to"], pending)
                    return n
                if DROP_REG.search(fn.type_of(t["place"])) and not b.cleanup:
                    n = self.new("regunlock", src=src)
                    memo[key] = n
                    n.succ["ok"] = at(t["to"], pending)
                    return n
                ph = self.new("tau", src=src)
                memo[key] = ph
                ph.succ["ok"] = at(t["to"], pending)
                return ph
            if t["kind"] == "switch":
                o = mir.origin(fn, t["on"])
                tg, other = t["targets"], t["otherwise"]
                n = None
                if pending is not None:
                    pk = pending["k"]
                    consumed = (
                        (pk == "paused_load" and re.search(T_BOOL + r"::load\(", o) and "discriminant" not in o)
                        or (pk == "state_load" and re.search(T_STATE + r"::load\(", o))
                        or (pk == "ctx_load" and re.search(T_CTX + r"::load\(", o) and "call_mut" not in o)
                        or (pk == "iter_next" and "Iterator>::next(" in o and o.startswith("(discriminant") and "upgrade(" not in o and "as Some" not in o)
                        or (pk == "upgrade" and "upgrade(" in o and "ptr_eq" not in o and "::load(" not in o)
                        or (pk == "same" and "ptr_eq(" in o)
                    )
                    if consumed:
                        n = self.nodes[pending["node"]]
                        vals = dict(tg)
                        if pk == "paused_load":
                            n.succ["false"] = at(vals.get(0, other))
                            n.succ["true"] = at(other if 1 not in vals else vals[1])
                        elif pk == "state_load":
                            for i, nm in enumerate(STATE_NAMES):
                                n.succ[nm] = at(vals.get(i, other))
                        elif pk == "ctx_load":
                            n.succ["none"] = at(vals.get(0, other))
                            some_bb = vals.get(1, other)
                            if pending.get("w") == "iter":
                                sc = self.new("scan", {"w": "iter"}, src=src + ":some-arm")
                                sc.succ["ok"] = at(some_bb)
                                n.succ["some"] = sc
                            else:
                                n.succ["some"] = at(some_bb)
                        elif pk == "iter_next":
                            n.succ["done"] = at(vals.get(0, other))
                            n.succ["item"] = at(vals.get(1, other))
                        elif pk == "upgrade":
                            n.succ["dead"] = at(vals.get(0, other))
                            n.succ["alive"] = at(vals.get(1, other))
                        elif pk == "same":
                            n.succ["diff"] = at(vals.get(0, other))
                            n.succ["same"] = at(other if 1 not in vals else vals[1])
                        ph = self.new("tau", src=src)
                        ph.succ["ok"] = ph  # never entered: the value node branches directly
                        memo[key] = ph
                        return ph
                if o.startswith("(discriminant") and "upgrade(" in o and "ptr_eq" not in o and "::load(" not in o:
                    # the result of an earlier upgrade, kept in a local and tested again (the value
                    # is a per-thread register written by the upgrade node)
                    vals = dict(tg)
                    n = self.new("up_test", src=src)
                    memo[key] = n
                    n.succ["dead"] = at(vals.get(0, other))
                    n.succ["alive"] = at(vals.get(1, other))
                    return n
                cs = classify_switch(fn, t, pending)
                if cs and cs[0] == "assume":
                    self.assumptions.add(cs[2])
                    ph = self.new("tau", src=src)
                    memo[key] = ph
                    ph.succ["ok"] = at(cs[1], pending)
                    return ph
                if free or any(x in fn.name for x in self.free_fns):
                    n = self.new("choice", src=src)
                    memo[key] = n
                    for i, (v, bbt) in enumerate(tg):
                        n.succ["c%d" % i] = at(bbt)
                    if other is not None and fn.blocks[other].term["kind"] != "dead":
                        n.succ["co"] = at(other)
                    return n
                raise ExtractionError("unexplained branch in %s bb%d on %s" % (fn.name, bb, o[:300]))
            if t["kind"] == "call":
                cl = classify_call(fn, t)
                if cl is None and re.search(r"rerrs::SteelErr::new|SteelErr::new", t["callee"]):
                    n = self.new("mark", {"m": "err"}, src=src)
                    memo[key] = n
                    n.succ["ok"] = at(t["to"], pending)
                    return n
                if cl is None:
                    ph = self.new("tau", src=src)
                    memo[key] = ph
                    ph.succ["ok"] = at(t["to"], pending)
                    return ph
                k = cl["k"]
                if k in ("paused_load", "state_load", "ctx_load", "iter_next", "upgrade", "same"):
                    n = self.new(k, {"w": res_w(cl.get("w", "iter" if k in ("upgrade",) else "self"))} if "w" in cl else {}, src=src)
                    memo[key] = n
                    p = dict(cl)
                    p["node"] = n.id
                    if "w" in p:
                        p["w"] = res_w(p["w"])
                    # the consuming switch hangs the successors onto n
                    at(t["to"], p)
                    if not n.succ:
                        raise ExtractionError("value of %s in %s bb%d is not branched on immediately" % (k, fn.name, bb))
                    return n
                if k in ("paused_store", "state_store", "ctx_store", "unpark"):
                    n = self.new(k, {"w": res_w(cl["w"]), "v": cl.get("v")}, src=src)
                elif k in ("park", "reglock", "iter_init", "heaplock"):
                    n = self.new(k, src=src)
                elif k == "hook":
                    n = self.new("hook", {"id": cl["id"]}, src=src)
                elif k == "foreach":
                    clo = self.find_closure(cl["closure"])
                    n = self.new("iter_init", src=src)
                    memo[key] = n
                    nx = self.new("iter_next", src=src + ":for_each")
                    n.succ["ok"] = nx
                    nx.succ["done"] = at(t["to"], pending)
                    nx.succ["item"] = self.inline(clo, nx, recv=recv, callback=callback, depth=depth + 1)
                    return n
                elif k == "callback":
                    if cl.get("forked"):
                        ph = self.new("dead", src=src)
                        memo[key] = ph
                        return ph
                    ph = self.new("tau", src=src)
                    memo[key] = ph
                    if callback is None:
                        raise ExtractionError("callback without role binding in %s" % fn.name)
                    ph.succ["ok"] = callback(at(t["to"], pending), cl)
                    return ph
                elif k == "call":
                    ph = self.new("tau", src=src)
                    memo[key] = ph
                    f2 = cl["fn"]
                    nxt = at(t["to"], pending)
                    if f2.startswith("ThreadStateController::"):
                        callee = self.find("::" + f2.split("::")[1], r"ThreadStateController$")
                        ph.succ["ok"] = self.inline(callee, nxt, recv=res_w(cl["w"]), depth=depth + 1)
                    elif f2 == "Synchronizer::call_per_ctx":
                        callee = self.find("::call_per_ctx")
                        clo = self.find_closure(cl["closure"])

                        def cb(c2, info, clo=clo):
                            # the closure body runs on the iterated thread's state: ghost scan window
                            return c2

                        ph.succ["ok"] = self.inline(callee, nxt, callback=cb, depth=depth + 1)
                    elif f2.startswith("Synchronizer::"):
                        callee = self.find("::" + f2.split("::")[1], r"Synchronizer$")
                        ph.succ["ok"] = self.inline(callee, nxt, depth=depth + 1, free=(f2.endswith("enumerate_stacks")))
                    elif f2 == "SteelThread::enter_safepoint":
                        callee = self.find("::enter_safepoint", r"SteelThread$")
                        clo = self.find_closure(cl["closure"])

                        def cb2(c2, info, clo=clo):
                            return self.inline(clo, c2, depth=depth + 2)

                        ph.succ["ok"] = self.inline(callee, nxt, callback=cb2, depth=depth + 1)
                    elif f2 == "SteelThread::with_locked_env":
                        callee = self.find("::with_locked_env")

                        def cb3(c2, info):
                            th = self.new("thunk")
                            th.succ["ok"] = c2
                            return th

                        ph.succ["ok"] = self.inline(callee, nxt, callback=cb3, depth=depth + 1)
                    elif f2.startswith("Heap::"):
                        nm = "::" + f2.split("::")[1]
                        c = [f for f in self.funcs.values() if f.name.endswith(nm) and re.match(r"&mut (?:values::closed::)?Heap$", f.argtypes.get("_1", ""))]
                        if len(c) != 1:
                            raise ExtractionError("Heap%s: %d candidates" % (nm, len(c)))
                        ph.succ["ok"] = self.inline(c[0], nxt, depth=depth + 1, free=True)
                    elif f2 == "VmCore::park_thread_while_paused":
                        callee = self.find("::park_thread_while_paused")
                        ph.succ["ok"] = self.inline(callee, nxt, depth=depth + 1)
                    else:
                        raise ExtractionError("unknown inline target " + f2)
                    return ph
                else:
                    raise ExtractionError("unhandled vocabulary kind " + k)
                memo[key] = n
                n.succ["ok"] = at(t["to"], pending)
                return n
            raise ExtractionError("unknown terminator in %s bb%d: %s" % (fn.name, bb, t))

        return at(0)


def compress(nodes, entry):
    """Skip tau nodes; returns (entry_id, {id: node}) over reachable non-tau nodes."""
    def skip(n, seen=None):
        seen = seen or set()
        while n.k == "tau":
            if n.id in seen:
                return n  # tau self-loop placeholder (unreachable)
            seen.add(n.id)
            n = n.succ["ok"]
        return n

    def resolve_choice(n):
        """a `choice` (branch on data outside the vocabulary) whose alternatives all lead, through
        further choices only, to ONE vocabulary node is control-irrelevant: skip it."""
        seen, todo, exits = set(), [n], set()
        while todo:
            x = skip(todo.pop())
            if x.k == "choice":
                if x.id in seen:
                    continue
                seen.add(x.id)
                todo.extend(x.succ.values())
            else:
                exits.add(x.id)
        return exits

    byid = {n.id: n for n in nodes}
    changed = True
    while changed:
        changed = False
        for n in nodes:
            if n.k == "choice":
                ex = resolve_choice(n)
                if len(ex) == 1:
                    n.k = "tau"
                    n.succ = {"ok": byid[ex.pop()]}
                    changed = True
    # remaining choices: jump straight to their vocabulary exits (chains of choices collapse)
    for n in nodes:
        if n.k == "choice":
            ex = sorted(resolve_choice(n))
            n.succ = {"c%d" % j: byid[e] for j, e in enumerate(ex)}
    entry = skip(entry)
    out = {}
    stack = [entry]
    while stack:
        n = stack.pop()
        if n.id in out:
            continue
        out[n.id] = n
        for lbl in list(n.succ):
            n.succ[lbl] = skip(n.succ[lbl])
            stack.append(n.succ[lbl])
    return entry, out


# --------------------------------------------------------------------------- roles (the harness)
class Program:
    """One thread's program: a flattened automaton built from real functions + ghost nodes."""

    def __init__(self, builder, tid, ops, n_threads, is_host=False):
        self.b, self.tid, self.ops, self.n = builder, tid, ops, n_threads
        b = builder
        self.done = b.new("DONE")
        self.err = b.new("ERR")
        nxt = self.done
        for op in reversed(ops):
            nxt = self._op(op, nxt, is_host)
        self.entry = nxt

    def _poll(self, cont):
        b = self.b
        f = b.find("::safepoint_or_interrupt")
        # the error return is recognised by the SteelErr construction on its path
        tmp_end = b.new("tau")
        tmp_end.succ["ok"] = cont
        start = len(b.nodes)
        e = b.inline(f, tmp_end)
        for n in b.nodes[start:]:
            if n.k == "mark" and n.a.get("m") == "err":
                n.succ["ok"] = self.err
        pb = b.new("poll_begin")
        pb.succ["ok"] = e
        return pb

    def _op(self, op, cont, is_host):
        b = self.b
        if is_host:
            kind, target = op
            f = b.find("::" + kind, r"ThreadStateController$")
            start = len(b.nodes)
            e = b.inline(f, cont, recv=("fixed", target))
            return e
        if op == "any":
            # conformance runs only: the solver picks what this slot of the program is
            ch = b.new("choice")
            ch.succ["c0"] = self._op("user", cont, is_host)
            ch.succ["c1"] = self._op("prim", cont, is_host)
            ch.succ["c2"] = cont
            return ch
        if op == "user":
            u = b.new("user")
            u.succ["ok"] = cont
            return self._poll(u)
        if op == "prim":
            u = b.new("user")  # the interpreter pushes the primitive's result on its own stack
            u.succ["ok"] = cont
            f = b.find("::enter_safepoint", r"SteelThread$")

            def cb(c2, info):
                blk = b.new("block")
                blk.succ["ok"] = c2
                return blk

            return self._poll(b.inline(f, u, callback=cb))
        if op in ("gc", "define", "alloc", "set", "spawn"):
            name = {"gc": "::gc_collect", "define": "::insert_binding", "alloc": "::make_box", "set": "::handle_set",
                    "spawn": "::spawn_native_thread"}[op]
            f = b.find(name)
            mk_cont = cont
            if op in ("gc", "alloc"):
                u = b.new("user")  # the result is stored on the thread's own stack
                u.succ["ok"] = cont
                mk_cont = u
            return self._poll(b.inline(f, mk_cont, free=True))
        if op in ("gc_old", "alloc_old"):
            unlock = b.new("heapunlock")
            unlock.succ["ok"] = cont
            after = unlock
            if op == "gc":
                res = b.inline(b.find("::resume_threads", r"Synchronizer$"), unlock)
                mk = b.new("marking")
                mk.succ["ok"] = res
                en = b.inline(b.find("::enumerate_stacks"), mk, free=True)
                after = b.inline(b.find("::stop_threads", r"Synchronizer$"), en)
            f = b.find("::enter_safepoint", r"SteelThread$")

            def cb(c2, info):
                hl = b.new("heaplock")
                hl.succ["ok"] = c2
                return hl

            return self._poll(b.inline(f, after, callback=cb))
        if op == "define_old":
            f = b.find("::with_locked_env")

            def cb(c2, info):
                th = b.new("thunk")
                th.succ["ok"] = c2
                return th

            return self._poll(b.inline(f, cont, callback=cb))
        raise ValueError(op)


def build_system(funcs, programs_spec):
    """programs_spec: list of ('script', [ops]) or ('host', [(kind,target)...]).
    Script threads get registry indices 0..n-1 in order; hosts come after."""
    n = sum(1 for r, _ in programs_spec if r == "script")
    b = Builder(funcs)
    progs = []
    for tid, (role, ops) in enumerate(programs_spec):
        p = Program(b, tid, ops, n, is_host=(role == "host"))
        p.entry, p.nodes = compress(b.nodes, p.entry)
        p.role = role
        progs.append(p)
    return b, progs, n


# --------------------------------------------------------------------------- SMT unrolling
# Bit-vector encoding: pc (PCW bits), registry-iteration index (ITW), thread state (2), lock owner /
# scheduler choice (3; value FREE = 7 means "nobody" / stutter), branch choice (3), poll counter (4).
PCW, ITW, LKW, BRW, PLW = 10, 3, 3, 3, 4
FREE = 7


def bv(v, w):
    return "(_ bv%d %d)" % (v, w)


class Smt:
    def __init__(self, progs, n, K, trace=None, silent=()):
        """trace: list of (thread, hook id) the run has to emit, in this order (conformance);
        hook ids in `silent` are not observable."""
        self.trace, self.silent = trace, set(silent)
        self.progs, self.n, self.K = progs, n, K
        self.T = len(progs)
        self.lines = []
        self.n_trans = 0
        assert self.T < FREE and max(nd for p in progs for nd in p.nodes) < (1 << PCW)

    def declare(self):
        L = self.lines
        L.append("(set-logic QF_BV)")
        L.append("(set-option :produce-models true)")
        for k in range(self.K + 1):
            for t in range(self.T):
                L.append("(declare-const pc%d_%d (_ BitVec %d))" % (t, k, PCW))
                L.append("(declare-const it%d_%d (_ BitVec %d))" % (t, k, ITW))
                L.append("(declare-const polls%d_%d (_ BitVec %d))" % (t, k, PLW))
                L.append("(declare-const up%d_%d Bool)" % (t, k))
            for i in range(self.n):
                L.append("(declare-const paused%d_%d Bool)" % (i, k))
                L.append("(declare-const state%d_%d (_ BitVec 2))" % (i, k))
                L.append("(declare-const ctx%d_%d Bool)" % (i, k))
                L.append("(declare-const tok%d_%d Bool)" % (i, k))
            L.append("(declare-const reglock_%d (_ BitVec %d))" % (k, LKW))
            L.append("(declare-const heaplock_%d (_ BitVec %d))" % (k, LKW))
            if self.trace is not None:
                L.append("(declare-const pos_%d (_ BitVec 8))" % k)
            if k < self.K:
                L.append("(declare-const sched_%d (_ BitVec %d))" % (k, LKW))
                L.append("(declare-const br_%d (_ BitVec %d))" % (k, BRW))

    def all_vars(self):
        vs = []
        for t in range(self.T):
            vs += ["pc%d" % t, "it%d" % t, "polls%d" % t, "up%d" % t]
        for i in range(self.n):
            vs += ["paused%d" % i, "state%d" % i, "ctx%d" % i, "tok%d" % i]
        vs += ["reglock", "heaplock"]
        if self.trace is not None:
            vs.append("pos")
        return vs

    def init(self):
        L = self.lines
        for t, p in enumerate(self.progs):
            L.append("(assert (= pc%d_0 %s))" % (t, bv(p.entry.id, PCW)))
            L.append("(assert (= it%d_0 %s))" % (t, bv(0, ITW)))
            L.append("(assert (= polls%d_0 %s))" % (t, bv(0, PLW)))
            L.append("(assert (not up%d_0))" % t)
        for i in range(self.n):
            L.append("(assert (not paused%d_0))" % i)
            L.append("(assert (= state%d_0 %s))" % (i, bv(0, 2)))
            L.append("(assert (not ctx%d_0))" % i)
            # tok_i_0 is left free: a thread may start with a stale unpark token (resume_threads
            # unparks every registered thread, parked or not)
        L.append("(assert (= reglock_0 %s))" % bv(FREE, LKW))
        L.append("(assert (= heaplock_0 %s))" % bv(FREE, LKW))
        if self.trace is not None:
            L.append("(assert (= pos_0 %s))" % bv(0, 8))

    def targets(self, w, t):
        if w == "self":
            return [("true", t)]
        if isinstance(w, tuple) and w[0] == "fixed":
            return [("true", w[1])]
        if w == "iter":
            return [("(= it%d_K %s)" % (t, bv(i + 1, ITW)), i) for i in range(self.n)]
        raise ValueError(w)

    def node_transitions(self, t, n):
        out = []
        k = n.k

        def go(lbl):
            return n.succ[lbl].id

        if k in ("DONE", "ERR", "dead"):
            return out
        if k in ("scan", "user", "block", "marking", "thunk", "mark"):
            out.append(("true", {}, go("ok"), k))
        elif k == "hook":
            hid = n.a["id"]
            if self.trace is None or hid in self.silent:
                out.append(("true", {}, go("ok"), "hook:" + hid))
            else:
                idx = [i for i, (tt, h) in enumerate(self.trace) if tt == t and h == hid]
                if idx:
                    g = "(or %s)" % " ".join("(= pos_K %s)" % bv(i, 8) for i in idx)
                    out.append((g, {"pos": "(bvadd pos_K %s)" % bv(1, 8)}, go("ok"), "hook:" + hid))
                # outside the recorded window (before its first and after its last event) hook
                # points are not observed
                out.append(("(or (= pos_K %s) (= pos_K %s))" % (bv(0, 8), bv(len(self.trace), 8)), {}, go("ok"), "hook:%s (outside the window)" % hid))
        elif k == "poll_begin":
            # saturating count of polls begun after the host's request completed
            out.append(("true", {"polls%d" % t: "(ite (and HOSTDONE (bvult polls%d_K %s)) (bvadd polls%d_K %s) polls%d_K)" % (t, bv(15, PLW), t, bv(1, PLW), t)}, go("ok"), k))
        elif k == "choice":
            for j, (lbl, s) in enumerate(sorted(n.succ.items())):
                out.append(("(= br_K %s)" % bv(j, BRW), {}, s.id, "choice:" + lbl))
        elif k == "iter_init":
            out.append(("true", {"it%d" % t: bv(0, ITW)}, go("ok"), k))
        elif k == "iter_next":
            out.append(("(bvult it%d_K %s)" % (t, bv(self.n, ITW)), {"it%d" % t: "(bvadd it%d_K %s)" % (t, bv(1, ITW))}, go("item"), "next:item"))
            out.append(("(not (bvult it%d_K %s))" % (t, bv(self.n, ITW)), {}, go("done"), "next:done"))
        elif k == "upgrade":
            for i in range(self.n):
                fin = "(or (= pc%d_K %s) (= pc%d_K %s))" % (i, bv(self.progs[i].done.id, PCW), i, bv(self.progs[i].err.id, PCW))
                out.append(("(and (= it%d_K %s) %s)" % (t, bv(i + 1, ITW), fin), {"up%d" % t: "false"}, go("dead"), "upgrade[%d]:dead" % i))
                out.append(("(and (= it%d_K %s) (not %s))" % (t, bv(i + 1, ITW), fin), {"up%d" % t: "true"}, go("alive"), "upgrade[%d]:alive" % i))
        elif k == "up_test":
            out.append(("up%d_K" % t, {}, go("alive"), "kept upgrade result: alive"))
            out.append(("(not up%d_K)" % t, {}, go("dead"), "kept upgrade result: dead"))
        elif k == "same":
            out.append(("(= it%d_K %s)" % (t, bv(t + 1, ITW)), {}, go("same"), "same"))
            out.append(("(not (= it%d_K %s))" % (t, bv(t + 1, ITW)), {}, go("diff"), "diff"))
        elif k == "paused_load":
            for g, i in self.targets(n.a["w"], t):
                out.append(("(and %s paused%d_K)" % (g, i), {}, go("true"), "paused[%d]==true" % i))
                out.append(("(and %s (not paused%d_K))" % (g, i), {}, go("false"), "paused[%d]==false" % i))
        elif k == "paused_store":
            for g, i in self.targets(n.a["w"], t):
                out.append((g, {"paused%d" % i: "true" if n.a["v"] else "false"}, go("ok"), "paused[%d]:=%s" % (i, n.a["v"])))
        elif k == "state_load":
            for g, i in self.targets(n.a["w"], t):
                for vi, nm in enumerate(STATE_NAMES):
                    out.append(("(and %s (= state%d_K %s))" % (g, i, bv(vi, 2)), {}, go(nm), "state[%d]==%s" % (i, nm)))
        elif k == "state_store":
            for g, i in self.targets(n.a["w"], t):
                out.append((g, {"state%d" % i: bv(n.a["v"], 2)}, go("ok"), "state[%d]:=%s" % (i, STATE_NAMES[n.a["v"]])))
        elif k == "ctx_load":
            for g, i in self.targets(n.a["w"], t):
                out.append(("(and %s ctx%d_K)" % (g, i), {}, go("some"), "ctx[%d]==Some" % i))
                out.append(("(and %s (not ctx%d_K))" % (g, i), {}, go("none"), "ctx[%d]==None" % i))
        elif k == "ctx_store":
            for g, i in self.targets(n.a["w"], t):
                out.append((g, {"ctx%d" % i: "true" if n.a["v"] else "false"}, go("ok"), "ctx[%d]:=%s" % (i, "Some" if n.a["v"] else "None")))
        elif k == "park":
            out.append(("tok%d_K" % t, {"tok%d" % t: "false"}, go("ok"), "park returns"))
        elif k == "unpark":
            for g, i in self.targets(n.a["w"], t):
                out.append((g, {"tok%d" % i: "true"}, go("ok"), "unpark(%d)" % i))
        elif k == "reglock":
            out.append(("(= reglock_K %s)" % bv(FREE, LKW), {"reglock": bv(t, LKW)}, go("ok"), "lock registry"))
        elif k == "regunlock":
            out.append(("true", {"reglock": bv(FREE, LKW)}, go("ok"), "unlock registry"))
        elif k == "heaplock":
            out.append(("(= heaplock_K %s)" % bv(FREE, LKW), {"heaplock": bv(t, LKW)}, go("ok"), "lock heap"))
        elif k == "heapunlock":
            out.append(("true", {"heaplock": bv(FREE, LKW)}, go("ok"), "unlock heap"))
        else:
            raise ExtractionError("no transition semantics for node kind %s" % k)
        return out

    def transitions(self, hostdone_expr="false"):
        L = self.lines
        allv = self.all_vars()
        self.table = []
        for t, p in enumerate(self.progs):
            for n in p.nodes.values():
                for tr in self.node_transitions(t, n):
                    self.table.append((t, n) + tr)
        self.table = self.fuse(self.table)
        self.n_trans = len(self.table)
        for k in range(self.K):
            alts = []
            for idx, (t, n, g, eff, nxt, lbl) in enumerate(self.table):
                conj = ["(= sched_%d %s)" % (k, bv(t, LKW)), "(= pc%d_%d %s)" % (t, k, bv(n.id, PCW)), g.replace("_K", "_%d" % k)]
                e2 = dict(eff)
                e2["pc%d" % t] = bv(nxt, PCW)
                for v in allv:
                    if v in e2:
                        val = e2[v].replace("HOSTDONE", hostdone_expr).replace("_K", "_%d" % k)
                        conj.append("(= %s_%d %s)" % (v, k + 1, val))
                    else:
                        conj.append("(= %s_%d %s_%d)" % (v, k + 1, v, k))
                alts.append("(and %s)" % " ".join(conj))
            alts.append("(and (= sched_%d %s) %s)" % (k, bv(FREE, LKW), " ".join("(= %s_%d %s_%d)" % (v, k + 1, v, k) for v in allv)))
            L.append("(assert (or %s))" % "\n  ".join(alts))

    LOCAL = ("iter_init", "iter_next", "same", "mark", "choice")

    def fuse(self, table):
        """Partial-order reduction: a step that only reads/writes the acting thread's own
        locals (registry iteration bookkeeping) commutes with every other thread's step, so it
        is executed together with the preceding step of the same thread."""
        by_src = {}
        for tr in table:
            by_src.setdefault((tr[0], tr[1].id), []).append(tr)
        entries = {(t, p.entry.id) for t, p in enumerate(self.progs)}
        byid = {}
        for p in self.progs:
            byid.update(p.nodes)

        def subst(expr, t, eff):
            v = "it%d" % t
            if v in eff:
                return expr.replace("%s_K" % v, eff[v])
            return expr

        def expand(tr, depth):
            t, n, g, eff, nxt, lbl = tr
            nn = byid[nxt]
            if nn.k not in self.LOCAL or depth > 3 * self.n + 6:
                return [tr]
            out = []
            for (t2, n2, g2, eff2, nxt2, lbl2) in by_src.get((t, nxt), []):
                g2s = subst(g2, t, eff)
                e = dict(eff)
                for var, val in eff2.items():
                    e[var] = subst(val, t, eff)
                out.extend(expand((t, n, "(and %s %s)" % (g, g2s), e, nxt2, lbl + " ; " + lbl2), depth + 1))
            return out

        res = []
        for tr in table:
            t, n = tr[0], tr[1]
            if n.k in self.LOCAL and (t, n.id) not in entries:
                continue
            res.extend(expand(tr, 0))
        return res

    def nodes_of_kind(self, t, kind):
        return [n.id for n in self.progs[t].nodes.values() if n.k == kind]

    def pc_in(self, t, k, ids):
        if not ids:
            return "false"
        return "(or %s)" % " ".join("(= pc%d_%d %s)" % (t, k, bv(i, PCW)) for i in ids)

    def blocked(self, t, k):
        p = self.progs[t]
        cs = []
        for n in p.nodes.values():
            if n.k == "park":
                cs.append("(and (= pc%d_%d %s) (not tok%d_%d))" % (t, k, bv(n.id, PCW), t, k))
            elif n.k == "reglock":
                cs.append("(and (= pc%d_%d %s) (not (= reglock_%d %s)))" % (t, k, bv(n.id, PCW), k, bv(FREE, LKW)))
            elif n.k == "heaplock":
                cs.append("(and (= pc%d_%d %s) (not (= heaplock_%d %s)))" % (t, k, bv(n.id, PCW), k, bv(FREE, LKW)))
        return "(or false %s)" % " ".join(cs)

    def finished(self, t, k):
        p = self.progs[t]
        return "(or (= pc%d_%d %s) (= pc%d_%d %s))" % (t, k, bv(p.done.id, PCW), t, k, bv(p.err.id, PCW))

    def text(self):
        return "\n".join(self.lines) + "\n"


def run_z3(smt_text, get_values, timeout_s=600, solver="z3"):
    """-> ('sat'|'unsat'|'unknown'|'error', {name: value}, seconds)"""
    q = smt_text + "(check-sat)\n"
    t0 = time.time()
    if solver == "z3":
        cmd = ["z3", "-in", "-T:%d" % timeout_s]
    else:
        cmd = ["cvc5", "--lang", "smt2", "--produce-models", "--tlimit=%d" % (timeout_s * 1000)]
    p = subprocess.run(cmd, input=q, capture_output=True, text=True)
    out = p.stdout
    dt = time.time() - t0
    if "(error" in out or p.returncode not in (0, 1):
        first = out.strip().split("\n")[0] if out.strip() else ""
        if first not in ("sat", "unsat"):
            return "error", {"raw": out[:500] + p.stderr[:300]}, dt
    res = out.strip().split("\n")[0] if out.strip() else "unknown"
    vals = {}
    if res == "sat" and get_values:
        q2 = smt_text + "(check-sat)\n(get-value (%s))\n" % " ".join(get_values)
        p2 = subprocess.run(cmd, input=q2, capture_output=True, text=True)
        for m in re.finditer(r"\((\w+) (#x[0-9a-f]+|#b[01]+|\(_ bv(\d+) \d+\)|true|false)\)", p2.stdout):
            v = m.group(2)
            if v.startswith("#x"):
                v = str(int(v[2:], 16))
            elif v.startswith("#b"):
                v = str(int(v[2:], 2))
            elif v.startswith("(_ bv"):
                v = m.group(3)
            vals[m.group(1)] = v
    return res, vals, dt


def decode_schedule(smt, vals):
    """-> list of dict(step, thread, node, src, action)"""
    tr = []
    byid = {}
    for p in smt.progs:
        byid.update(p.nodes)
    for k in range(smt.K):
        t = int(vals.get("sched_%d" % k, str(FREE)))
        if t >= smt.T:
            continue
        pc = int(vals["pc%d_%d" % (t, k)])
        nxt = int(vals["pc%d_%d" % (t, k + 1)])
        n = byid[pc]
        lbl = None
        it = vals.get("it%d_%d" % (t, k))
        cands = [(g, l) for (tt, nn, g, eff, nx, l) in smt.table if tt == t and nn.id == pc and nx == nxt]
        for g, l in cands:
            m = re.search(r"\(= it%d_K \(_ bv(\d+) \d+\)\)" % t, g)
            if m and it is not None and m.group(1) != it and "(not (= it" not in g:
                continue
            lbl = l
            break
        if lbl is None and cands:
            lbl = cands[0][1]
        tr.append({"step": k, "thread": t, "node": pc, "kind": n.k, "src": n.src, "action": lbl, "it": it})
    return tr
