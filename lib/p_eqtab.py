"""E3g (part of C11): equal? on a value NESTED in a container agrees with equal? on the value itself, per kind.

`impl PartialEq for SteelVal` answers same-kind comparisons of the scalar kinds directly (`(Rational(l), Rational(r))
=> l == r`, ...) and sends everything else to `RecursiveEqualityHandler`, whose `visit` loop compares the children of
containers with its own `match (left, right)`.  A kind that has a comparing arm at the top level but none in the
handler's match falls into the handler's catch-all `(_, _) => return false`: two equal values of that kind are
equal? on their own and unequal as soon as they sit inside a list.

Tables from the MIR of the two real functions (nested `switchInt`s on the discriminants of the two operands):
  top(k)      `PartialEq::eq` has an explicit (k, k) arm
  nested(k)   `RecursiveEqualityHandler::visit` has an explicit (k, k) arm
Query (z3, the kind is the symbolic variable): exists k with top(k) and not nested(k)."""
import re, subprocess, time
import mir


def _succ(t):
    if t["kind"] in ("goto", "drop", "call") and "to" in t:
        return [t["to"]]
    if t["kind"] == "switch":
        return [x for _, x in t["targets"]] + ([t["otherwise"]] if t["otherwise"] is not None else [])
    return []


def _disc_switches(f):
    out = {}
    for b in f.blocks.values():
        t = b.term
        if b.cleanup or t.get("kind") != "switch":
            continue
        on = re.sub(r"^(move|copy)\s+", "", t["on"].strip())
        # a block of the decision tree does nothing but read a discriminant (drop ladders inside the arms also switch
        # on discriminants, but they sit behind blocks with other statements)
        if any(re.match(r"_0 = ", s) or re.search(r" as (?!Some\)|Ok\)|Err\)|None\))[A-Z]\w*\)", s) for s in b.stmts):
            continue
        for s in b.stmts:
            m = re.match(r"%s = discriminant\((.*)\);$" % re.escape(on), s)
            if m:
                out[b.n] = (t, m.group(1).strip())
    return out


def _side(f, place):
    """which operand of the comparison a discriminant is taken of: 0 = left, 1 = right, None = something else"""
    m = re.fullmatch(r"\(_\d+\.([01]): (?:rvals::)?SteelVal\)", place)
    if m:
        return int(m.group(1))
    import p_kinds
    a = p_kinds.resolve_arg(f, place, None)
    if a and a[0] == "p":
        params = [x for x in f.argtypes]
        return params.index(a[1]) if a[1] in params and params.index(a[1]) < 2 else None
    return None


def pair_table(f, nkinds):
    """For every pair of kinds the decision tree of the function's `match (left, right)` is walked with the two
    discriminants known; the block where the walk leaves the tree is the arm.  The arm most off-diagonal pairs end in
    is the catch-all.  -> ({k: 1 for kinds whose (k, k) pair has an arm of its own}, number of kinds with a first-level target)"""
    sw = {}
    for b, (t, place) in _disc_switches(f).items():
        sd = _side(f, place)
        if sd is not None:
            sw[b] = (t, sd)
    if not sw:
        raise ValueError("no switch on the operands' kinds in %s" % f.name[-60:])
    # the match itself comes first in the function body; drop ladders (which also switch on the operands' kinds)
    # come after the arms
    cands = [b for b in sw if sw[b][1] == 0 and len(sw[b][0]["targets"]) >= 5]
    if not cands:
        raise ValueError("no first-level switch on the left operand's kind in %s" % f.name[-60:])
    start = min(cands)

    def dest(k0, k1):
        x, hops = start, 0
        while x in sw and hops < 40:
            t, sd = sw[x]
            k = k0 if sd == 0 else k1
            nxt = None
            for v, tgt in t["targets"]:
                if v == k:
                    nxt = tgt
            if nxt is None:
                nxt = t["otherwise"]
            x = nxt
            hops += 1
            # straight-line blocks between two switches
            while x is not None and x not in sw and f.blocks[x].term["kind"] == "goto" and not f.blocks[x].stmts:
                x = f.blocks[x].term["to"]
        return x

    from collections import Counter
    off = Counter(dest(a, b) for a in range(nkinds) for b in range(nkinds) if a != b)
    catchall = off.most_common(1)[0][0]
    out = {k: 1 for k in range(nkinds) if dest(k, k) != catchall}
    return out, len(sw[start][0]["targets"])


def analyse(mir_text, kinds):
    funcs = mir.parse(mir_text, lambda n: n.endswith("::eq") or n.endswith("::visit"))
    top = nested = None
    for key, f in funcs.items():
        if f.name.endswith("::eq") and "<impl at" in f.name and "cycles.rs" in f.name and re.fullmatch(r"_1: &(?:rvals::)?SteelVal, _2: &(?:rvals::)?SteelVal", f.args_s.strip()):
            top = f
        if f.name.endswith("::visit") and "RecursiveEqualityHandler" in f.args_s:
            nested = f
    if top is None or nested is None:
        raise ValueError("PartialEq::eq for SteelVal or RecursiveEqualityHandler::visit not found in the MIR dump")
    n = len(kinds)
    ttab, tn = pair_table(top, n)
    ntab, nn = pair_table(nested, n)

    def tbl(t):
        e = "(_ bv0 8)"
        for k in sorted(t, reverse=True):
            e = "(ite (= k (_ bv%d 8)) (_ bv1 8) %s)" % (k, e)
        return e
    q = "(set-logic QF_BV)\n(declare-const k (_ BitVec 8))\n(assert (bvult k (_ bv%d 8)))\n" % n
    q += "(assert (= %s (_ bv1 8)))\n(assert (= %s (_ bv0 8)))\n(check-sat)\n" % (tbl(ttab), tbl(ntab))
    t0 = time.time()
    p = subprocess.run(["z3", "-in", "-T:30"], input=q, capture_output=True, text=True)
    res = p.stdout.strip().split("\n")[0] if p.stdout.strip() else "error"
    if "(error" in p.stdout or res not in ("sat", "unsat"):
        res = "error"
    k = None
    if res == "sat":
        p = subprocess.run(["z3", "-in", "-T:30"], input=q + "(get-value (k))\n", capture_output=True, text=True)
        m = re.search(r"#x([0-9a-f]{2})", p.stdout)
        k = int(m.group(1), 16) if m else None
    return {"res": res, "kind": kinds[k] if k is not None else None,
            "top": [kinds[i] for i in sorted(ttab)], "nested": [kinds[i] for i in sorted(ntab)],
            "missing": [kinds[i] for i in sorted(ttab) if i not in ntab], "dt": time.time() - t0}


def handled_pairs(f, nkinds):
    """all (k0, k1) whose walk through the decision tree ends in an arm other than the catch-all"""
    sw = {}
    for b, (t, place) in _disc_switches(f).items():
        sd = _side(f, place)
        if sd is not None:
            sw[b] = (t, sd)
    cands = [b for b in sw if sw[b][1] == 0 and len(sw[b][0]["targets"]) >= 5]
    if not cands:
        raise ValueError("no first-level switch on the left operand's kind in %s" % f.name[-60:])
    start = min(cands)

    def dest(k0, k1):
        x, hops = start, 0
        while x in sw and hops < 40:
            t, sd = sw[x]
            k = k0 if sd == 0 else k1
            x = dict(t["targets"]).get(k, t["otherwise"])
            hops += 1
        return x
    from collections import Counter
    allp = {(a, b): dest(a, b) for a in range(nkinds) for b in range(nkinds)}
    catchall = Counter(allp.values()).most_common(1)[0][0]
    return {p for p, d in allp.items() if d != catchall}


def analyse_cmp(mir_text, kinds, real=("IntV", "NumV", "Rational", "BigNum", "BigRational")):
    """`PartialOrd for SteelVal`: every ordered pair of real-number kinds has an arm of its own in `partial_cmp`
    (the catch-all answers None = not comparable).  z3: exists a pair of real kinds that falls into the catch-all?"""
    funcs = mir.parse(mir_text, lambda n: n.endswith("::partial_cmp"))
    f = None
    for key, g in funcs.items():
        if "<impl at" in g.name and re.fullmatch(r"_1: &(?:rvals::)?SteelVal, _2: &(?:rvals::)?SteelVal", g.args_s.strip()):
            f = g
    if f is None:
        raise ValueError("PartialOrd::partial_cmp for SteelVal not found in the MIR dump")
    n = len(kinds)
    hp = handled_pairs(f, n)
    ridx = [kinds.index(k) for k in real]
    tbl = "(_ bv0 8)"
    for (a, b) in sorted(hp):
        tbl = "(ite (and (= a (_ bv%d 8)) (= b (_ bv%d 8))) (_ bv1 8) %s)" % (a, b, tbl)
    dom = lambda v: "(or %s)" % " ".join("(= %s (_ bv%d 8))" % (v, k) for k in ridx)
    q = "(set-logic QF_BV)\n(declare-const a (_ BitVec 8))\n(declare-const b (_ BitVec 8))\n(assert %s)\n(assert %s)\n(assert (= %s (_ bv0 8)))\n(check-sat)\n" % (dom("a"), dom("b"), tbl)
    t0 = time.time()
    p = subprocess.run(["z3", "-in", "-T:30"], input=q, capture_output=True, text=True)
    res = p.stdout.strip().split("\n")[0] if p.stdout.strip() else "error"
    if "(error" in p.stdout or res not in ("sat", "unsat"):
        res = "error"
    pair = None
    if res == "sat":
        p = subprocess.run(["z3", "-in", "-T:30"], input=q + "(get-value (a b))\n", capture_output=True, text=True)
        vs = re.findall(r"#x([0-9a-f]{2})", p.stdout)
        if len(vs) >= 2:
            pair = (kinds[int(vs[0], 16)], kinds[int(vs[1], 16)])
    return {"res": res, "pair": pair, "handled": len(hp), "real_pairs_handled": sum(1 for a in ridx for b in ridx if (a, b) in hp),
            "real": list(real), "dt": time.time() - t0}


# E3n: values of two DIFFERENT built-in kinds that the equality handler compares structurally must not be told apart by
# the hash: `impl Hash for SteelVal` mixes the kind (discriminant) in.
HASH_PAIR_EXPR = {("VectorV", "MutableVector"): ("(immutable-vector 1 2)", "(vector 1 2)"), ("MutableVector", "VectorV"): ("(vector 1 2)", "(immutable-vector 1 2)")}


def analyse_hash(mir_text, kinds, exclude=("Custom",)):
    """tables: cross(k1, k2) = the equality handler has an arm of its own for the ordered pair of different kinds;
    tag(k) = what `Hash::hash` mixes in for the kind before the contents: the discriminant (k itself) unless the arm of k
    is reached without hashing the discriminant.  Query: exists k1 != k2 (not user-defined custom types, whose equality
    is the user's) with cross(k1, k2) and tag(k1) != tag(k2)."""
    funcs = mir.parse(mir_text, lambda n: n.endswith("::visit") or n.endswith("::hash"))
    visit = hashf = None
    for f in funcs.values():
        if f.name.endswith("::visit") and "RecursiveEqualityHandler" in f.args_s:
            visit = f
        if f.name.endswith("::hash") and "<impl at" in f.name and "rvals.rs" in f.name and re.match(r"_1: &(?:rvals::)?SteelVal, _2: &mut H", f.args_s.strip()):
            hashf = f
    if visit is None or hashf is None:
        raise ValueError("RecursiveEqualityHandler::visit or Hash::hash for SteelVal not found in the MIR dump")
    n = len(kinds)
    cross = sorted((a, b) for a, b in handled_pairs(visit, n) if a != b and kinds[a] not in exclude and kinds[b] not in exclude)
    # the tag: does every path from the entry to the switch on the kind pass `<Discriminant<SteelVal> as Hash>::hash`?
    sw = None
    for bb, (t, place) in _disc_switches(hashf).items():
        if len(t["targets"]) >= 10:
            sw = (bb, t)
    if sw is None:
        raise ValueError("no switch on the value's kind in Hash::hash")
    dsw = {bb: t for bb, (t, place) in _disc_switches(hashf).items()}

    def tag_of(k):
        """walk from the entry with the kind known: what is hashed BEFORE the contents"""
        x, hops = 0, 0
        while x is not None and hops < 60:
            hops += 1
            b = hashf.blocks[x]
            t = b.term
            if t.get("kind") == "call":
                if re.search(r"Discriminant<.*> as (?:std::hash::|core::hash::)?Hash>::hash", t["callee"]):
                    return k
                mm = re.search(r"<(u8|u16|u32|u64|usize|i32|isize) as (?:std::hash::|core::hash::)?Hash>::hash", t["callee"])
                if mm:
                    o = mir.origin(hashf, t["args"][0])
                    c = re.search(r"const (\d+)_", o)
                    return 200 + (int(c.group(1)) % 50 if c else 49)
                if re.search(r"Hash>::hash", t["callee"]):
                    return 255  # contents hashed with no tag in front
                x = t.get("to")
            elif t.get("kind") == "switch":
                if x not in dsw:
                    raise ValueError("Hash::hash branches on something other than the kind before hashing a tag")
                nxt = None
                for v, tgt in t["targets"]:
                    if v == k:
                        nxt = tgt
                x = nxt if nxt is not None else t["otherwise"]
            elif t.get("kind") in ("goto", "drop"):
                x = t.get("to")
            else:
                return 255
        return 255
    tags = {k: tag_of(k) for k in range(n)}
    mixes_discriminant = all(tags[k] == k for k in range(n))
    q = "(set-logic QF_BV)\n(declare-const a (_ BitVec 8))\n(declare-const b (_ BitVec 8))\n"
    tt = lambda v: "".join("(ite (= %s (_ bv%d 8)) (_ bv%d 8) " % (v, k, tags[k]) for k in range(n)) + "(_ bv254 8)" + ")" * n
    cr = "(or false %s)" % " ".join("(and (= a (_ bv%d 8)) (= b (_ bv%d 8)))" % (x, y) for x, y in cross)
    q += "(assert %s)\n(assert (distinct %s %s))\n(check-sat)\n" % (cr, tt("a"), tt("b"))
    t0 = time.time()
    p = subprocess.run(["z3", "-in", "-T:30"], input=q, capture_output=True, text=True)
    res = p.stdout.strip().split("\n")[0] if p.stdout.strip() else "error"
    if "(error" in p.stdout or res not in ("sat", "unsat"):
        res = "error"
    return {"res": res, "cross": [(kinds[a], kinds[b]) for a, b in cross], "mixes_discriminant": mixes_discriminant, "dt": time.time() - t0}


# E3n, second table: a kind that the equality handler compares BY VALUE must not be hashed BY IDENTITY.
IDENT = re.compile(r"(::|^)(as_ptr|as_ptr_usize)(::<.*>)?$")
HASH_VALUE_EXPR = {"ByteVector": ("(bytes 1 2)", "(bytes 1 2)"), "MutableVector": ("(vector (vector 1) 2)", "(vector (vector 1) 2)"), "VectorV": ("(immutable-vector (vector 1) 2)", "(immutable-vector (vector 1) 2)"),
                   "StringV": ("\"ab\"", "(string-append \"a\" \"b\")"), "ListV": ("(list (vector 1) 2)", "(list (vector 1) 2)"), "Pair": ("(cons (vector 1) 2)", "(cons (vector 1) 2)"),
                   "HashMapV": ("(hash 'a (vector 1))", "(hash 'a (vector 1))"), "HashSetV": ("(hashset 1 2)", "(hashset 2 1)"), "Boxed": ("(box-strong 1)", "(box-strong 1)"),
                   "BigNum": ("(expt 10 30)", "(expt 10 30)"), "Rational": ("1/2", "(/ 2 4)"), "Complex": ("(make-rectangular 1 2)", "(make-rectangular 1 2)"),
                   "HeapAllocated": ("(box 1)", "(box 1)"), "CustomStruct": None, "SyntaxObject": None}


def analyse_hash_identity(mir_text, kinds, exclude=("Custom",)):
    """identity_hash(k): the arm of `Hash::hash` for kind k (followed with the kind known) hashes a pointer (`as_ptr`,
    `as_ptr_usize`); value_eq(k): the (k, k) arm of the equality handler applies something other than a pointer
    comparison to the two payloads (a content comparison, a length comparison, or it queues the children).
    Query: exists k with identity_hash(k) and value_eq(k)."""
    import p_eqsides
    funcs = mir.parse(mir_text, lambda n: n.endswith("::visit") or n.endswith("::hash"))
    hashf = None
    for f in funcs.values():
        if f.name.endswith("::hash") and "<impl at" in f.name and "rvals.rs" in f.name and re.match(r"_1: &(?:rvals::)?SteelVal, _2: &mut H", f.args_s.strip()):
            hashf = f
    if hashf is None:
        raise ValueError("Hash::hash for SteelVal not found in the MIR dump")
    n = len(kinds)
    dsw = {bb: t for bb, (t, place) in _disc_switches(hashf).items()}
    big = [bb for bb, t in dsw.items() if len(t["targets"]) >= 10]
    if not big:
        raise ValueError("no switch on the value's kind in Hash::hash")
    sw = dsw[max(big)]
    tg = dict(sw["targets"])
    ident = set()
    for k in range(n):
        st = tg.get(k, sw["otherwise"])
        seen, stack = set(), [st]
        while stack:
            x = stack.pop()
            if x is None or x in seen or x not in hashf.blocks or hashf.blocks[x].cleanup:
                continue
            seen.add(x)
            stack.extend(_succ(hashf.blocks[x].term))
        for x in seen:
            t = hashf.blocks[x].term
            if t.get("kind") == "call" and IDENT.search(re.sub(r"::<[^>]*>", "", t["callee"].strip())):
                ident.add(k)
    # value_eq from the sided sites of the handler
    f, sites, iters, lens = p_eqsides.tables(mir_text)
    per = {}
    for s_ in sites:
        for kname in s_["kinds"]:
            per.setdefault(kname, []).append(s_["what"])
    value_eq = set()
    for kname, whats in per.items():
        if any(not re.search(r"ptr_eq", w) for w in whats):
            value_eq.add(kinds.index(kname)) if kname in kinds else None
    for kname in iters:
        if kname in kinds:
            value_eq.add(kinds.index(kname))
    ident = {k for k in ident if kinds[k] not in exclude}
    t0 = time.time()
    a = " ".join("(= k (_ bv%d 8))" % k for k in sorted(ident))
    b = " ".join("(= k (_ bv%d 8))" % k for k in sorted(value_eq))
    q = "(set-logic QF_BV)\n(declare-const k (_ BitVec 8))\n(assert (or false %s))\n(assert (or false %s))\n(check-sat)\n" % (a, b)
    p = subprocess.run(["z3", "-in", "-T:30"], input=q, capture_output=True, text=True)
    res = p.stdout.strip().split("\n")[0] if p.stdout.strip() else "error"
    if "(error" in p.stdout or res not in ("sat", "unsat"):
        res = "error"
    return {"res": res, "identity_hashed": [kinds[k] for k in sorted(ident)], "compared_by_value": [kinds[k] for k in sorted(value_eq)],
            "bad": [kinds[k] for k in sorted(ident & value_eq)], "dt": time.time() - t0}
