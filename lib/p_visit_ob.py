"""Obligation wrapper for E3d (lib/p_visit.py): MIR dump -> kind tables -> z3 -> native replay."""
import os, re, json, shutil, subprocess, time
import ws, p_visit


def obligations(run, visitors, oid_prefix="trace"):
    """visitors: subset of {"MarkAndSweepContext", "MarkAndSweepContextRefQueue", "GlobalSlotRecycler"}"""
    t0 = time.time()
    try:
        wsdir = ws.prepare("visitmir", [])
        root = os.path.dirname(wsdir)
        out = os.path.join(root, "steel_core.mir")
        env = dict(os.environ, CARGO_NET_OFFLINE="true")
        env.pop("RUSTFLAGS", None)
        ws.mir_dump(wsdir, root, out, env)
        res, kinds = p_visit.analyse(open(out).read(), open(os.path.join(wsdir, "crates", "steel-core", "src", "rvals.rs")).read())
    except Exception as ex:
        run.ob("%s:kind-tables" % oid_prefix, "inconclusive", reason="extraction failed: %s" % str(ex)[-300:], engine="mir-smt")
        return
    dump_s = time.time() - t0
    seen = set()
    for r in res:
        if r["visitor"] not in visitors:
            continue
        seen.add(r["visitor"])
        oid = "%s:%s" % (oid_prefix, r["visitor"])
        common = dict(engine="mir-smt/z3", wall_s=round(dump_s + (r.get("dt") or 0), 1), solver_s=round(r.get("dt") or 0, 3), solver_checks=len(kinds))
        if r["res"] == "error":
            run.ob(oid, "inconclusive", reason=r.get("why", "solver error"), **common)
            continue
        run.samples.append({"engine": "mir-smt", "visitor": r["visitor"], "compared with": r.get("siblings"),
                            "query": "exists kind k (of %d): this visitor never looks into values of kind k (dropped by push_back / no pointer form / visit method without a tracing call) although a sibling visitor traces their children, or its visit method has fewer tracing call sites than that of every sibling" % len(kinds),
                            "kinds dropped as leaves": r.get("leaf_kinds"), "tracing call sites per kind": r.get("tracing_kinds"), "no pointer form": r.get("no_pointer_form")})
        if r["res"] == "unsat":
            if len(r.get("leaf_kinds") or []) < 5:
                run.ob(oid, "inconclusive", reason="vacuous: only %d leaf kinds recognised" % len(r.get("leaf_kinds") or []), **common)
            else:
                run.ob(oid, "pass", nonvacuous=True, note="%d leaf kinds, %d kinds traced: for every kind at least as many child sources as some sibling visitor, none dropped that a sibling traces" % (len(r["leaf_kinds"]), len(r.get("tracing_kinds") or {})), **common)
            continue
        # sat: replay
        kind = r["kind_name"]
        try:
            shutil.copy(os.path.join(ws.VERIF, "harness", "arity_replay.rs"), os.path.join(wsdir, "crates", "steel-core", "tests", "verif_arity_replay.rs"))
            p = subprocess.run(["cargo", "test", "--offline", "-p", "steel-core", "--no-default-features", "--features", ws.FEATURES,
                                "--test", "verif_arity_replay", "--target-dir", os.path.join(root, "tn"), "--", ("recycler_replay" if r["visitor"] == "GlobalSlotRecycler" else "trace_replay"), "--exact", "--nocapture"],
                               cwd=wsdir, env=dict(env, VERIF_TRACE_KIND=kind), capture_output=True, text=True, timeout=2400)
            m = re.search(r"OBSERVED: (.*)", p.stdout + p.stderr)
        except Exception as ex:
            run.ob(oid, "inconclusive", reason="replay failed: %s" % str(ex)[-300:], **common)
            continue
        what = "%s traces %s child source(s) of values of kind %s (method %s) where its siblings %s trace %s" % (r["visitor"], r.get("sources_here"), kind, r.get("method"), r.get("siblings"), r.get("sources_siblings"))
        if not m:
            tail = " ".join((p.stdout + p.stderr).split("\n")[-8:])[-300:]
            run.ob(oid, "inconclusive", reason="solver: %s; not reproduced by the replay program (%s)" % (what, tail), **common)
            continue
        d = os.path.join(ws.VERIF, "replays", run.pid)
        os.makedirs(d, exist_ok=True)
        path = os.path.join(d, "trace_%s_%s.json" % (r["visitor"], kind))
        json.dump({"property": run.pid, "kind": "trace", "visitor": r["visitor"], "value_kind": kind, "observed": m.group(1),
                   "how": "./check %s --replay <this file>" % run.pid}, open(path, "w"), indent=1)
        key = "trace:%s:%s" % (r["visitor"], kind)
        if run.is_known(key):
            run.known_hit(key, run.known[(run.pid, key)] + " -- " + m.group(1)[:200])
            run.ob(oid, "known", nonvacuous=True, **common)
        else:
            run.violation(key, "%s; natively: %s" % (what, m.group(1)[:300]), path)
            run.ob(oid, "fail", note=m.group(1)[:200], **common)
    bypass_obligations(run, visitors, open(out).read(), wsdir, root, env, oid_prefix)
    if "MarkAndSweepContext" in visitors:
        order_obligation(run, open(out).read(), wsdir, root, env, dump_s)
        alloc_roots_obligation(run, open(out).read(), wsdir, root, env)
        recount_obligation(run, open(out).read(), wsdir, root, env)
    if "GlobalSlotRecycler" in visitors:
        opscan_obligation(run, open(out).read(), wsdir, root, env)
    for v in visitors:
        if v not in seen:
            run.ob("%s:%s" % (oid_prefix, v), "inconclusive", reason="visitor not found in the MIR dump", engine="mir-smt")
    run.functions.append("values::closed::{%s}::{push_back, visit_*}, rvals::cycles::BreadthFirstSearchSteelVal{Visitor,ReferenceVisitor2}::visit, rvals::SteelValPointer::from_value (kind tables, MIR)" % ", ".join(sorted(seen)))


METHOD_KIND = {"visit_closure": "Closure", "visit_boxed_value": "Boxed", "visit_immutable_vector": "VectorV", "visit_list": "ListV", "visit_pair": "Pair",
               "visit_hash_map": "HashMapV", "visit_mutable_vector": "MutableVector", "visit_heap_allocated": "HeapAllocated"}


def bypass_obligations(run, visitors, mir_text, wsdir, root, env, oid_prefix):
    """E3d, second table: no visitor can leave a visit method without passing its tracing calls where no sibling can"""
    t0 = time.time()
    try:
        res = p_visit.analyse_bypass(mir_text)
    except Exception as ex:
        run.ob("%s-bypass:tables" % oid_prefix, "inconclusive", reason="extraction failed: %s" % str(ex)[-300:], engine="mir-smt")
        return
    for r in res:
        if r["visitor"] not in visitors:
            continue
        oid = "%s-bypass:%s" % (oid_prefix, r["visitor"])
        common = dict(engine="mir-smt/z3", wall_s=round(time.time() - t0, 1), solver_s=round(r["dt"], 3), solver_checks=r["methods"] + 1)
        run.samples.append({"engine": "mir-smt", "visitor": r["visitor"], "query": "per visit method: exists an acyclic path entry -> return that passes no tracing call and no loop header leading to one (rank-encoded reachability, z3); "
                            "then: exists a method this visitor can leave that way although no sibling can", "methods": r["methods"], "methods that can be left without tracing": r["can_bypass"]})
        if r["res"] == "error" or r["methods"] < 12:
            run.ob(oid, "inconclusive", reason="solver error or only %d visit methods with tracing calls" % r["methods"], **common)
            continue
        if r["res"] == "unsat":
            run.ob(oid, "pass", nonvacuous=True, note="%d visit methods; early exits only where a sibling has one too (%s)" % (r["methods"], ", ".join(r["can_bypass"]) or "none"), **common)
            continue
        what = "%s::%s can return without passing any of its tracing calls; no sibling visitor's %s can" % (r["visitor"], r["method"], r["method"])
        test = "recycler2_replay" if r["visitor"] == "GlobalSlotRecycler" else "trace_replay"
        kind = METHOD_KIND.get(r["method"], "Closure")
        try:
            shutil.copy(os.path.join(ws.VERIF, "harness", "arity_replay.rs"), os.path.join(wsdir, "crates", "steel-core", "tests", "verif_arity_replay.rs"))
            m = None
            for tname in ([test, "recycler_replay"] if r["visitor"] == "GlobalSlotRecycler" else [test]):
                p = subprocess.run(["cargo", "test", "--offline", "-p", "steel-core", "--no-default-features", "--features", ws.FEATURES,
                                    "--test", "verif_arity_replay", "--target-dir", os.path.join(root, "tn"), "--", tname, "--exact", "--nocapture"],
                                   cwd=wsdir, env=dict(env, VERIF_TRACE_KIND=kind), capture_output=True, text=True, timeout=2400)
                m = re.search(r"OBSERVED: (.*)", p.stdout + p.stderr)
                if m:
                    test = tname
                    break
        except Exception as ex:
            run.ob(oid, "inconclusive", reason="replay failed: %s" % str(ex)[-300:], **common)
            continue
        if not m:
            run.ob(oid, "inconclusive", reason="solver: %s; not reproduced by the replay program" % what, **common)
            continue
        d = os.path.join(ws.VERIF, "replays", run.pid)
        os.makedirs(d, exist_ok=True)
        path = os.path.join(d, "bypass_%s_%s.json" % (r["visitor"], r["method"]))
        json.dump({"property": run.pid, "kind": "bypass", "visitor": r["visitor"], "method": r["method"], "test": test, "value_kind": kind, "observed": m.group(1),
                   "how": "./check %s --replay <this file>" % run.pid}, open(path, "w"), indent=1)
        key = "bypass:%s:%s" % (r["visitor"], r["method"])
        if run.is_known(key):
            run.known_hit(key, run.known[(run.pid, key)] + " -- " + m.group(1)[:200])
            run.ob(oid, "known", nonvacuous=True, **common)
        else:
            run.violation(key, "%s; natively: %s" % (what, m.group(1)[:300]), path)
            run.ob(oid, "fail", note=m.group(1)[:200], **common)


def replay(pid, payload, path):
    wsdir = ws.prepare("tracereplay", [])
    root = os.path.dirname(wsdir)
    if payload.get("kind") == "bypass":
        shutil.copy(os.path.join(ws.VERIF, "harness", "arity_replay.rs"), os.path.join(wsdir, "crates", "steel-core", "tests", "verif_arity_replay.rs"))
        p = subprocess.run(["cargo", "test", "--offline", "-p", "steel-core", "--no-default-features", "--features", ws.FEATURES,
                            "--test", "verif_arity_replay", "--target-dir", os.path.join(root, "tn"), "--", payload["test"], "--exact", "--nocapture"],
                           cwd=wsdir, env=dict(os.environ, VERIF_TRACE_KIND=payload.get("value_kind", "Closure")), capture_output=True, text=True)
        m = re.search(r"OBSERVED: (.*)", p.stdout + p.stderr)
        print("observed:", m.group(1) if m else "not reproduced")
        if m:
            print("VIOLATION property=%s replay=%s" % (pid, path))
            return 1
        return 0
    if payload.get("kind") in ("order", "opscan", "allocroots", "recount"):
        shutil.copy(os.path.join(ws.VERIF, "harness", "arity_replay.rs"), os.path.join(wsdir, "crates", "steel-core", "tests", "verif_arity_replay.rs"))
        p = subprocess.run(["cargo", "test", "--offline", "-p", "steel-core", "--no-default-features", "--features", ws.FEATURES,
                            "--test", "verif_arity_replay", "--target-dir", os.path.join(root, "tn"), "--", {"opscan": "opscan_replay", "allocroots": "alloc_roots_replay", "recount": "recount_replay"}.get(payload.get("kind"), "order_replay"), "--exact", "--nocapture"],
                           cwd=wsdir, env=dict(os.environ), capture_output=True, text=True)
        m = re.search(r"OBSERVED: (.*)", p.stdout + p.stderr)
        print("observed:", m.group(1) if m else "not reproduced")
        if m:
            print("VIOLATION property=%s replay=%s" % (pid, path))
            return 1
        return 0
    shutil.copy(os.path.join(ws.VERIF, "harness", "arity_replay.rs"), os.path.join(wsdir, "crates", "steel-core", "tests", "verif_arity_replay.rs"))
    p = subprocess.run(["cargo", "test", "--offline", "-p", "steel-core", "--no-default-features", "--features", ws.FEATURES,
                        "--test", "verif_arity_replay", "--target-dir", os.path.join(root, "tn"), "--", ("recycler_replay" if payload.get("visitor") == "GlobalSlotRecycler" else "trace_replay"), "--exact", "--nocapture"],
                       cwd=wsdir, env=dict(os.environ, VERIF_TRACE_KIND=payload["value_kind"]), capture_output=True, text=True)
    m = re.search(r"OBSERVED: (.*)", p.stdout + p.stderr)
    print("observed:", m.group(1) if m else "not reproduced")
    if m:
        print("VIOLATION property=%s replay=%s" % (pid, path))
        return 1
    return 0


def order_obligation(run, mir_text, wsdir, root, env, dump_s):
    """E3e: every call of Heap::mark_and_sweep_new is dominated by the reset of both slot lists"""
    import p_order
    oid = "order:mark-bits-reset-before-marking"
    t0 = time.time()
    try:
        res = p_order.analyse(mir_text)
    except Exception as ex:
        run.ob(oid, "inconclusive", reason="extraction failed: %s" % str(ex)[-300:], engine="mir-smt")
        return
    common = dict(engine="mir-smt/z3", wall_s=round(time.time() - t0, 1), solver_s=round(sum(r["dt"] for r in res), 3), solver_checks=len(res))
    run.samples.append({"engine": "mir-smt", "query": "exists a control-flow path from the entry of F to its call of Heap::mark_and_sweep_new that does not pass a call of mark_all_unreachable on the given slot list (least-fixpoint reachability with a ranking, z3)",
                        "marking call sites": sorted({r["function"].split("::")[-1] for r in res}), "queries": len(res)})
    run.functions.append("values::closed::Heap::{value_collection, vector_collection, allocate_vector_iter, ...}: order of mark_all_unreachable and mark_and_sweep_new (MIR control flow)")
    if len(res) < 4 or any(r["witness"] != "sat" for r in res):
        run.ob(oid, "inconclusive", reason="vacuous: %d queries, marking call not reachable in the extracted control flow" % len(res), **common)
        return
    if any(r["res"] == "error" for r in res):
        run.ob(oid, "inconclusive", reason="solver error", **common)
        return
    bad = [r for r in res if r["res"] == "sat"]
    if not bad:
        run.ob(oid, "pass", nonvacuous=True, note="%d marking call sites: each is dominated by the reset of both slot lists" % (len(res) // 2), **common)
        return
    what = "; ".join("%s starts a marking pass on a path that has not reset the mark bits of the %s" % (r["function"].split("::")[-1], r["reset"]) for r in bad)
    try:
        shutil.copy(os.path.join(ws.VERIF, "harness", "arity_replay.rs"), os.path.join(wsdir, "crates", "steel-core", "tests", "verif_arity_replay.rs"))
        p = subprocess.run(["cargo", "test", "--offline", "-p", "steel-core", "--no-default-features", "--features", ws.FEATURES,
                            "--test", "verif_arity_replay", "--target-dir", os.path.join(root, "tn"), "--", "order_replay", "--exact", "--nocapture"],
                           cwd=wsdir, env=env, capture_output=True, text=True, timeout=2400)
        m = re.search(r"OBSERVED: (.*)", p.stdout + p.stderr)
    except Exception as ex:
        run.ob(oid, "inconclusive", reason="replay failed: %s" % str(ex)[-300:], **common)
        return
    if not m:
        run.ob(oid, "inconclusive", reason="solver: %s; not reproduced by the replay program" % what, **common)
        return
    d = os.path.join(ws.VERIF, "replays", run.pid)
    os.makedirs(d, exist_ok=True)
    path = os.path.join(d, "order_mark_bits.json")
    json.dump({"property": run.pid, "kind": "order", "what": what, "observed": m.group(1), "how": "./check %s --replay <this file>" % run.pid}, open(path, "w"), indent=1)
    key = "order:marking-without-reset"
    if run.is_known(key):
        run.known_hit(key, run.known[(run.pid, key)] + " -- " + m.group(1)[:200])
        run.ob(oid, "known", nonvacuous=True, **common)
    else:
        run.violation(key, "%s; natively: %s" % (what, m.group(1)[:300]), path)
        run.ob(oid, "fail", note=m.group(1)[:200], **common)


def recount_obligation(run, mir_text, wsdir, root, env):
    """E3u: counting free slots does not touch their contents (p_order.analyse_recount)"""
    import p_order
    oid = "recount:counting-does-not-write-slots"
    t0 = time.time()
    try:
        r = p_order.analyse_recount(mir_text)
    except Exception as ex:
        run.ob(oid, "inconclusive", reason="extraction failed: %s" % str(ex)[-300:], engine="mir-smt")
        return
    common = dict(engine="mir-smt/z3", wall_s=round(time.time() - t0, 1), solver_s=round(r["dt"], 3), solver_checks=1)
    run.samples.append({"engine": "mir-smt", "query": "exists an impl of FreeList::recount that takes write access to a slot or replaces / takes its value", "impls": r["impls"]})
    run.functions.append("values::closed::FreeList::recount: callees (no write access to slots) (MIR)")
    if r["res"] == "error" or not r["impls"] or any(not i["reads_mark"] for i in r["impls"]):
        run.ob(oid, "inconclusive", reason="solver error or recount not recognised", **common)
        return
    if r["res"] == "unsat":
        run.ob(oid, "pass", nonvacuous=True, note="recount reads the mark of every slot and writes none", **common)
        return
    what = "FreeList::recount takes write access to slots / replaces their values: after the recycler's partial marking it clears storage that is reachable but was not marked by that pass"
    try:
        shutil.copy(os.path.join(ws.VERIF, "harness", "arity_replay.rs"), os.path.join(wsdir, "crates", "steel-core", "tests", "verif_arity_replay.rs"))
        p = subprocess.run(["cargo", "test", "--offline", "-p", "steel-core", "--no-default-features", "--features", ws.FEATURES,
                            "--test", "verif_arity_replay", "--target-dir", os.path.join(root, "tn"), "--", "recount_replay", "--exact", "--nocapture"],
                           cwd=wsdir, env=env, capture_output=True, text=True, timeout=2400)
        m = re.search(r"OBSERVED: (.*)", p.stdout + p.stderr)
    except Exception as ex:
        run.ob(oid, "inconclusive", reason="replay failed: %s" % str(ex)[-300:], **common)
        return
    if not m:
        run.ob(oid, "inconclusive", reason="solver: %s; not reproduced by the replay program" % what, **common)
        return
    d = os.path.join(ws.VERIF, "replays", run.pid)
    os.makedirs(d, exist_ok=True)
    path = os.path.join(d, "recount.json")
    json.dump({"property": run.pid, "kind": "recount", "what": what, "observed": m.group(1), "how": "./check %s --replay <this file>" % run.pid}, open(path, "w"), indent=1)
    key = "recount:writes-slots"
    if run.is_known(key):
        run.known_hit(key, run.known[(run.pid, key)] + " -- " + m.group(1)[:200])
        run.ob(oid, "known", nonvacuous=True, **common)
    else:
        run.violation(key, "%s; natively: %s" % (what, m.group(1)[:300]), path)
        run.ob(oid, "fail", note=m.group(1)[:200], **common)


def alloc_roots_obligation(run, mir_text, wsdir, root, env):
    """E3t: the value being stored is a root of the collection its own allocation triggers (p_order.analyse_alloc_roots)"""
    import p_order
    oid = "roots:value-being-stored-is-a-root"
    t0 = time.time()
    try:
        r = p_order.analyse_alloc_roots(mir_text)
    except Exception as ex:
        run.ob(oid, "inconclusive", reason="extraction failed: %s" % str(ex)[-300:], engine="mir-smt")
        return
    common = dict(engine="mir-smt/z3", wall_s=round(time.time() - t0, 1), solver_s=round(r["dt"], 3), solver_checks=1)
    run.samples.append({"engine": "mir-smt", "query": "exists a collection entry point (a function of values::closed that calls Heap::mark_and_sweep_new) none of whose marking arguments derives from the parameter carrying the value(s) about to be stored",
                        "entry points": [(s_["function"], s_["stored_param"], s_["marking_args_from_it"]) for s_ in r["sites"]]})
    run.functions.append("values::closed::Heap::{value_collection, vector_collection, allocate_vector_iter}: the stored value(s) reach the marking call (MIR data flow)")
    if r["res"] == "error" or len(r["sites"]) < 3:
        run.ob(oid, "inconclusive", reason="solver error or only %d collection entry points recognised" % len(r["sites"]), **common)
        return
    if r["res"] == "unsat":
        run.ob(oid, "pass", nonvacuous=True, note="%d collection entry points: each hands the value(s) about to be stored to the marker" % len(r["sites"]), **common)
        return
    what = "%s starts a full collection without handing the value about to be stored to the marker" % ", ".join(b["function"] for b in r["bad"])
    try:
        shutil.copy(os.path.join(ws.VERIF, "harness", "arity_replay.rs"), os.path.join(wsdir, "crates", "steel-core", "tests", "verif_arity_replay.rs"))
        p = subprocess.run(["cargo", "test", "--offline", "-p", "steel-core", "--no-default-features", "--features", ws.FEATURES,
                            "--test", "verif_arity_replay", "--target-dir", os.path.join(root, "tn"), "--", "alloc_roots_replay", "--exact", "--nocapture"],
                           cwd=wsdir, env=env, capture_output=True, text=True, timeout=2400)
        m = re.search(r"OBSERVED: (.*)", p.stdout + p.stderr)
    except Exception as ex:
        run.ob(oid, "inconclusive", reason="replay failed: %s" % str(ex)[-300:], **common)
        return
    if not m:
        run.ob(oid, "inconclusive", reason="solver: %s; not reproduced by the replay program" % what, **common)
        return
    d = os.path.join(ws.VERIF, "replays", run.pid)
    os.makedirs(d, exist_ok=True)
    path = os.path.join(d, "alloc_roots.json")
    json.dump({"property": run.pid, "kind": "allocroots", "what": what, "observed": m.group(1), "how": "./check %s --replay <this file>" % run.pid}, open(path, "w"), indent=1)
    key = "roots:stored-value-not-rooted"
    if run.is_known(key):
        run.known_hit(key, run.known[(run.pid, key)] + " -- " + m.group(1)[:200])
        run.ob(oid, "known", nonvacuous=True, **common)
    else:
        run.violation(key, "%s; natively: %s" % (what, m.group(1)[:300]), path)
        run.ob(oid, "fail", note=m.group(1)[:200], **common)


def opscan_obligation(run, mir_text, wsdir, root, env):
    """E3f: every opcode through which VmCore::vm reaches the global table with its own payload is on the
    recycler's scan list (lib/p_opscan.py)"""
    import p_opscan
    oid = "opscan:recycler-scans-every-global-opcode"
    t0 = time.time()
    try:
        r = p_opscan.analyse(mir_text, open(os.path.join(wsdir, "crates", "steel-gen", "src", "opcode.rs")).read())
    except Exception as ex:
        run.ob(oid, "inconclusive", reason="extraction failed: %s" % str(ex)[-300:], engine="mir-smt")
        return
    common = dict(engine="mir-smt/z3", wall_s=round(time.time() - t0, 1), solver_s=round(r["dt"], 3), solver_checks=r["opcodes"])
    run.samples.append({"engine": "mir-smt", "query": "exists opcode op (of %d): the arm of VmCore::vm for op hands its own payload to a global accessor AND GlobalSlotRecycler::visit_closure does not keep the slot named by op's payload" % r["opcodes"],
                        "opcodes whose arm reaches the global table with their own payload": r["vm_global"], "opcodes the recycler scans": r["scanned"],
                        "global accessors (derived: functions calling Env::repl_*_idx / SharedVectorWrapper::set_idx)": r["accessors"][:24]})
    run.functions.append("steel_vm::vm::VmCore::vm (opcode dispatch arms), values::closed::GlobalSlotRecycler::visit_closure (opcode scan), env::Env accessors (MIR)")
    if r["res"] == "error":
        run.ob(oid, "inconclusive", reason="solver error", **common)
        return
    if len(r["vm_global"]) < 3 or len(r["scanned"]) < 3:
        run.ob(oid, "inconclusive", reason="vacuous: %d global-reaching opcodes, %d scanned opcodes recognised" % (len(r["vm_global"]), len(r["scanned"])), **common)
        return
    if r["res"] == "unsat":
        run.ob(oid, "pass", nonvacuous=True, note="%d opcodes reach the global table with their own payload, all of them are scanned by the recycler" % len(r["vm_global"]), **common)
        return
    what = "opcode(s) %s reach the global table through %s with their own payload, but the recycler's scan does not keep their slot" % (", ".join(r["missing"]), r["via"])
    try:
        shutil.copy(os.path.join(ws.VERIF, "harness", "arity_replay.rs"), os.path.join(wsdir, "crates", "steel-core", "tests", "verif_arity_replay.rs"))
        p = subprocess.run(["cargo", "test", "--offline", "-p", "steel-core", "--no-default-features", "--features", ws.FEATURES,
                            "--test", "verif_arity_replay", "--target-dir", os.path.join(root, "tn"), "--", "opscan_replay", "--exact", "--nocapture"],
                           cwd=wsdir, env=env, capture_output=True, text=True, timeout=2400)
        m = re.search(r"OBSERVED: (.*)", p.stdout + p.stderr)
    except Exception as ex:
        run.ob(oid, "inconclusive", reason="replay failed: %s" % str(ex)[-300:], **common)
        return
    # the replay program exercises SET; another missing opcode has no recipe
    if not m or "SET" not in r["missing"]:
        tail = " ".join((p.stdout + p.stderr).split("\n")[-6:])[-300:]
        run.ob(oid, "inconclusive", reason="solver: %s; not reproduced by the replay program (%s)" % (what, tail), **common)
        return
    d = os.path.join(ws.VERIF, "replays", run.pid)
    os.makedirs(d, exist_ok=True)
    path = os.path.join(d, "opscan.json")
    json.dump({"property": run.pid, "kind": "opscan", "what": what, "missing": r["missing"], "observed": m.group(1), "how": "./check %s --replay <this file>" % run.pid}, open(path, "w"), indent=1)
    key = "opscan:%s" % "+".join(r["missing"])
    if run.is_known(key):
        run.known_hit(key, run.known[(run.pid, key)] + " -- " + m.group(1)[:200])
        run.ob(oid, "known", nonvacuous=True, **common)
    else:
        run.violation(key, "%s; natively: %s" % (what, m.group(1)[:300]), path)
        run.ob(oid, "fail", note=m.group(1)[:200], **common)
