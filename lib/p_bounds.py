"""E3b (part of C07): "whatever number of arguments a script passes to a built-in procedure, the
procedure's accesses to its argument vector stay in bounds" (an out-of-bounds access is a panic in
the host).

Scope: every function that is registered under a script name through the steel_derive attributes
(`function` -> the generated wrapper `steel_<fn>`, `native` / `native_mut` / `context` -> the function
itself).  The MIR of each is read from the nightly dump.  For every bounds-check assertion
`assert(Lt(const i, len(args)), "index out of bounds ...")` all acyclic control-flow paths from the
entry to the assertion are collected with their branch conditions on the argument count; one
QF_BV query per function asks for an argument count (64-bit) that reaches some assertion with
i >= len.  Branches on anything else are free (over-approximation).  Cutting cycles is sound here:
a path through a loop visits a superset of the len-conditions of the acyclic path obtained by
removing the cycle, and len does not change."""
import os, re, subprocess, time
import mir

OPS = {"Ne": "distinct", "Eq": "=", "Lt": "bvult", "Le": "bvule", "Gt": "bvugt", "Ge": "bvuge"}
ATTR = re.compile(r"#\[(?:steel_derive::)?(function|native|native_mut|context)\((.*?)\)\]\s*(?:#\[[^\]]*\]\s*|///[^\n]*\n\s*|//[^\n]*\n\s*)*(?:pub(?:\([a-z]+\))?\s+)?fn\s+(\w+)", re.S)


VALUE = re.compile(r'register_value\(\s*"([^"]+)",\s*SteelVal::(FuncV|BuiltIn|MutFunc)\(\s*([\w:]+)\s*\)')


def registered(repo_src):
    """-> {mir function name suffix: (kind, script name, file)}.  A function that carries the attribute
    but whose generated `<FN>_DEFINITION` constant is mentioned nowhere is not registered with any
    module (a script cannot call it) and is left out."""
    out = {}
    texts = {}
    for root, _, files in os.walk(repo_src):
        for f in files:
            if f.endswith(".rs"):
                texts[os.path.join(root, f)] = open(os.path.join(root, f), errors="replace").read()
    used = set(re.findall(r"\b([A-Z][A-Z0-9_]*)_DEFINITION\b", "\n".join(texts.values())))
    for path, txt in texts.items():
        root, f = os.path.split(path)
        if True:
            for m in ATTR.finditer(txt):
                kind, attrs, fn = m.group(1), m.group(2), m.group(3)
                nm = re.search(r'name\s*=\s*"([^"]+)"', attrs)
                if not nm:
                    continue
                if fn.upper() not in used:
                    continue
                key = ("steel_" + fn) if kind == "function" else fn
                out.setdefault(key, (kind, nm.group(1), os.path.relpath(os.path.join(root, f), repo_src)))
            # hand-registered procedures: register_value("name", SteelVal::FuncV(path::to::function))
            for m in VALUE.finditer(txt):
                line_start = txt.rfind("\n", 0, m.start()) + 1
                if txt[line_start:m.start()].lstrip().startswith("//"):
                    continue
                out.setdefault(m.group(3).split("::")[-1], ("value", m.group(1), os.path.relpath(os.path.join(root, f), repo_src)))
    return out


def slice_param(f):
    for a, t in f.argtypes.items():
        if re.fullmatch(r"&\[(?:rvals::)?SteelVal\]", t.strip()):
            return a
    return None


def len_cond(f, on, P):
    """SMT relation for a boolean operand that depends only on the argument count; None if it does
    not mention the count; raises if it does but is not understood."""
    o = mir.origin(f, on)
    L = r"(?:move |copy )?\(*PtrMetadata\(copy %s\)\)*" % P
    m = re.match(r"^\(*(Ne|Eq|Lt|Le|Gt|Ge)\(%s, const (\d+)_usize\)+$" % L, o)
    if m:
        return "(%s len (_ bv%d 64))" % (OPS[m.group(1)], int(m.group(2)))
    m = re.match(r"^\(*(Ne|Eq|Lt|Le|Gt|Ge)\((?:move |copy )?\(*const (\d+)_usize\)*, %s\)+$" % L, o)
    if m:
        return "(%s (_ bv%d 64) len)" % (OPS[m.group(1)], int(m.group(2)))
    if re.match(r"^\(*core::slice::<impl \[rvals::SteelVal\]>::is_empty\(copy %s\)\)*$" % P, o):
        return "(= len (_ bv0 64))"
    if ("PtrMetadata(copy %s)" % P) in o and re.search(r"\b(Ne|Eq|Lt|Le|Gt|Ge)\(", o) and "const" in o and o.count("PtrMetadata") == 1 and "_usize" in o \
            and not re.search(r"copy _\d+|move _\d+", o.replace("copy %s" % P, "")):
        raise ValueError("argument-count expression not understood: " + o[:160])
    return None


def switch_conds(f, t, P):
    """-> list of (target bb, cond or None)"""
    res = []
    o = mir.origin(f, t["on"])
    rel = None
    try:
        rel = len_cond(f, t["on"], P)
    except ValueError:
        raise
    # a switch directly on the count: `switchInt(PtrMetadata(args))` (slice patterns, match args.len())
    direct = re.match(r"^\(*PtrMetadata\(copy %s\)\)*$" % P, o) is not None
    vals = []
    for v, tgt in t["targets"]:
        if direct:
            res.append((tgt, "(= len (_ bv%d 64))" % v))
        elif rel is not None:
            res.append((tgt, rel if v != 0 else "(not %s)" % rel))
        else:
            res.append((tgt, None))
        vals.append(v)
    if t["otherwise"] is not None:
        if direct:
            c = "(and true %s)" % " ".join("(distinct len (_ bv%d 64))" % v for v in vals)
        elif rel is not None:
            c = "(and true %s)" % " ".join(("(not %s)" % rel) if v == 1 else rel for v in vals)
        else:
            c = None
        res.append((t["otherwise"], c))
    return res


def bounds_asserts(f, P):
    """-> list of (bb, index constant) for `index out of bounds` assertions on the argument slice with a
    constant index; second list: those with a non-constant index (not interpreted)."""
    const, other = [], []
    for b in f.blocks.values():
        t = b.term
        if t.get("kind") == "goto" and t.get("assert") and "index out of bounds" in t.get("msg", ""):
            o = mir.origin(f, t["assert"])
            m = re.match(r"^\(*Lt\((?:move |copy )?\(*const (\d+)_usize\)*, (?:move |copy )?\(*PtrMetadata\(copy %s\)\)*\)+$" % P, o)
            if m:
                const.append((b.n, int(m.group(1))))
            elif ("PtrMetadata(copy %s)" % P) in o:
                other.append(b.n)
    return const, other


CONV = re.compile(r"^\(*move \(<[\w:<>', ]+ as (?:rvals::)?(?:AsRefSteelVal|AsRefMutSteelVal|FromSteelVal)>::(?:as_ref|as_mut_ref|from_steelval)(?:::<[^()]*>)?\(copy \(&\(\*%s\)\[\(const (\d+)_usize\)\]\)\)\)+$")


def conversion_unwraps(f, P):
    """`T::as_ref(&args[i]).unwrap()` and the like: the conversion of a script argument fails for
    every argument of another kind, and a script may pass any kind, so reaching the unwrap at all
    is reaching a panic.  -> list of (bb, i)"""
    out = []
    rx = re.compile(CONV.pattern % re.escape(P))
    for b in f.blocks.values():
        t = b.term
        if t.get("kind") == "call" and re.search(r"(?:Result|Option)::<.*>::(?:unwrap|expect)$", t["callee"]) and t["args"]:
            m = rx.match(mir.origin(f, t["args"][0]))
            if m:
                out.append((b.n, int(m.group(1))))
    return out


def range_from_sites(f, P):
    """`&args[n..]`: panics iff n > count.  -> list of (bb, n); second value: sub-slicings that are
    not of this shape (not interpreted)"""
    out, other = [], 0
    for b in f.blocks.values():
        t = b.term
        if t.get("kind") == "call" and "Index<" in t["callee"] and len(t["args"]) > 1 and t["args"][0].strip() == "copy %s" % P:
            o = mir.origin(f, t["args"][1])
            m = re.match(r"^\(*move \(std::ops::RangeFrom::<usize> \{ start: const (\d+)_usize \}\)+$", o)
            if m:
                out.append((b.n, int(m.group(1))))
            else:
                other += 1
    return out, other


def paths_to(f, target, P, limit=3000):
    res = []
    stack = [(0, [], frozenset())]
    while stack:
        bb, conds, seen = stack.pop()
        if bb == target:
            res.append(conds)
            if len(res) > limit:
                raise ValueError("too many paths")
            continue
        if bb in seen:
            continue  # cycle: the acyclic remainder is explored separately (sound, see module doc)
        b = f.blocks[bb]
        if b.cleanup:
            continue
        t = b.term
        seen2 = seen | {bb}
        if t["kind"] in ("goto", "drop", "call"):
            if "to" in t:
                stack.append((t["to"], conds, seen2))
        elif t["kind"] == "switch":
            for tgt, c in switch_conds(f, t, P):
                stack.append((tgt, conds + ([c] if c else []), seen2))
    return res


def check_fn(key, f, timeout=60):
    P = slice_param(f)
    if P is None:
        return {"name": key, "res": "skip", "why": "no &[SteelVal] parameter"}
    const, other = bounds_asserts(f, P)
    unw = conversion_unwraps(f, P)
    rng, rng_other = range_from_sites(f, P)
    other = other + [None] * rng_other
    if not const and not unw and not rng:
        return {"name": key, "res": "none", "uninterpreted": len(other)}
    alts = []
    for bb, idx in const:
        for conds in paths_to(f, bb, P):
            alts.append("(and (bvule len (_ bv%d 64)) %s)" % (idx, " ".join(conds)))
    for bb, start in rng:
        for conds in paths_to(f, bb, P):
            alts.append("(and (bvult len (_ bv%d 64)) %s)" % (start, " ".join(conds)))
    for bb, idx in unw:
        # the argument's kind is a free choice of the script: the conversion may fail on every path
        for conds in paths_to(f, bb, P):
            alts.append("(and true %s)" % " ".join(conds))
    base = "(set-logic QF_BV)\n(declare-const len (_ BitVec 64))\n(assert (or false %s))\n" % " ".join(alts)
    # verdict from the unrestricted query; a script-sized witness from a second one
    t0 = time.time()
    p = subprocess.run(["z3", "-in", "-T:%d" % timeout], input=base + "(check-sat)\n", capture_output=True, text=True)
    out = p.stdout.strip().split("\n")
    res = out[0] if out and out[0] in ("sat", "unsat") and "(error" not in p.stdout else "error"
    vals = []
    if res == "sat":
        for extra in ("(assert (bvule len (_ bv8 64)))\n", ""):
            p2 = subprocess.run(["z3", "-in", "-T:%d" % timeout], input=base + extra + "(check-sat)\n(get-value (len))\n", capture_output=True, text=True)
            if p2.stdout.startswith("sat"):
                vals = [int(x, 16) for x in re.findall(r"#x([0-9a-f]{16})", p2.stdout)]
                break
    return {"name": key, "res": res, "len": vals[0] if vals else None, "asserts": len(const), "unwraps": len(unw), "subslices": len(rng), "uninterpreted": len(other),
            "paths": len(alts), "dt": time.time() - t0}
