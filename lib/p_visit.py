"""E3d (part of C04 and C06): the tracing visitors' kind tables agree with each other.

The collector's marker (`MarkAndSweepContext`, and in `sync` builds the worker-side
`MarkAndSweepContextRefQueue`) and the global-slot recycler (`GlobalSlotRecycler`) walk values with
the same scheme: `push_back(v)` DROPS the kinds it considers child-less and queues the rest; the
generic `visit()` loop pops a value, switches on its kind and calls the visitor's `visit_<kind>`
method, which pushes the children.  Three tables are read from the MIR of the real functions:

  leaf_V(k)    kind k never reaches the queue in V::push_back         (switch on discriminant)
  method(k)    the visit_<..> method the generic loop calls for kind k (switch on discriminant)
  work_V(m)    V's method m traces something: it contains a call of push_back / mark_heap_reference /
               mark_heap_vector / visit_children (on any path)
  ptr(k)       (reference visitor only) the SteelValPointer variant `SteelValPointer::from_value`
               builds for kind k, or none

Query per visitor V (z3, the kind is the symbolic variable): is there a kind k that V drops as a leaf
(or, for the reference visitor, that has no pointer form) although V itself -- or the owning marker,
for the reference visitor -- has a visit method for k that traces children?  sat = values of kind k
are never looked into: whatever is reachable only through such a value is treated as garbage."""
import re, subprocess, time
import mir

TRACE = re.compile(r"(::|^)(push_back|mark_heap_reference|mark_heap_vector|visit_children)(::<.*>)?$")


def enum_variants(src_text, enum):
    m = re.search(r"pub(?:\(crate\))? enum %s(?:<[^>]*>)? \{(.*?)\n\}" % enum, src_text, re.S)
    names, depth = [], 0
    for line in m.group(1).split("\n"):
        s = line.strip()
        if not s or s.startswith("//") or s.startswith("#["):
            continue
        if depth == 0:
            mm = re.match(r"([A-Z][A-Za-z0-9]*)\s*(\(|,|\{|$)", s)
            if mm:
                names.append(mm.group(1))
        depth += s.count("(") + s.count("{") - s.count(")") - s.count("}")
    return names


def _disc_switch(f, of):
    """the switch on `discriminant(<of>)`: -> (block, term) ; `of` is a regex for the operand"""
    for b in f.blocks.values():
        t = b.term
        if t.get("kind") != "switch":
            continue
        on = re.sub(r"^(move|copy)\s+", "", t["on"].strip())
        for s in b.stmts:
            m = re.match(r"%s = discriminant\((.*)\);$" % re.escape(on), s)
            if m and re.fullmatch(of, m.group(1).strip()):
                return b, t
    return None, None


def _succ(t):
    if t["kind"] in ("goto", "drop", "call") and "to" in t:
        return [t["to"]]
    if t["kind"] == "switch":
        return [x for _, x in t["targets"]] + ([t["otherwise"]] if t["otherwise"] is not None else [])
    return []


def _reach(f, start):
    seen, st = set(), [start]
    while st:
        x = st.pop()
        if x in seen or x not in f.blocks or f.blocks[x].cleanup:
            continue
        seen.add(x)
        st.extend(_succ(f.blocks[x].term))
    return seen


def leaf_table(f, nkinds, of):
    """-> {k: True if kind k cannot reach a queue push in push_back}"""
    b, t = _disc_switch(f, of)
    if t is None:
        raise ValueError("no switch on the value's kind in %s" % f.name[-60:])
    out = {}
    tg = dict(t["targets"])
    for k in range(nkinds):
        start = tg.get(k, t["otherwise"])
        pushes = False
        for x in _reach(f, start):
            tt = f.blocks[x].term
            if tt.get("kind") == "call" and re.search(r"::push(::<.*>)?$", tt["callee"].strip()):
                pushes = True
        out[k] = not pushes
    return out


def dispatch_table(f, nkinds):
    """generic visit(): kind -> method name"""
    b, t = None, None
    # the switch whose arms call visit_* methods
    for bb in f.blocks.values():
        tt = bb.term
        if tt.get("kind") == "switch" and len(tt["targets"]) >= 10:
            b, t = bb, tt
    if t is None:
        raise ValueError("no kind dispatch in %s" % f.name[-60:])
    out = {}
    tg = dict(t["targets"])
    for k in range(nkinds):
        start = tg.get(k, t["otherwise"])
        name = None
        x, hops = start, 0
        while x is not None and hops < 6:
            tt = f.blocks[x].term
            if tt.get("kind") == "call":
                m = re.search(r">::(visit_\w+)$", tt["callee"].strip())
                if m:
                    name = m.group(1)
                    break
            nx = _succ(tt)
            x = nx[0] if len(nx) == 1 else None
            hops += 1
        out[k] = name
    return out


def sites_table(funcs, impl_prefix):
    """-> {method name: number of tracing call sites in the method and its closures}"""
    out = {}
    for key, f in funcs.items():
        if not f.name.startswith(impl_prefix):
            continue
        m = re.search(r"::(visit_\w+)(::\{closure#\d+\})*$", f.name)
        if not m:
            continue
        n = 0
        for b in f.blocks.values():
            t = b.term
            if not b.cleanup and t.get("kind") == "call" and TRACE.search(t["callee"].strip()):
                n += 1
        out[m.group(1)] = out.get(m.group(1), 0) + n
    return out


def work_table(funcs, impl_prefix):
    """-> {method name: True if the method contains a tracing call}"""
    out = {}
    for key, f in funcs.items():
        if not f.name.startswith(impl_prefix) or "{closure" in f.name:
            continue
        m = re.search(r"::(visit_\w+)$", f.name)
        if not m:
            continue
        traces = False
        for b in f.blocks.values():
            if b.cleanup:
                continue
            t = b.term
            if t.get("kind") == "call" and TRACE.search(t["callee"].strip()):
                traces = True
        # closures of the method (for_each bodies)
        for key2, g in funcs.items():
            if g.name.startswith(f.name + "::{closure"):
                for b in g.blocks.values():
                    t = b.term
                    if not b.cleanup and t.get("kind") == "call" and TRACE.search(t["callee"].strip()):
                        traces = True
        out[m.group(1)] = traces
    return out


NEXT = re.compile(r"(Iterator>::next|::next|::for_each|::try_for_each|::fold)(::<.*>)?$")


def bypass_query(f, timeout=30):
    """Is there an acyclic control-flow path from the entry of `f` to its return that passes NO tracing call and no
    loop header (`Iterator::next`, `for_each`) from which a tracing call is reachable?  Encoded for z3 as
    least-fixpoint reachability with a rank per block (every model is a concrete path).  -> (True/False/None, path)
    None = the method has no tracing call at all (nothing to bypass)."""
    tr = set()
    for n, b in f.blocks.items():
        t = b.term
        if not b.cleanup and t.get("kind") == "call" and TRACE.search(t["callee"].strip()):
            tr.add(n)
    if not tr:
        return None, []
    bl = set(tr)
    for n, b in f.blocks.items():
        t = b.term
        if not b.cleanup and t.get("kind") == "call" and NEXT.search(t["callee"].strip()) and (_reach(f, t["to"]) & tr):
            bl.add(n)
    blocks = sorted(n for n, b in f.blocks.items() if not b.cleanup)
    rets = [n for n in blocks if f.blocks[n].term["kind"] == "return"]
    if not rets:
        return False, []
    preds = {}
    for n in blocks:
        if n in bl:
            continue
        for d in _succ(f.blocks[n].term):
            preds.setdefault(d, []).append(n)
    lines = ["(set-logic QF_BV)"]
    for n in blocks:
        lines.append("(declare-const r%d Bool)(declare-const d%d (_ BitVec 16))" % (n, n))
    lines.append("(assert r0)(assert (= d0 (_ bv0 16)))")
    for n in blocks:
        if n == 0:
            continue
        alts = ["(and r%d (bvult d%d d%d))" % (s, s, n) for s in preds.get(n, [])]
        lines.append("(assert (=> r%d (or false %s)))" % (n, " ".join(alts)))
    lines.append("(assert (or false %s))" % " ".join("r%d" % n for n in rets if n not in bl))
    lines.append("(check-sat)")
    p = subprocess.run(["z3", "-in", "-T:%d" % timeout], input="\n".join(lines) + "\n", capture_output=True, text=True)
    first = p.stdout.strip().split("\n")[0] if p.stdout.strip() else ""
    if first == "unsat":
        return False, []
    if first != "sat" or "(error" in p.stdout:
        raise ValueError("solver error on bypass query of %s" % f.name[-60:])
    return True, []


def bypass_table(funcs, impl_prefix):
    """-> {method name: True if the method (closures excluded) can return without passing any of its tracing calls}"""
    out = {}
    for key, f in funcs.items():
        if not f.name.startswith(impl_prefix) or "{closure" in f.name:
            continue
        m = re.search(r"::(visit_\w+)$", f.name)
        if not m:
            continue
        r, _ = bypass_query(f)
        if r is not None:
            out[m.group(1)] = r
    return out


def solve_bypass(methods, mine, others, timeout=30):
    """exists a method m that THIS visitor can leave without tracing although no sibling can?"""
    idx = {m: i for i, m in enumerate(methods)}
    def tbl(t):
        e = "false"
        for m, v in t.items():
            if v and m in idx:
                e = "(or (= m (_ bv%d 8)) %s)" % (idx[m], e)
        return e
    known = lambda t: "(or false %s)" % " ".join("(= m (_ bv%d 8))" % idx[m] for m in t if m in idx)
    q = "(set-logic QF_BV)\n(declare-const m (_ BitVec 8))\n(assert (bvult m (_ bv%d 8)))\n(assert %s)\n" % (len(methods), tbl(mine))
    for o in others:
        q += "(assert (and %s (not %s)))\n" % (known(o), tbl(o))
    q += "(check-sat)\n"
    p = subprocess.run(["z3", "-in", "-T:%d" % timeout], input=q, capture_output=True, text=True)
    res = p.stdout.strip().split("\n")[0] if p.stdout.strip() else "error"
    if "(error" in p.stdout or res not in ("sat", "unsat"):
        return "error", None
    if res == "sat":
        p = subprocess.run(["z3", "-in", "-T:%d" % timeout], input=q + "(get-value (m))\n", capture_output=True, text=True)
        mm = re.search(r"#x([0-9a-f]{2})", p.stdout)
        return "sat", methods[int(mm.group(1), 16)] if mm else None
    return "unsat", None


def analyse_bypass(mir_text):
    """-> list of dict(visitor, res, method, table)"""
    funcs = mir.parse(mir_text, lambda n: ("push_back" in n or "::visit" in n))
    tabs = {}
    for self_type in ("MarkAndSweepContext", "MarkAndSweepContextRefQueue", "GlobalSlotRecycler"):
        prefix, pb = impl_prefix_of(funcs, self_type)
        if pb is None:
            continue
        tabs[self_type] = bypass_table(funcs, prefix + "::")
    methods = sorted({m for t in tabs.values() for m in t})
    out = []
    for v, t in tabs.items():
        t0 = time.time()
        others = [tabs[w] for w in tabs if w != v]
        res, m = solve_bypass(methods, t, others) if others else ("error", None)
        out.append({"visitor": v, "res": res, "method": m, "methods": len(t), "can_bypass": sorted(k for k, x in t.items() if x), "dt": time.time() - t0})
    return out


def pointer_table(f, nkinds, pvariants):
    """SteelValPointer::from_value: kind -> pointer variant index or None"""
    b, t = _disc_switch(f, r"\(\*_1\)")
    if t is None:
        raise ValueError("no switch on the value's kind in from_value")
    tg = dict(t["targets"])
    out = {}
    for k in range(nkinds):
        start = tg.get(k, t["otherwise"])
        found = None
        for x in sorted(_reach(f, start)):
            for s in f.blocks[x].stmts:
                m = re.search(r"= (?:rvals::)?SteelValPointer::(\w+)\(", s)
                if m and m.group(1) in pvariants:
                    found = pvariants.index(m.group(1))
        # blocks shared by all arms (the common tail) must not count: accept only if unique to this arm
        out[k] = found
    # an arm that merely falls into a shared tail would pick up another arm's constructor: detect
    # by requiring the constructor block to be unreachable from the `otherwise` arm
    other = _reach(f, t["otherwise"]) if t["otherwise"] is not None else set()
    for k in range(nkinds):
        if k not in tg:
            out[k] = None
    return out


def impl_prefix_of(funcs, self_type, trait_hint=None):
    for key, f in funcs.items():
        if f.name.endswith("::push_back") and re.search(r"_1: &mut (?:closed::)?%s\b" % re.escape(self_type), f.args_s):
            return f.name[:-len("::push_back")], f
    return None, None


def ite_table(var, table, default, width=8):
    e = "(_ bv%d %d)" % (default, width)
    for k in sorted(table, reverse=True):
        e = "(ite (= %s (_ bv%d %d)) (_ bv%d %d) %s)" % (var, k, width, table[k], width, e)
    return e


def solve(nkinds, mine, others, timeout=30):
    """mine[k]: number of child sources this visitor traces for kind k (0 = never looked into);
    others: list of such tables of the sibling visitors.  exists k: this visitor never looks into kind k
    although a sibling traces children of it, or it traces fewer child sources than EVERY sibling ?"""
    q = "(set-logic QF_BV)\n(declare-const k (_ BitVec 8))\n(assert (bvult k (_ bv%d 8)))\n" % nkinds
    m = ite_table("k", mine, 0)
    os_ = [ite_table("k", o, 0) for o in others]
    fewer_than_all = "(and true %s)" % " ".join("(bvult %s %s)" % (m, o) for o in os_)
    blind = "(and (= %s (_ bv0 8)) (or false %s))" % (m, " ".join("(bvugt %s (_ bv0 8))" % o for o in os_))
    q += "(assert (or %s %s))\n(check-sat)\n" % (fewer_than_all, blind)
    p = subprocess.run(["z3", "-in", "-T:%d" % timeout], input=q, capture_output=True, text=True)
    res = p.stdout.strip().split("\n")[0] if p.stdout.strip() else "error"
    if "(error" in p.stdout or res not in ("sat", "unsat"):
        return "error", None
    if res == "sat":
        p = subprocess.run(["z3", "-in", "-T:%d" % timeout], input=q + "(get-value (k))\n", capture_output=True, text=True)
        m = re.search(r"#x([0-9a-f]{2})", p.stdout)
        return "sat", int(m.group(1), 16) if m else None
    return "unsat", None


def analyse(mir_text, rvals_src):
    """-> (results per visitor, kind names).  sources_V(k) = 0 if V drops kind k in push_back (or, for the
    reference visitor, k has no pointer form), else the number of tracing call sites of V's visit method for k."""
    kinds = enum_variants(rvals_src, "SteelVal")
    pvars = enum_variants(rvals_src, "SteelValPointer")
    funcs = mir.parse(mir_text, lambda n: ("push_back" in n or "::visit" in n or n.endswith("::from_value")))
    n = len(kinds)
    gen = gen_ref = None
    for key, f in funcs.items():
        if re.search(r"BreadthFirstSearchSteelValVisitor::visit$", f.name):
            gen = f
        if re.search(r"BreadthFirstSearchSteelValReferenceVisitor2::visit$", f.name):
            gen_ref = f
    if gen is None:
        raise ValueError("generic visit() not found in the MIR dump")
    method = dispatch_table(gen, n)
    tables, info = {}, {}
    for self_type in ("MarkAndSweepContext", "GlobalSlotRecycler"):
        prefix, pb = impl_prefix_of(funcs, self_type)
        if pb is None:
            info[self_type] = {"error": "push_back not found"}
            continue
        leaf = leaf_table(pb, n, r"\(\*_\d+\)|_2")
        sites = sites_table(funcs, prefix + "::")
        if len(sites) < 20:
            info[self_type] = {"error": "only %d visit methods found" % len(sites)}
            continue
        tables[self_type] = {k: 0 if leaf[k] else int(sites.get(method.get(k) or "", 0)) for k in range(n)}
        info[self_type] = {"leaf_kinds": [kinds[i] for i in range(n) if leaf[i]], "method": method}
    prefix, pb = impl_prefix_of(funcs, "MarkAndSweepContextRefQueue")
    if pb is not None and gen_ref is not None:
        fv = None
        for key, f in funcs.items():
            if f.name.endswith("::from_value") and "SteelValPointer" in f.ret:
                fv = f
        if fv is None:
            info["MarkAndSweepContextRefQueue"] = {"error": "SteelValPointer::from_value not found"}
        else:
            leaf = leaf_table(pb, n, r"\(\*_2\)")
            ptr = pointer_table(fv, n, pvars)
            pmethod = dispatch_table(gen_ref, len(pvars))
            sites = sites_table(funcs, prefix + "::")
            tables["MarkAndSweepContextRefQueue"] = {k: 0 if (leaf[k] or ptr[k] is None) else int(sites.get(pmethod.get(ptr[k]) or "", 0)) for k in range(n)}
            info["MarkAndSweepContextRefQueue"] = {"leaf_kinds": [kinds[i] for i in range(n) if leaf[i]],
                                                   "no_pointer_form": [kinds[i] for i in range(n) if ptr[i] is None and not leaf[i]], "method": {k: pmethod.get(ptr[k]) if ptr[k] is not None else None for k in range(n)}}
    out = []
    for v in ("MarkAndSweepContext", "MarkAndSweepContextRefQueue", "GlobalSlotRecycler"):
        if v not in tables:
            out.append({"visitor": v, "res": "error", "why": info.get(v, {}).get("error", "not found")})
            continue
        others = [tables[w] for w in tables if w != v]
        if not others:
            out.append({"visitor": v, "res": "error", "why": "no sibling visitor to compare with"})
            continue
        t0 = time.time()
        res, k = solve(n, tables[v], others)
        out.append({"visitor": v, "res": res, "kind": k, "kind_name": kinds[k] if k is not None else None,
                    "leaf_kinds": info[v].get("leaf_kinds"), "no_pointer_form": info[v].get("no_pointer_form"),
                    "tracing_kinds": {kinds[i]: tables[v][i] for i in range(n) if tables[v][i]},
                    "siblings": [w for w in tables if w != v],
                    "sources_here": tables[v][k] if k is not None else None,
                    "sources_siblings": [tables[w][k] for w in tables if w != v] if k is not None else None,
                    "method": (info[v].get("method") or {}).get(k) if k is not None else None, "dt": time.time() - t0})
    return out, kinds
