"""C15 / C16 / C17: engine E2 (MIR-extracted automata + symbolic scheduler in SMT)."""
import os, re, json, subprocess, time
import ws, core, mir, mirbmc

PAT = ("spawn_native_thread", "gc_collect", "insert_binding", "make_box", "handle_set", "::collection", "::allocate", "value_collection", "::mark", "enter_safepoint", "safepoint_or_interrupt", "park_thread_while_paused", "stop_threads", "resume_threads",
       "enumerate_stacks", "call_per_ctx", "with_locked_env", "::suspend", "::pause_for_safepoint", "::resume", "::interrupt", "mark_and_sweep_new", "closed.rs")

ASSUME = [
    "atomics are sequentially consistent (Ordering::Relaxed weak-memory behaviours are outside the claim)",
    "std::thread::park has no spurious wake-ups (outside the claim)",
    "every script thread is registered and alive for the whole run (spawn/exit races outside the claim)",
    "the registry entry of thread i carries the controller thread i polls (read from spawn_native_thread / SteelThread::new, not extracted)",
    "native threads only: forked make_thread contexts (forked_thread_handle) are outside the claim",
    "thread programs (roles) are the harness: poll; then one of user-step / primitive call inside enter_safepoint / allocation with collection (enter_safepoint(heap lock); stop_threads; enumerate_stacks; resume_threads) / global definition (with_locked_env)",
]


def dump_mir(tag="mir"):
    """MIR of steel-core from the CURRENT /repo working tree (regenerated on every run)."""
    wsdir = ws.prepare(tag, [])
    root = os.path.dirname(wsdir)
    out = os.path.join(root, "steel_core.mir")
    t0 = time.time()
    env = dict(os.environ, CARGO_NET_OFFLINE="true")
    env.pop("RUSTFLAGS", None)
    with open(out, "w") as f, open(os.path.join(root, "mir.err"), "w") as e:
        p = subprocess.run(["cargo", "+nightly", "rustc", "--offline", "-p", "steel-core", "--lib", "--no-default-features",
                            "--features", ws.FEATURES, "--target-dir", os.path.join(root, "tmir"), "--",
                            "-Zunpretty=mir", "-C", "debug-assertions=off"], cwd=wsdir, stdout=f, stderr=e, env=env)
    if p.returncode != 0 or os.path.getsize(out) < 1000000:
        raise mirbmc.ExtractionError("MIR dump failed: " + open(os.path.join(root, "mir.err")).read()[-1500:])
    txt = open(out).read()
    funcs = mir.parse(txt, lambda n: any(p in n for p in PAT) and ("vm.rs" in n or "closed.rs" in n or "engine.rs" in n or "threads.rs" in n or "impl at" not in n))
    return funcs, time.time() - t0, wsdir


# --------------------------------------------------------------------------- queries
def base(funcs, spec, K, hostdone=None):
    b, progs, n = mirbmc.build_system(funcs, spec)
    s = mirbmc.Smt(progs, n, K)
    s.declare()
    s.init()
    hd = "false"
    if hostdone is not None:
        h = progs[hostdone]
        hd = "(= pc%d_K %s)" % (hostdone, mirbmc.bv(h.done.id, mirbmc.PCW))
    s.transitions(hd)
    return b, progs, n, s


def retract_nodes(progs, i):
    return [n.id for n in progs[i].nodes.values() if n.k == "ctx_store" and n.a.get("w") == "self" and n.a.get("v") is False]


def block_exit_window(s, progs, n):
    """Blocking constraint for the listed finding 'safepoint exit window': no stop request
    (paused[i] := true by another thread) lands while thread i sits between its last paused
    check and the retraction of its published pointer."""
    cs = []
    for k in range(s.K):
        for (t, node, g, eff, nxt, lbl) in s.table:
            for i in range(n):
                if i == t or progs[i].role != "script":
                    continue
                if eff.get("paused%d" % i) == "true":
                    rn = retract_nodes(progs, i)
                    if rn:
                        cs.append("(not (and (= sched_%d %s) (= pc%d_%d %s) %s %s))" % (
                            k, mirbmc.bv(t, mirbmc.LKW), t, k, mirbmc.bv(node.id, mirbmc.PCW), g.replace("_K", "_%d" % k), s.pc_in(i, k, rn)))
    return "(assert (and true %s))" % "\n ".join(cs)


def q_safety(s, progs, n):
    """C15: some thread is inside the scan window of thread i's state while i runs user code."""
    bads = []
    for k in range(s.K + 1):
        for c in range(len(progs)):
            if progs[c].role != "script":
                continue
            scan = s.nodes_of_kind(c, "scan")
            if not scan:
                continue
            for i in range(n):
                if i == c:
                    continue
                user = s.nodes_of_kind(i, "user")
                if user:
                    bads.append("(and %s (= it%d_%d %s) %s)" % (s.pc_in(c, k, scan), c, k, mirbmc.bv(i + 1, mirbmc.ITW), s.pc_in(i, k, user)))
    return "(assert (or false %s))" % " ".join(bads)


def q_lasso(s, progs, n):
    """C16: a fair lasso on which some thread never finishes (deadlock or livelock)."""
    K = s.K
    L = []
    T = len(progs)
    L.append("(declare-const J (_ BitVec 8))")
    L.append("(assert (bvult J %s))" % mirbmc.bv(K, 8))
    for t in range(T):
        for m in range(K, -1, -1):
            L.append("(declare-const ranfrom%d_%d Bool)" % (t, m))
            L.append("(declare-const blkfrom%d_%d Bool)" % (t, m))
            if m == K:
                L.append("(assert (not ranfrom%d_%d))" % (t, m))
                L.append("(assert blkfrom%d_%d)" % (t, m))
            else:
                L.append("(assert (= ranfrom%d_%d (or (= sched_%d %s) ranfrom%d_%d)))" % (t, m, m, mirbmc.bv(t, mirbmc.LKW), t, m + 1))
                L.append("(assert (= blkfrom%d_%d (and %s blkfrom%d_%d)))" % (t, m, s.blocked(t, m), t, m + 1))
    allv = s.all_vars()
    for j in range(K):
        eq = " ".join("(= %s_%d %s_%d)" % (v, j, v, K) for v in allv if not v.startswith("polls"))
        fair = " ".join("(or %s ranfrom%d_%d blkfrom%d_%d)" % (s.finished(t, K), t, j, t, j) for t in range(T))
        L.append("(assert (=> (= J %s) (and %s %s)))" % (mirbmc.bv(j, 8), eq, fair))
    L.append("(assert (or %s))" % " ".join("(not %s)" % s.finished(t, K) for t in range(T)))
    return "\n".join(L)


def q_interrupt(s, progs, n, target, D):
    """C17: the target completed D polls that BEGAN after the host's interrupt() had completed,
    without ever returning the interruption error."""
    K = s.K
    return "(assert (and (bvuge polls%d_%d %s) (not (= pc%d_%d %s))))" % (
        target, K, mirbmc.bv(D, mirbmc.PLW), target, K, mirbmc.bv(progs[target].err.id, mirbmc.PCW))


def solve(s, extra, timeout, want_values=True):
    T = len(s.progs)
    names = ["sched_%d" % k for k in range(s.K)] + ["pc%d_%d" % (t, k) for t in range(T) for k in range(s.K + 1)] + \
            ["it%d_%d" % (t, k) for t in range(T) for k in range(s.K + 1)]
    if "declare-const J " in extra:
        names.append("J")
    text = s.text() + extra + "\n"
    res, vals, dt = mirbmc.run_z3(text, names if want_values else [], timeout)
    return res, vals, dt, text


def fmt_schedule(tr, upto=None):
    return ["%d T%d %s [%s]" % (e["step"], e["thread"], e["action"], e["src"]) for e in tr]


# --------------------------------------------------------------------------- blocking constraints for listed findings
STOP_SRC = ("stop_threads", "pause_for_safepoint", "enumerate_stacks", "call_per_ctx", "resume_threads", "resume:", "mark_and_sweep_new", "with_locked_env")


def stop_region(progs, t):
    ids = []
    for n in progs[t].nodes.values():
        src = n.src or ""
        if n.k in ("scan", "thunk", "marking") or any(src.startswith(x) for x in STOP_SRC):
            if not (src.startswith("pause_for_safepoint") and False):
                ids.append(n.id)
    return ids


def block_two_stoppers(s, progs, n):
    cs = []
    regs = {t: stop_region(progs, t) for t in range(len(progs)) if progs[t].role == "script"}
    for k in range(s.K + 1):
        for a in regs:
            for b in regs:
                if a < b and regs[a] and regs[b]:
                    cs.append("(not (and %s %s))" % (s.pc_in(a, k, regs[a]), s.pc_in(b, k, regs[b])))
    return "(assert (and true %s))" % "\n ".join(cs)


def constrain_gc_first(s, progs, n):
    """Scenario constraint (not a finding mask): every thread other than the collecting one takes its FIRST step only
    while the collecting thread owns the heap lock, i.e. the collection is already under way when the other
    operation begins.  On the pinned tree a global assignment then waits for the heap lock inside a safepoint, which
    is what keeps the two world-stoppers apart in this order."""
    cs = []
    col = [t for t in range(len(progs)) if progs[t].role == "script" and "gc" in progs[t].ops]
    if not col:
        return "(assert true)"
    a = col[0]
    for k in range(s.K):
        for b in range(len(progs)):
            if b == a or progs[b].role != "script":
                continue
            cs.append("(=> (and (= sched_%d %s) (= pc%d_%d %s)) (= heaplock_%d %s))" % (
                k, mirbmc.bv(b, mirbmc.LKW), b, k, mirbmc.bv(progs[b].entry.id, mirbmc.PCW), k, mirbmc.bv(a, mirbmc.LKW)))
    return "(assert (and true %s))" % "\n ".join(cs)


def block_interrupt_overwrite(s, progs, n):
    """Listed finding 'interrupt overwritten': the host's interrupt() and the stop/resume of a
    world-stopping script thread write the same controller words (paused, state) without
    coordination.  Excluded pattern: a script thread writes the controller of thread i once a
    host has started (or finished) interrupting i."""
    cs = []
    hosts = [t for t in range(len(progs)) if progs[t].role == "host"]
    for k in range(s.K):
        for (t, node, g, eff, nxt, lbl) in s.table:
            if progs[t].role != "script":
                continue
            for h in hosts:
                for i in sorted({op[1] for op in progs[h].ops}):
                    if not (("state%d" % i) in eff or ("paused%d" % i) in eff):
                        continue
                    if True:
                        started = "(not (= pc%d_%d %s))" % (h, k, mirbmc.bv(progs[h].entry.id, mirbmc.PCW))
                        cs.append("(not (and (= sched_%d %s) (= pc%d_%d %s) %s %s))" % (
                            k, mirbmc.bv(t, mirbmc.LKW), t, k, mirbmc.bv(node.id, mirbmc.PCW), g.replace("_K", "_%d" % k), started))
    return "(assert (and true %s))" % "\n ".join(cs)


def block_interrupt_mid(s, progs, n):
    """Listed finding 'interrupt() is two stores': the target reads its controller between the
    host's `paused := true` and `state := Interrupted`.  Excluded pattern: the target takes a step
    that reads its own controller while a host is in the middle of interrupt()."""
    cs = []
    hosts = [t for t in range(len(progs)) if progs[t].role == "host"]
    for k in range(s.K):
        for (t, node, g, eff, nxt, lbl) in s.table:
            if progs[t].role != "script" or node.k not in ("paused_load", "state_load") or node.a.get("w") != "self":
                continue
            for h in hosts:
                if t not in {op[1] for op in progs[h].ops}:
                    continue
                mid = "(and (not (= pc%d_%d %s)) (not (= pc%d_%d %s)))" % (
                    h, k, mirbmc.bv(progs[h].entry.id, mirbmc.PCW), h, k, mirbmc.bv(progs[h].done.id, mirbmc.PCW))
                cs.append("(not (and (= sched_%d %s) (= pc%d_%d %s) %s))" % (
                    k, mirbmc.bv(t, mirbmc.LKW), t, k, mirbmc.bv(node.id, mirbmc.PCW), mid))
    return "(assert (and true %s))" % "\n ".join(cs)


BLOCKS = {"gc-first": constrain_gc_first, "interrupt-mid": block_interrupt_mid, "exit-window": block_exit_window, "two-stoppers": block_two_stoppers, "interrupt-overwrite": block_interrupt_overwrite}

KF = {
    "exit-window": "sync:safepoint-exit-window",
    "two-stoppers": "sync:two-concurrent-world-stoppers",
    "interrupt-overwrite": "sync:interrupt-overwritten-by-stop-resume",
    "interrupt-mid": "sync:interrupt-is-two-stores",
}


# --------------------------------------------------------------------------- native replay (hook H2)
class NativeSync:
    def __init__(self, wsdir):
        self.ws = wsdir
        self.root = os.path.dirname(wsdir)
        self.bin = None
        self.build_s = 0.0

    def build(self):
        if self.bin:
            return self.bin
        t0 = time.time()
        import shutil
        shutil.copy(os.path.join(ws.VERIF, "harness", "sync_replay.rs"),
                    os.path.join(self.ws, "crates", "steel-core", "tests", "verif_sync_replay.rs"))
        env = dict(os.environ, RUSTFLAGS="--cfg steel_verif", CARGO_NET_OFFLINE="true")
        out = subprocess.run(["cargo", "test", "--offline", "-p", "steel-core", "--no-default-features", "--features", ws.FEATURES,
                              "--test", "verif_sync_replay", "--no-run", "--target-dir", os.path.join(self.root, "tn"),
                              "--message-format=json"], cwd=self.ws, env=env, capture_output=True, text=True)
        errs = []
        for line in out.stdout.splitlines():
            try:
                j = json.loads(line)
            except ValueError:
                continue
            if j.get("reason") == "compiler-artifact" and j.get("executable") and j["target"]["name"] == "verif_sync_replay":
                self.bin = j["executable"]
            if j.get("reason") == "compiler-message" and j.get("message", {}).get("level") == "error":
                errs.append(j["message"].get("rendered") or "")
        self.build_s = time.time() - t0
        if not self.bin:
            raise RuntimeError("native replay build failed (hooks missing in this tree?):\n" + "\n".join(errs)[-2500:] + out.stderr[-800:])
        return self.bin

    def run(self, test, env_extra):
        b = self.build()
        env = dict(os.environ)
        env.update(env_extra)
        try:
            p = subprocess.run([b, test, "--exact", "--nocapture", "--test-threads", "1"], env=env, capture_output=True, text=True, timeout=180)
        except subprocess.TimeoutExpired:
            return False, "native replay timed out", ""
        out = p.stdout + p.stderr
        ev = re.search(r"EVENTS: (.*)", out)
        m = re.search(r"OBSERVED: (.*)", out)
        if m and p.returncode == 3:
            return True, m.group(1).strip(), ev.group(1) if ev else ""
        c = re.search(r"COMPLETED: (.*)", out)
        return False, (c.group(1) if c else out[-300:]), ev.group(1) if ev else ""


def project_exit_window(tr):
    """Order of the hooked events of a C15 counterexample schedule (stopper = thread 0 on the
    engine thread, victim = the scanned thread)."""
    scan = [e for e in tr if e["kind"] == "ctx_load" and "==Some" in (e["action"] or "")]
    if not scan:
        return None
    c = scan[-1]["thread"]
    m = re.search(r"ctx\[(\d+)\]==Some", scan[-1]["action"])
    victim = int(m.group(1))
    retr = [e for e in tr if e["thread"] == victim and e["kind"] == "ctx_store" and ":=None" in (e["action"] or "") and e["step"] > scan[-1]["step"]]
    if not retr:
        return None
    # native roles: the stopper runs on the engine thread (T0), the victim is T1
    return "T0:SCAN_BEGIN,T1:RETRACT,T1:POLL,T0:SCAN_END", c, victim


# --------------------------------------------------------------------------- the checks
def _scenario(funcs, name, spec, K, qname, qargs, block, hostdone, timeout, finding=None):
    b, progs, n, s = base(funcs, spec, K, hostdone)
    q = {"safety": q_safety, "lasso": q_lasso, "interrupt": q_interrupt}[qname]
    extra = q(s, progs, n, *qargs)
    for bl in block:
        extra += "\n" + BLOCKS[bl](s, progs, n)
    res, vals, dt, text = solve(s, extra, timeout)
    tr = mirbmc.decode_schedule(s, vals) if res == "sat" else None
    nvars = len(s.all_vars()) * (K + 1)
    return {"name": name, "res": res, "dt": dt, "trace": tr, "vals": vals if res != "sat" else {k: v for k, v in vals.items() if k == "J"},
            "K": K, "threads": len(progs), "states": nvars, "transitions": s.n_trans * K, "assumptions": sorted(b.assumptions),
            "encoded": sorted(b.encoded), "smt_bytes": len(text), "block": block, "spec": spec, "smt": text, "finding": finding}


def run_scenarios(funcs, scen, timeout, workers=6):
    from concurrent.futures import ThreadPoolExecutor
    out = {}
    with ThreadPoolExecutor(max_workers=workers) as ex:
        futs = {name: ex.submit(_scenario, funcs, name, *args[:6], (args[7] if len(args) > 7 and args[7] else timeout), args[6] if len(args) > 6 else None) for name, args in scen.items()}
        for name, f in futs.items():
            try:
                out[name] = f.result()
            except mirbmc.ExtractionError as e:
                out[name] = {"name": name, "res": "extraction-error", "error": str(e), "dt": 0}
    return out


def check(pid, tier, seed, plan):
    """plan: dict(scenarios={name: (spec,K,qname,qargs,block,hostdone)}, finding=<block name>,
    pairs=[(blocked_scenario, unblocked_scenario)], replay=(test, env))"""
    run = core.Run(pid, tier, seed)
    run.assumptions = list(ASSUME)
    try:
        funcs, mir_s, wsdir = dump_mir()
    except Exception as e:
        run.ob("mir-dump", "inconclusive", reason=str(e)[-800:])
        return run
    run.ob("mir-dump", "pass", wall_s=mir_s, engine="rustc nightly -Zunpretty=mir", note="%d functions parsed" % len(funcs), nonvacuous=True)
    timeout = 1500 if tier == "quick" else 5400
    scen = plan["scenarios"][tier]
    results = run_scenarios(funcs, scen, timeout)
    native = NativeSync(wsdir)
    encoded, assum = set(), set()
    states = trans = replayed = 0
    for name, r in results.items():
        common = dict(engine="mir-bmc/z3", wall_s=r.get("dt", 0), solver_s=r.get("dt", 0), solver_checks=1)
        if r["res"] == "extraction-error":
            run.ob(name, "inconclusive", reason="model extraction failed on this tree: " + r["error"][:500], **common)
            continue
        encoded |= set(r["encoded"])
        assum |= set(r["assumptions"])
        states += r["states"]
        trans += r["transitions"]
        blocked = bool(r["block"])
        # only a scenario that is DESIGNATED to exhibit a listed finding may be attributed to it;
        # a schedule found anywhere else is a violation of its own
        fname = r.get("finding")
        fkey = KF[fname] if fname else "sync:%s" % re.sub(r"[^a-z0-9]+", "-", name.lower()).strip("-")
        if r["res"] == "unsat":
            run.ob(name, "pass", nonvacuous=True, note="unsat: no schedule of <= %d steps, %d threads%s" % (r["K"], r["threads"], " (listed finding's pattern excluded)" if (blocked and fname) else ""), **common)
            continue
        if r["res"] != "sat":
            run.ob(name, "inconclusive", reason="solver answered %s" % r["res"], **common)
            continue
        # satisfiable: a counterexample schedule
        sched = fmt_schedule(r["trace"])
        run.samples.append({"scenario": name, "threads": r["spec"], "K": r["K"], "schedule": sched[:60]})
        try:
            cands = plan["replay"](r)
            if isinstance(cands, tuple):
                cands = [cands]
            tried = []
            for test, env in cands:
                ok, observed, events = native.run(test, env)
                tried.append("%s: %s" % (test, observed))
                if ok:
                    break
            if not ok and len(tried) > 1:
                observed = " | ".join(tried)
        except Exception as e:
            ok, observed, events = False, "replay machinery failed: %s" % str(e)[-400:], ""
        if ok:
            replayed += 1
        payload = {"property": pid, "scenario": name, "schedule": sched, "native_test": "harness/sync_replay.rs::" + (test if ok or True else ""),
                   "env": env if 'env' in dir() else {}, "observed": observed, "events": events,
                   "how": "./check %s --replay <this file>" % pid}
        if not ok:
            run.ob(name, "inconclusive", reason="solver schedule not reproduced natively: %s" % observed, **common)
            continue
        key = fkey if not (blocked and fname) else fkey + ":outside-listed-pattern"
        if not blocked and fname and run.is_known(fkey):
            run.known_hit(fkey, run.known[(pid, fkey)] + " -- solver schedule (%d steps) replayed on the real engine: %s" % (len(sched), observed))
            run.ob(name, "known", nonvacuous=True, note="listed finding reproduced natively; the blocked twin decides the rest", **common)
        else:
            d = os.path.join(ws.VERIF, "replays", pid)
            os.makedirs(d, exist_ok=True)
            path = os.path.join(d, re.sub(r"[^A-Za-z0-9_.-]", "_", name) + ".json")
            json.dump(payload, open(path, "w"), indent=1)
            run.violation(key, "%s: %s" % (name, observed), path)
            run.ob(name, "fail", note=observed, **common)
    for op, worker in plan.get("conformance", {}).get(tier, []):
        try:
            if "funcs_h" not in dir():
                funcs_h = dump_mir_hooked()
            conformance(run, native, funcs_h, op, worker)
        except Exception as e:
            run.ob("conformance: %s x %s" % (op, worker), "inconclusive", reason="conformance run failed: %s" % str(e)[-400:], engine="mir-bmc/z3")
    if tier == "thorough" and results:
        # cross-check one encoding with cvc5
        name0 = sorted(results)[0]
        r0 = results[name0]
        if r0.get("smt"):
            res2, _, dt2 = mirbmc.run_z3(r0["smt"], [], 1200, solver="cvc5")
            if res2 in ("sat", "unsat") and res2 != r0["res"]:
                run.ob("cvc5-crosscheck:" + name0, "inconclusive", reason="z3 says %s, cvc5 says %s" % (r0["res"], res2), wall_s=dt2)
            else:
                run.ob("cvc5-crosscheck:" + name0, "pass", note="cvc5: %s (z3: %s)" % (res2, r0["res"]), wall_s=dt2, nonvacuous=(res2 == r0["res"]))
    run.functions = sorted(encoded)
    run.assumptions += sorted(assum)
    run.bounds = {"threads": "2 (quick) / up to 3 (thorough)", "scheduler_steps_K": {n: r.get("K") for n, r in results.items()},
                  "steps": "one step = one shared access (registry-iteration bookkeeping fused into the preceding step)"}
    run.extra.update({"states": max(states, 1), "transitions": max(trans, 1), "traces_validated_against_impl": replayed})
    return run


def replay(pid, path):
    payload = json.load(open(path))
    funcs, mir_s, wsdir = dump_mir("replay")
    native = NativeSync(wsdir)
    test = payload["native_test"].split("::")[-1]
    ok, observed, events = native.run(test, payload.get("env", {}))
    print("events:", events)
    print("observed:", observed)
    if ok:
        print("VIOLATION property=%s replay=%s" % (pid, path))
        return 1
    print("not reproduced on this tree")
    return 0


# --------------------------------------------------------------------------- conformance (DESIGN 3.5)
HOOK_NAMES = {"1": "RETRACT", "2": "SCAN_BEGIN", "3": "SCAN_END", "4": "POLL", "5": "STOP_BEGIN", "6": "RESUME_END", "7": "SPIN", "8": "INTERRUPT_MID"}
SILENT = {"POLL", "SPIN", "INTERRUPT_MID"}


def dump_mir_hooked(tag="mirh"):
    """The same dump with --cfg steel_verif: the hook calls become observable `hook` nodes.  Used
    only for the conformance obligations; every verdict comes from the dump WITHOUT the cfg."""
    wsdir = ws.prepare(tag, [])
    root = os.path.dirname(wsdir)
    out = os.path.join(root, "steel_core_hooked.mir")
    env = dict(os.environ, CARGO_NET_OFFLINE="true")
    env.pop("RUSTFLAGS", None)
    with open(out, "w") as f, open(os.path.join(root, "mirh.err"), "w") as e:
        p = subprocess.run(["cargo", "+nightly", "rustc", "--offline", "-p", "steel-core", "--lib", "--no-default-features",
                            "--features", ws.FEATURES, "--target-dir", os.path.join(root, "tmirh"), "--",
                            "-Zunpretty=mir", "-C", "debug-assertions=off", "--cfg", "steel_verif"], cwd=wsdir, stdout=f, stderr=e, env=env)
    if p.returncode != 0 or os.path.getsize(out) < 1000000:
        raise mirbmc.ExtractionError("hooked MIR dump failed: " + open(os.path.join(root, "mirh.err")).read()[-1500:])
    return mir.parse(open(out).read(), lambda n: any(p in n for p in PAT) and ("vm.rs" in n or "closed.rs" in n or "engine.rs" in n or "threads.rs" in n or "impl at" not in n))


def parse_traces(out):
    """TRACE lines of harness/sync_replay.rs::conformance_trace -> list of [(thread index, hook name)],
    each cut to the window STOP_BEGIN .. RESUME_END of the stopping thread (= thread 0)."""
    traces = []
    for line in re.findall(r"TRACE: (.*)", out):
        ev = [x.split("|") for x in line.strip().split(",") if x]
        stop = [i for i, e in enumerate(ev) if e[1] == "STOP_BEGIN"]
        if not stop:
            continue
        t0 = ev[stop[0]][0]
        end = [i for i, e in enumerate(ev) if e[1] == "RESUME_END" and e[0] == t0 and i > stop[0]]
        if not end:
            continue
        win = ev[stop[0]:end[0] + 1]
        others = sorted({e[0] for e in win if e[0] != t0})
        if len(others) > 1:
            continue
        idx = {t0: 0}
        if others:
            idx[others[0]] = 1
        traces.append([(idx[e[0]], e[1]) for e in win])
    return traces


def conformance(run, native, funcs_h, op, worker, rounds=16, K=92, max_traces=3):
    """Every trace the real engine produces has to be a run of the extracted automata."""
    name = "conformance: real %s x %s-loop traces are runs of the model" % (op, worker)
    t0 = time.time()
    try:
        b = native.build()
        p = subprocess.run([b, "conformance_trace", "--exact", "--nocapture", "--test-threads", "1"],
                           env=dict(os.environ, VERIF_CONF_OP={"set": "set", "gc": "gc"}[op], VERIF_CONF_WORKER=worker, VERIF_CONF_ROUNDS=str(rounds)),
                           capture_output=True, text=True, timeout=240)
        traces = parse_traces(p.stdout + p.stderr)
    except Exception as e:
        run.ob(name, "inconclusive", reason="trace recording failed: %s" % str(e)[-300:], engine="mir-bmc/z3")
        return
    distinct = []
    for t in traces:
        if t not in distinct:
            distinct.append(t)
    if not distinct:
        run.ob(name, "inconclusive", reason="no trace recorded: " + (p.stdout + p.stderr)[-300:], engine="mir-bmc/z3")
        return
    rejected, solver_s, unknown, skipped, checked = [], 0.0, 0, 0, 0
    distinct.sort(key=len)
    for tr in distinct:
        tr_ids = [(t, h) for t, h in tr if h not in SILENT]
        n1 = sum(1 for t, h in tr_ids if t == 1)
        if len(tr_ids) > 12 or checked >= max_traces:
            skipped += 1
            continue
        checked += 1
        # the other thread's program: one free slot (user step / primitive call / nothing) per
        # event it emitted in the window, plus two
        spec = [("script", [op]), ("script", ["any"] * (n1 + 2))]
        Kt = K + 10 * n1
        bld, progs, n = mirbmc.build_system(funcs_h, spec)
        for pr in progs:
            for nd in pr.nodes.values():
                if nd.k == "hook":
                    nd.a["id"] = HOOK_NAMES.get(nd.a["id"], nd.a["id"])
        s = mirbmc.Smt(progs, n, Kt, trace=tr_ids, silent=SILENT)
        s.declare()
        s.init()
        s.transitions("false")
        extra = "(assert (= pos_%d %s))" % (Kt, mirbmc.bv(len(tr_ids), 8))
        res, vals, dt, text = solve(s, extra, 900, want_values=False)
        solver_s += dt
        if res == "unsat":
            rejected.append(tr)
        elif res != "sat":
            unknown += 1
    common = dict(engine="mir-bmc/z3", wall_s=time.time() - t0, solver_s=round(solver_s, 1), solver_checks=len(distinct))
    run.samples.append({"conformance": name, "recorded": len(traces), "distinct": len(distinct), "example": ["T%d:%s" % e for e in distinct[0]][:24]})
    if unknown and not rejected and checked > unknown:
        # a query that does not finish says nothing either way: it is reported, not counted
        skipped += unknown
        unknown = 0
    if rejected:
        run.ob(name, "inconclusive", reason="the model does NOT admit a trace of the real engine (translator or role model wrong): %s" % " ".join("T%d:%s" % e for e in rejected[0])[:600], **common)
    elif unknown:
        run.ob(name, "inconclusive", reason="%d conformance queries undecided" % unknown, **common)
    else:
        run.ob(name, "pass", nonvacuous=True, note="%d recorded windows, %d distinct, %d checked (shortest first), all accepted by the automata (K = %d + 10 per event of the second thread)%s" % (len(traces), len(distinct), checked, K, "; %d longer ones not checked" % skipped if skipped else ""), **common)
    return len(distinct)
