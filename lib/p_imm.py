"""E3k (part of C10): a number LITERAL that the code generator packs into a 24-bit instruction payload fits it.

`(+ x N)`, `(- x N)`, `(<= x N)` with `x` a local variable and `N` an integer literal are compiled (in builds without
the native tier) to ADDIMMEDIATE / SUBIMMEDIATE / LTEIMMEDIATE followed by a PASS instruction whose 24-bit payload IS
the literal; `u24::from_usize` keeps the three low bytes (a `debug_assert` checks the fourth).  Read from the MIR of the
compiler (`compiler::code_gen`, `compiler::program`): every call of `LabeledInstruction::payload` / `u24::from_usize`
/ `u24::from_u32` whose operand is computed from the integer payload of a literal token (`.. as Int).0 as Small).0`);
the branch conditions on the way that compare THAT value with constants are interpreted, every other branch is free.
Query (z3, QF_BV, the literal is a 64-bit variable; rank-encoded reachability so that every model is a path):
exists a literal v that reaches the site with (v as usize) >= 2^24.  sat = a literal that is silently reduced modulo
2^24 (or trips the debug assertion); the replay compiles and runs `(define (f x) (+ x v)) (f 1)` on the engine."""
import re, subprocess, time
import mir

SITE = re.compile(r"(LabeledInstruction::payload|u24::from_usize|u24::from_u32)$")
LIT = re.compile(r"as Small\)\.0: isize\)")
OPS = {"Lt": "bvslt", "Le": "bvsle", "Gt": "bvsgt", "Ge": "bvsge", "Eq": "=", "Ne": "distinct"}


def _norm(o):
    return re.sub(r"\s+", " ", o)


def _lit_core(o):
    """the sub-expression that denotes the literal's integer payload (up to the `as Small).0: isize)`), or None"""
    m = LIT.search(o)
    if not m:
        return None
    # walk back to the matching opening parenthesis of `(... as Small).0: isize)`
    end = m.end()
    depth = 0
    for i in range(end - 1, -1, -1):
        if o[i] == ")":
            depth += 1
        elif o[i] == "(":
            depth -= 1
            if depth == 0:
                return o[i:end]
    return None


def _const_value(o):
    """value of a constant expression as the compiler leaves it in unoptimised MIR: `const N_ty`,
    `Shl(const a, const b)`, `Add/Sub/Mul(c1, c2)` (possibly wrapped in move/copy and parentheses), else None"""
    o = o.strip()
    while True:
        m = re.fullmatch(r"(?:move|copy) (.*)", o)
        if m:
            o = m.group(1).strip()
            continue
        if o.startswith("(") and o.endswith(")"):
            d, ok = 0, True
            for i, ch in enumerate(o):
                if ch == "(":
                    d += 1
                elif ch == ")":
                    d -= 1
                    if d == 0 and i != len(o) - 1:
                        ok = False
                        break
            if ok:
                o = o[1:-1].strip()
                continue
        break
    m = re.fullmatch(r"const (-?\d+)_[iu](?:size|8|16|32|64|128)", o)
    if m:
        return int(m.group(1))
    m = re.fullmatch(r"(Shl|Shr|Add|Sub|Mul)\((.*)\)", o)
    if m:
        # split the two operands at the top-level comma
        d, parts, cur = 0, [], ""
        for ch in m.group(2):
            if ch == "(":
                d += 1
            elif ch == ")":
                d -= 1
            if ch == "," and d == 0:
                parts.append(cur)
                cur = ""
            else:
                cur += ch
        parts.append(cur)
        if len(parts) != 2:
            return None
        a, b = _const_value(parts[0]), _const_value(parts[1])
        if a is None or b is None:
            return None
        return {"Shl": a << b, "Shr": a >> b, "Add": a + b, "Sub": a - b, "Mul": a * b}[m.group(1)]
    return None


def _strip_parens(o):
    o = o.strip()
    while True:
        m = re.fullmatch(r"(?:move|copy) (.*)", o)
        if m:
            o = m.group(1).strip()
            continue
        if o.startswith("(") and o.endswith(")"):
            d, ok = 0, True
            for k, ch in enumerate(o):
                if ch == "(":
                    d += 1
                elif ch == ")":
                    d -= 1
                    if d == 0 and k != len(o) - 1:
                        ok = False
                        break
            if ok:
                o = o[1:-1].strip()
                continue
        return o


def _split2(body):
    d, parts, cur = 0, [], ""
    for ch in body:
        if ch in "(<[":
            d += 1
        elif ch in ")>]":
            d -= 1
        if ch == "," and d == 0:
            parts.append(cur)
            cur = ""
        else:
            cur += ch
    parts.append(cur)
    return [x.strip() for x in parts]


def _cond(f, t, core):
    """branch conditions of a switch on a comparison of the literal with a constant -> [(target, smt or None)]"""
    o = _strip_parens(_norm(mir.origin(f, t["on"])))
    rel = None
    m = re.fullmatch(r"(Lt|Le|Gt|Ge|Eq|Ne)\((.*)\)", o)
    if m and core in m.group(2):
        parts = _split2(m.group(2))
        if len(parts) == 2:
            op = m.group(1)
            a, b = parts
            if core in a and core not in b:
                cv = _const_value(b)
            elif core in b and core not in a:
                cv = _const_value(a)
                op = {"Lt": "Gt", "Le": "Ge", "Gt": "Lt", "Ge": "Le", "Eq": "Eq", "Ne": "Ne"}[op]
            else:
                cv = None
            if cv is not None:
                rel = "(%s v (_ bv%d 64))" % (OPS[op], cv & ((1 << 64) - 1))
            elif "const" in m.group(2):
                raise ValueError("comparison of the literal with a constant expression that is not understood: %s" % m.group(2)[-100:])
    out = []
    vals = []
    for val, tgt in t["targets"]:
        out.append((tgt, None if rel is None else (rel if val != 0 else "(not %s)" % rel)))
        vals.append(val)
    if t["otherwise"] is not None:
        c = None
        if rel is not None:
            c = "(and true %s)" % " ".join(("(not %s)" % rel) if x == 1 else rel for x in vals)
        out.append((t["otherwise"], c))
    return out


def check_site(f, bb, core, timeout=30):
    blocks = sorted(n for n, b in f.blocks.items() if not b.cleanup)
    preds = {}
    for n in blocks:
        t = f.blocks[n].term
        if t["kind"] in ("goto", "drop", "call") and "to" in t:
            preds.setdefault(t["to"], []).append((n, None))
        elif t["kind"] == "switch":
            for tgt, c in _cond(f, t, core):
                preds.setdefault(tgt, []).append((n, c))
    lines = ["(set-logic QF_BV)", "(declare-const v (_ BitVec 64))"]
    for n in blocks:
        lines.append("(declare-const r%d Bool)(declare-const d%d (_ BitVec 16))" % (n, n))
    lines.append("(assert r0)(assert (= d0 (_ bv0 16)))")
    for n in blocks:
        if n == 0:
            continue
        alts = ["(and r%d (bvult d%d d%d) %s)" % (s, s, n, c or "true") for s, c in preds.get(n, []) if s in f.blocks and not f.blocks[s].cleanup]
        lines.append("(assert (=> r%d (or false %s)))" % (n, " ".join(alts)))
    lines.append("(assert r%d)" % bb)
    base = "\n".join(lines) + "\n"
    t0 = time.time()
    # reachable at all? (vacuity witness)
    p = subprocess.run(["z3", "-in", "-T:%d" % timeout], input=base + "(check-sat)\n", capture_output=True, text=True)
    wit = p.stdout.strip().split("\n")[0] if p.stdout.strip() else "error"
    q = base + "(assert (bvuge v (_ bv%d 64)))\n(check-sat)\n" % (1 << 24)
    p = subprocess.run(["z3", "-in", "-T:%d" % timeout], input=q, capture_output=True, text=True)
    res = p.stdout.strip().split("\n")[0] if p.stdout.strip() else "error"
    if "(error" in p.stdout or res not in ("sat", "unsat"):
        res = "error"
    v = None
    if res == "sat":
        # a small literal that does not fit, for a readable replay: try 2^24 itself first
        for extra in ("(assert (= v (_ bv%d 64)))\n" % (1 << 24), "(assert (bvsgt v (_ bv0 64)))\n(assert (bvult v (_ bv%d 64)))\n" % (1 << 32), ""):
            p = subprocess.run(["z3", "-in", "-T:%d" % timeout], input=q.replace("(check-sat)\n", "") + extra + "(check-sat)\n(get-value (v))\n", capture_output=True, text=True)
            m = re.search(r"#x([0-9a-f]{16})", p.stdout)
            if p.stdout.startswith("sat") and m:
                v = int(m.group(1), 16)
                break
    return {"res": res, "witness": wit, "literal": v, "dt": time.time() - t0}


def analyse(mir_text):
    funcs = mir.parse(mir_text, lambda n: n.startswith("compiler::") or "code_gen" in n or "program::" in n)
    out = {"sites_total": 0, "literal_sites": [], "errors": []}
    for key, f in funcs.items():
        for n, b in sorted(f.blocks.items()):
            t = b.term
            if b.cleanup or t.get("kind") != "call" or not SITE.search(t["callee"]) or not t["args"]:
                continue
            out["sites_total"] += 1
            o = _norm(mir.origin(f, t["args"][-1]))
            core = _lit_core(o)
            if core is None:
                continue
            try:
                r = check_site(f, n, core)
            except Exception as ex:
                out["errors"].append("%s bb%d: %s" % (f.name[-40:], n, str(ex)[:100]))
                continue
            r.update({"function": f.name.split("::")[-1], "bb": n, "callee": t["callee"].split("::")[-1]})
            out["literal_sites"].append(r)
    return out
