"""Generic E1 flow for value kernels in steel-core: run Kani harnesses, extract counterexamples
through their negation covers, replay natively with Kani's concrete playback (which runs the
REAL code: stubs are not applied in playback), classify against known findings."""
import os, re, json, shutil, subprocess, time
import ws, kani, core

LIB_ATTRS = {"steel-core": ["#![cfg_attr(kani, feature(allocator_api))]"]}


class Spec:
    """rel: file under crates/ that gets the harness module appended; harness: file under
    /verif/harness; mod: module name."""

    def __init__(self, crate, rel, harness, mod, features=True):
        self.crate, self.rel, self.harness, self.mod, self.features = crate, rel, harness, mod, features

    @property
    def modpath(self):
        return ws.modpath(self.rel, self.mod)


PRELUDE = """
// ---- inserted by lib/p_kani.py ----
// Kani de-duplicates concrete playbacks with identical values; a tag that every counterexample
// cover pins to its own number keeps each playback distinct.  It is the FIRST kani::any().
pub static mut VERIF_TAG: u16 = 0;
#[allow(dead_code)]
fn tag_init() {
    unsafe { VERIF_TAG = kani::any() };
}
// ---- end ----
"""


def expand_vasserts(src):
    """`vassert!(cond, "msg");` -> a cover of the negation ("CEX:msg", carries the counterexample:
    Kani always emits a concrete playback for a satisfied cover) followed by the assertion."""
    n = [0]

    def rep(m):
        n[0] += 1
        ind, cond, msg = m.group(1), m.group(2), m.group(3)
        return '%skani::cover!(!(%s) && unsafe { VERIF_TAG } == %d, "CEX:%s");\n%sassert!(%s, "%s");' % (ind, cond, n[0], msg, ind, cond, msg)

    out = re.sub(r'^( *)vassert!\((.*), "([^"]*)"\);$', rep, src, flags=re.M)
    if "vassert!(" in out:
        bad = [l for l in out.split("\n") if "vassert!(" in l][:3]
        raise RuntimeError("unexpanded vassert (must be on one line): %s" % bad)
    out = out.replace("use super::*;", "use super::*;" + PRELUDE, 1)
    return out


def prepare(tag, specs):
    """scratch copy with PRIVATE copies of the harness files (playback tests get appended there)"""
    root = os.path.join(ws.scratch(), tag)
    hdir = os.path.join(root, "harness")
    os.makedirs(hdir, exist_ok=True)
    inj = []
    for sp in specs:
        dst = os.path.join(hdir, os.path.basename(sp.harness))
        with open(dst, "w") as f:
            f.write(expand_vasserts(open(os.path.join(ws.VERIF, "harness", sp.harness)).read()))
        sp.copy = dst
        inj.append((sp.rel, dst, sp.mod, "kani"))
    wsdir = ws.prepare(tag, inj, lib_attrs=LIB_ATTRS)
    return wsdir


def playback_tests(log_text):
    """-> {cover/assert description: test source}"""
    out = {}
    for b in re.split(r"Concrete playback unit test for", log_text)[1:]:
        m = re.search(r"Check for `(?:assertion|cover)`: \"+(.*?)\"+\n", b)
        t = re.search(r"(#\[test\]\nfn (kani_concrete_playback_\w+)\(\) \{.*?\n\})", b, re.S)
        if m and t:
            out[m.group(1)] = (t.group(2), t.group(1))
    return out


def decode_vals(test_src):
    vals = []
    for vm in re.finditer(r"// (.*)\n\s*vec!\[([0-9, ]*)\],", test_src):
        bs = [int(x) for x in vm.group(2).split(",") if x.strip()]
        vals.append({"bytes": len(bs), "unsigned": int.from_bytes(bytes(bs), "little"),
                     "signed": int.from_bytes(bytes(bs), "little", signed=True), "shown": vm.group(1)})
    return vals


def native_playback(wsdir, sp, test_name, test_src, release=False):
    """append the playback test to the private harness copy and run it natively"""
    with open(sp.copy, "a") as f:
        f.write("\n" + test_src + "\n")
    cmd = ["cargo", "kani", "playback", "-Z", "concrete-playback", "-p", sp.crate]
    if sp.features:
        cmd += ["--no-default-features", "--features", ws.FEATURES]
    cmd += ["--", test_name]
    env = dict(os.environ, CARGO_NET_OFFLINE="true")
    out = ""
    for attempt in range(2):
        try:
            p = subprocess.run(cmd, cwd=wsdir, env=env, capture_output=True, text=True, timeout=1500)
        except subprocess.TimeoutExpired:
            return None, "native playback timed out"
        out = p.stdout + p.stderr
        # a build that was killed under memory pressure ("build failed" without a compiler error) is retried once
        if "test result:" in out or "panicked at" in out or re.search(r"^error(\[E\d+\])?:", out, re.M):
            break
    if re.search(r"test result: FAILED|panicked at", out):
        m = re.search(r"panicked at ([^\n]*)\n([^\n]*)", out)
        return True, (m.group(1) + ": " + m.group(2)) if m else "playback test failed"
    if "test result: ok" in out:
        return False, "playback passed natively"
    return None, "playback did not run: " + out[-500:]


def check(pid, tier, seed, specs, plan, functions, bounds, assumptions, rule, slots=3, timeout=None, describe=None):
    """plan: list of dicts {h: harness, spec: index, known: {key: masked_twin}?, note?}"""
    run = core.Run(pid, tier, seed)
    run.functions, run.bounds, run.assumptions = functions, bounds, assumptions
    wsdir = prepare(pid.lower(), specs)
    root = os.path.dirname(wsdir)
    logdir = os.path.join(root, "logs")
    timeout = timeout or (1500 if tier == "quick" else 3000)
    jobs = []
    for item in plan:
        jobs.append((item["h"], item))
        for key, twin in (item.get("known") or {}).items():
            if run.is_known(key):
                jobs.append((twin, dict(item, h=twin, masked_for=key, known=None)))
    # group by spec (crate/modpath)
    res = {}
    by_spec = {}
    for h, item in jobs:
        by_spec.setdefault(item.get("spec", 0), []).append(h)
    def run_spec(si_hs):
        si, hs = si_hs
        sp = specs[si]
        kw = dict(no_default=True, features=ws.FEATURES) if sp.features else {}
        return kani.run_many(wsdir, sp.crate, hs, logdir, os.path.join(root, "tk%d" % si), timeout, slots=min(slots, len(hs)),
                             modpath=sp.modpath, warm=True, **kw)

    # harness families (specs) have their own target directories: run them side by side
    from concurrent.futures import ThreadPoolExecutor
    with ThreadPoolExecutor(max_workers=max(1, len(by_spec))) as ex:
        for r in ex.map(run_spec, list(by_spec.items())):
            res.update(r)
    for h, item in jobs:
        r = res[h]
        sp = specs[item.get("spec", 0)]
        common = dict(engine="kani-incrate", wall_s=r["wall_s"], solver_s=r.get("verif_time_s"),
                      solver_checks=r.get("summary_total", r["n_checks"]), covers_total=len(r["covers"]),
                      covers_satisfied=sum(1 for v in r["covers"].values() if v == "SATISFIED"))
        if r["covers"]:
            run.samples.append({"harness": h, "branches_witnessed": sorted(k for k, v in r["covers"].items() if v == "SATISFIED"),
                                "symbolic": item.get("sym", "")})
        vac = [d for d, v in r["covers"].items() if v != "SATISFIED"]
        if r["status"] == "pass":
            if vac:
                run.ob(h, "inconclusive", reason="vacuous: cover not satisfied: %s" % vac, **common)
            else:
                run.ob(h, "pass", nonvacuous=True, **common)
            continue
        if r["status"] == "inconclusive":
            run.ob(h, "inconclusive", reason=(r["reason"] or "") + (": " + r.get("compile_error", "") if r.get("compile_error") else ""), **common)
            continue
        # failed: get a concrete assignment and replay it on the real code
        try:
            st, info = _replay_failure(run, r, wsdir, sp, h, item, logdir, root)
        except Exception as e:
            st, info = "inconclusive", "replay machinery failed: %s" % str(e)[-500:]
        if st == "inconclusive":
            run.ob(h, "inconclusive", reason=info, **common)
            continue
        key, what, payload = info
        twin_exists = key in (item.get("known") or {})
        if run.is_known(key) and twin_exists:
            run.known_hit(key, run.known[(pid, key)] + " -- reproduced natively: " + payload["observed"] + " with " + payload["input"])
            run.ob(h, "known", nonvacuous=True, note="known finding %s reproduced natively; masked twin decides the rest" % key, **common)
        else:
            d = os.path.join(ws.VERIF, "replays", pid)
            os.makedirs(d, exist_ok=True)
            path = os.path.join(d, re.sub(r"[^A-Za-z0-9_.-]", "_", key) + ".json")
            json.dump(payload, open(path, "w"), indent=1)
            run.violation(key, what, path)
            run.ob(h, "fail", note=what, **common)
    return run


def _replay_failure(run, r, wsdir, sp, h, item, logdir, root):
    # Kani switches CBMC's formula slicing off for concrete playback, which can turn a 40 s query into one that
    # does not finish; the first attempt re-enables it (a value sliced away is irrelevant to the failed check; if the
    # sliced playback does not reproduce natively, the unsliced run is the fall-back)
    st, info = _replay_failure_with(run, r, wsdir, sp, h, item, logdir, root, ["-Z", "unstable-options", "--cbmc-args", "--slice-formula"], 1200)
    if st == "inconclusive":
        st2, info2 = _replay_failure_with(run, r, wsdir, sp, h, item, logdir, root, [], 1800)
        if st2 != "inconclusive":
            return st2, info2
    return st, info


def _replay_failure_with(run, r, wsdir, sp, h, item, logdir, root, cbmc_extra, cap):
    descs = [f["desc"] for f in r["failed"]]
    kw = dict(no_default=True, features=ws.FEATURES) if sp.features else {}
    r2 = kani.run(wsdir, sp.crate, h, logdir + "/cex", os.path.join(root, "tk%d" % item.get("spec", 0), "t0"), cap,
                  extra=["-Z", "concrete-playback", "--concrete-playback=print"] + cbmc_extra, modpath=sp.modpath, **kw)
    tests = playback_tests(open(r2["log"], errors="replace").read())
    # prefer the playback of a failed assertion / its CEX cover
    chosen = None
    for d in descs:
        for k in (d, "CEX:" + d):
            if k in tests:
                chosen = (d, tests[k])
                break
        if chosen:
            break
    if not chosen:
        # panics inside the code under test (overflow, unwrap): Kani emits the playback under the check's own description
        for k, v in tests.items():
            if not k.startswith("CEX:") and k not in r["covers"]:
                chosen = (k, v)
                break
    if not chosen:
        return "inconclusive", "no concrete playback for failed checks %s" % descs[:3]
    desc, (tname, tsrc) = chosen
    vals = decode_vals(tsrc)
    ok, observed = native_playback(wsdir, sp, tname, tsrc)
    inp = ", ".join(v["shown"] for v in vals)
    if ok is None:
        return "inconclusive", "counterexample (%s) could not be run natively: %s" % (inp, observed)
    if not ok:
        return "inconclusive", "counterexample (%s) does not reproduce natively: %s" % (inp, observed)
    key = None
    for k, pat in (item.get("classify") or {}).items():
        if re.search(pat, desc + " " + observed):
            key = k
            break
    if key is None:
        key = "%s:%s" % (h.split("__kf_")[0], re.sub(r"[^a-z0-9]+", "-", desc.lower()).strip("-")[:60])
    payload = {"property": run.pid, "key": key, "harness": h, "failed_check": desc, "input": inp, "values": vals,
               "observed": observed, "playback_test": tsrc, "spec": {"crate": sp.crate, "rel": sp.rel, "harness": sp.harness, "mod": sp.mod, "features": sp.features},
               "how": "./check %s --replay <this file>" % run.pid}
    return "fail", (key, "%s: input (%s); natively: %s" % (desc, inp, observed), payload)


def replay(pid, path):
    payload = json.load(open(path))
    s = payload["spec"]
    sp = Spec(s["crate"], s["rel"], s["harness"], s["mod"], s["features"])
    wsdir = prepare("replay", [sp])
    m = re.search(r"fn (kani_concrete_playback_\w+)", payload["playback_test"])
    ok, observed = native_playback(wsdir, sp, m.group(1), payload["playback_test"])
    print("input:", payload["input"])
    print("observed:", observed)
    if ok:
        print("VIOLATION property=%s replay=%s" % (pid, path))
        return 1
    print("not reproduced on this tree")
    return 0
