"""E3o (part of C03 and C11): a primitive does the same thing whichever of its operands happens to be uniquely referenced.

The collection primitives reuse storage when an operand is the only reference (`Gc::get_mut`), so one primitive has up to
four arms -- (shared, shared), (shared, unique), (unique, shared), (unique, unique) -- that must compute the SAME function.
For an order-sensitive library call (`union`, `relative_complement`, `difference`, `append`, ...) that means: in every arm
the receiver derives from the same parameter and the argument from the other one.  Read from the MIR of the
script-callable procedures: every call with two operands that derive from two DIFFERENT parameters of the procedure
(tuple projections are reduced, so `match (get_mut(l), get_mut(r))` bindings resolve to their side); the sites are
grouped by procedure and callee.  Query (z3; two site indices are the symbolic variables): exists two sites of the same
group whose role assignment (which parameter is the receiver) differs.  The replay calls the procedure on a left and a
right collection with an overlapping key under the four sharing patterns (operand held by a global or fresh) and compares
the four answers."""
import re, subprocess, time, collections
import mir


def _match_open(s, close):
    d = 0
    for i in range(close, -1, -1):
        if s[i] == ")":
            d += 1
        elif s[i] == "(":
            d -= 1
            if d == 0:
                return i
    return -1


def _split_top(s):
    d, parts, cur = 0, [], ""
    for ch in s:
        if ch in "([{<":
            d += 1
        elif ch in ")]}>":
            d -= 1
        if ch == "," and d == 0:
            parts.append(cur)
            cur = ""
        else:
            cur += ch
    parts.append(cur)
    return parts


def _strip(o):
    o = o.strip()
    while True:
        m = re.fullmatch(r"(?:move|copy|no_retag copy|no_retag move) (.*)", o, re.S)
        if m:
            o = m.group(1).strip()
            continue
        if o.startswith("(") and o.endswith(")") and _match_open(o, len(o) - 1) == 0:
            o = o[1:-1].strip()
            continue
        return o


def reduce_tuples(o, limit=200):
    """`((A, B)).0` -> `A`, `((A, B)).1` -> `B`, repeatedly"""
    for _ in range(limit):
        changed = False
        for m in re.finditer(r"\)\.([01])(?![0-9])", o):
            close = m.start()
            op = _match_open(o, close)
            if op < 0:
                continue
            inner = _strip(o[op:close + 1])
            parts = _split_top(inner)
            if len(parts) == 2 and "->" not in inner[:0]:
                rep = "(" + parts[int(m.group(1))].strip() + ")"
                o = o[:op] + rep + o[m.end():]
                changed = True
                break
        if not changed:
            return o
    return o


def side(f, a):
    o = reduce_tuples(re.sub(r"\s+", " ", mir.origin(f, a)))
    ps = {p for p in re.findall(r"(?<![\w.])(_\d+)\b", o) if p in f.argtypes}
    return next(iter(ps)) if len(ps) == 1 else None


def sites(funcs):
    groups = collections.defaultdict(list)
    for key, f in funcs.items():
        if len(f.argtypes) < 2:
            continue
        for n, b in sorted(f.blocks.items()):
            t = b.term
            if b.cleanup or t.get("kind") != "call" or len(t["args"]) < 2:
                continue
            callee = re.sub(r"<.*>", "", t["callee"])
            if re.search(r"(::eq|::ne|::partial_cmp|::cmp|ptr_eq)$", callee):
                continue
            s0, s1 = side(f, t["args"][0]), side(f, t["args"][1])
            if s0 and s1 and s0 != s1:
                groups[(f.name.split("::")[-1], callee.split("::")[-1] or callee[-20:], key)].append({"bb": n, "recv": s0, "arg": s1})
    return groups


def analyse(funcs):
    t0 = time.time()
    groups = sites(funcs)
    multi = {k: v for k, v in groups.items() if len(v) > 1}
    bad, queries, errors = [], 0, []
    for (fn, callee, _), ss in sorted(multi.items()):
        # role(i) = 0 if the receiver is the procedure's first such parameter
        ps = sorted({s["recv"] for s in ss} | {s["arg"] for s in ss})
        tbl = "(_ bv9 8)"
        for i, s in enumerate(ss):
            tbl_i = ps.index(s["recv"])
            tbl = "(ite (= X (_ bv%d 8)) (_ bv%d 8) %s)" % (i, tbl_i, tbl)
        q = "(set-logic QF_BV)\n(declare-const i (_ BitVec 8))\n(declare-const j (_ BitVec 8))\n(assert (bvult i (_ bv%d 8)))\n(assert (bvult j (_ bv%d 8)))\n(assert (distinct %s %s))\n(check-sat)\n" % (
            len(ss), len(ss), tbl.replace("X", "i"), tbl.replace("X", "j"))
        p = subprocess.run(["z3", "-in", "-T:30"], input=q, capture_output=True, text=True)
        queries += 1
        r = p.stdout.strip().split("\n")[0] if p.stdout.strip() else "error"
        if "(error" in p.stdout or r not in ("sat", "unsat"):
            errors.append("%s/%s: solver error" % (fn, callee))
        elif r == "sat":
            bad.append({"function": fn, "callee": callee, "sites": ss})
    return {"groups": len(groups), "multi_site_groups": [(k[0], k[1], len(v)) for k, v in sorted(multi.items())], "bad": bad, "errors": errors, "queries": queries, "dt": time.time() - t0}
