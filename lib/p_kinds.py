"""E3c (part of C07 and C10): "whatever KINDS of values a script passes to a built-in procedure, no
explicit panic of the procedure is reached" -- the kind of every argument is a symbolic variable.

Scope: the registered built-in procedures (p_bounds.registered) plus the binary / unary numeric
kernels they fold over (`add_two`, `multiply_two`, `negate`, ...: functions of primitives/numbers.rs
whose parameters are all `&SteelVal`).  The MIR of each is read from the nightly dump.  Panic sites
are the blocks that end in a diverging call of the panic family (`panic!`, `unreachable!`, `todo!`,
`unimplemented!`, `panic_fmt`).  For every site all acyclic control-flow paths from the entry are
collected; a path is kept only if EVERY branch on it is one of

  * a comparison of the argument count with a constant (as in E3b),
  * a `switchInt` on `discriminant(*a)` where `a` is a `&SteelVal` parameter, a field of a tuple of
    such parameters, or `&args[i]` with a constant `i`,
  * a `switchInt` on the integer payload `((*a) as IntV).0` of such an argument;

paths through any other branch are not interpreted (they are counted, and are outside the claim).
One QF_BV query per function: count (64 bit), one kind variable (8 bit, constrained to the variants
of `SteelVal` read from rvals.rs) and one integer payload (64 bit) per argument position.  sat = a
call shape that reaches a panic; it is replayed through a script call under catch_unwind."""
import os, re, subprocess, time
import mir

PANIC_CALLEE = re.compile(r"(^|::)(panic|panic_fmt|panic_display|panic_explicit|panic_nounwind|unreachable_display|begin_panic|panic_str|panic_const::\w+)(::<.*>)?$")


def variants(repo_src):
    """SteelVal variant names in declaration order (= discriminant values)"""
    txt = open(os.path.join(repo_src, "rvals.rs")).read()
    m = re.search(r"pub enum SteelVal \{(.*?)\n\}", txt, re.S)
    names = []
    depth = 0
    for line in m.group(1).split("\n"):
        s = line.strip()
        if not s or s.startswith("//") or s.startswith("#["):
            continue
        if depth == 0:
            mm = re.match(r"([A-Z][A-Za-z0-9]*)\s*(\(|,|\{|$)", s)
            if mm:
                names.append(mm.group(1))
        depth += s.count("(") + s.count("{") - s.count(")") - s.count("}")
    return names


def _def1(f, local):
    ds = f.defs.get(local)
    if ds and len(set(ds)) == 1:
        return ds[0]
    return None


def resolve_arg(f, place, P, depth=0):
    """place: MIR expression denoting a `&SteelVal` (or a deref of one).  -> ('p', '_k') for a
    `&SteelVal` parameter, ('s', i) for `&args[i]`, or None."""
    if depth > 10:
        return None
    e = place.strip()
    e = re.sub(r"^(move|copy|no_retag copy|no_retag move|deref_copy)\s+", "", e)
    while e.startswith("(") and e.endswith(")") and _balanced(e[1:-1]):
        e = e[1:-1].strip()
        e = re.sub(r"^(move|copy|no_retag copy|no_retag move|deref_copy)\s+", "", e)
    m = re.fullmatch(r"\*(_\d+)", e)
    if m:
        return resolve_arg(f, m.group(1), P, depth + 1)
    m = re.fullmatch(r"&\(\*(_\d+)\)\[(_\d+|const \d+_usize)\]", e) or re.fullmatch(r"&\(\*(_\d+)\)\[(\d+) of \d+\]", e)
    if m and P and m.group(1) == P:
        idx = m.group(2)
        if idx.startswith("_"):
            d = _def1(f, idx)
            mm = d and re.fullmatch(r"const (\d+)_usize", d.strip())
            if not mm:
                return None
            return ("s", int(mm.group(1)))
        mm = re.search(r"(\d+)", idx)
        return ("s", int(mm.group(1)))
    m = re.fullmatch(r"&\(\*(_\d+)\)", e)  # reborrow
    if m:
        return resolve_arg(f, m.group(1), P, depth + 1)
    m = re.fullmatch(r"_\d+", e)
    if m:
        t = f.argtypes.get(e)
        if t is not None:
            if re.fullmatch(r"&(?:mut )?(?:rvals::)?SteelVal", t.strip()):
                return ("p", e)
            return None
        d = _def1(f, e)
        if d is None:
            return None
        return resolve_arg(f, d, P, depth + 1)
    m = re.fullmatch(r"\((_\d+)\.(\d+): &(?:mut )?(?:rvals::)?SteelVal\)", e) or re.fullmatch(r"(_\d+)\.(\d+): &(?:mut )?(?:rvals::)?SteelVal", e)
    if m:
        d = _def1(f, m.group(1))
        if d is None:
            return None
        d = d.strip()
        if d.startswith("(") and d.endswith(")"):
            fields = mir._split_top(d[1:-1])
            k = int(m.group(2))
            if k < len(fields):
                return resolve_arg(f, fields[k], P, depth + 1)
        return None
    return None


def _balanced(s):
    d = 0
    for ch in s:
        if ch in "([":
            d += 1
        elif ch in ")]":
            d -= 1
            if d < 0:
                return False
    return d == 0


def argname(a):
    if a[0] == "g":
        return "_u%s" % a[1][1:]
    return "p%s" % a[1][1:] if a[0] == "p" else "s%d" % a[1]


def switch_conds(f, t, P, count_cond):
    """-> list of (target, cond) with cond an SMT string, or None when the switch is not interpreted"""
    on = t["on"].strip()
    # 1. argument count
    try:
        rel = count_cond(f, t["on"], P) if P else None
    except ValueError:
        return None
    vals = [v for v, _ in t["targets"]]
    if P:
        o = mir.origin(f, on)
        if re.match(r"^\(*PtrMetadata\(copy %s\)\)*$" % P, o):
            res = [(tgt, "(= len (_ bv%d 64))" % v) for v, tgt in t["targets"]]
            if t["otherwise"] is not None:
                res.append((t["otherwise"], "(and true %s)" % " ".join("(distinct len (_ bv%d 64))" % v for v in vals)))
            return res
    if rel is not None:
        res = [(tgt, rel if v != 0 else "(not %s)" % rel) for v, tgt in t["targets"]]
        if t["otherwise"] is not None:
            res.append((t["otherwise"], "(and true %s)" % " ".join(("(not %s)" % rel) if v == 1 else rel for v in vals)))
        return res
    # 2. discriminant of an argument
    d = _def1(f, re.sub(r"^(move|copy)\s+", "", on)) if re.fullmatch(r"(move |copy )?_\d+", on) else None
    if d:
        m = re.fullmatch(r"discriminant\((.*)\)", d.strip())
        if m:
            a = resolve_arg(f, m.group(1), P)
            if a is None:
                # the uniqueness test of a reference-counted value: whether the value is shared is the
                # script's choice (it can keep a second reference), so the outcome is a free variable
                loc = re.sub(r"^(move|copy)\s+", "", m.group(1).strip())
                dd = _def1(f, loc) if re.fullmatch(r"_\d+", loc) else None
                if dd and re.match(r"^(?:gc::)?Gc::<.*>::(get_mut|try_unwrap)\(", dd.strip()):
                    a = ("g", loc)
                else:
                    return None
            var = ("g" if a[0] == "g" else "k_") + argname(a)
            res = [(tgt, "(= %s (_ bv%d 8))" % (var, v)) for v, tgt in t["targets"]]
            if t["otherwise"] is not None:
                res.append((t["otherwise"], "(and true %s)" % " ".join("(distinct %s (_ bv%d 8))" % (var, v) for v in vals)))
            return [(tgt, c, a) for tgt, c in res]
    # 3. integer payload of an argument
    m = re.fullmatch(r"(?:copy |move )?\(\(\((.*)\) as IntV\)\.0: isize\)", on)
    if m:
        a = resolve_arg(f, m.group(1), P)
        if a is None:
            return None
        var = "v_" + argname(a)
        res = [(tgt, "(= %s (_ bv%d 64))" % (var, v)) for v, tgt in t["targets"]]
        if t["otherwise"] is not None:
            res.append((t["otherwise"], "(and true %s)" % " ".join("(distinct %s (_ bv%d 64))" % (var, v) for v in vals)))
        return [(tgt, c, a) for tgt, c in res]
    return None


def panic_sites(f):
    out = []
    for b in f.blocks.values():
        t = b.term
        if b.cleanup:
            continue
        if t.get("kind") == "dead" and t.get("callee") and PANIC_CALLEE.search(t["callee"].strip()):
            raw = b.stmts and "" or ""
            out.append(b.n)
    return out


def paths_to(f, target, P, count_cond, limit=4000):
    """-> (interpreted paths [(conds, args)], number of paths dropped because of an uninterpreted branch)"""
    res, dropped = [], 0
    stack = [(0, [], frozenset(), frozenset())]
    steps = 0
    while stack:
        steps += 1
        if steps > 200000:
            raise ValueError("path exploration too large")
        bb, conds, seen, args = stack.pop()
        if bb == target:
            res.append((conds, args))
            if len(res) > limit:
                raise ValueError("too many paths")
            continue
        if bb in seen:
            continue
        b = f.blocks[bb]
        if b.cleanup:
            continue
        t = b.term
        seen2 = seen | {bb}
        if t["kind"] in ("goto", "drop", "call"):
            if "to" in t:
                stack.append((t["to"], conds, seen2, args))
        elif t["kind"] == "switch":
            sc = switch_conds(f, t, P, count_cond)
            if sc is None:
                # not interpreted: does the target lie behind it at all?  (counted once per switch met)
                if _reaches(f, bb, target):
                    dropped += 1
                continue
            for item in sc:
                if len(item) == 3:
                    tgt, c, a = item
                    stack.append((tgt, conds + [c], seen2, args | {a}))
                else:
                    tgt, c = item
                    stack.append((tgt, conds + [c], seen2, args))
    return res, dropped


_reach_cache = {}


def _reaches(f, src, target):
    key = (id(f), src)
    if key not in _reach_cache:
        seen, st = set(), [src]
        while st:
            x = st.pop()
            if x in seen:
                continue
            seen.add(x)
            t = f.blocks[x].term
            if t["kind"] in ("goto", "drop", "call") and "to" in t:
                st.append(t["to"])
            elif t["kind"] == "switch":
                st.extend(tg for _, tg in t["targets"])
                if t["otherwise"] is not None:
                    st.append(t["otherwise"])
        _reach_cache[key] = seen
    return target in _reach_cache[key]


def slice_param(f):
    for a, t in f.argtypes.items():
        if re.fullmatch(r"&(?:mut )?\[(?:rvals::)?SteelVal\]", t.strip()):
            return a
    return None


def check_fn(key, f, nvariants, count_cond, timeout=60, kinds=None):
    """kinds: optional list of discriminant values every argument is restricted to (the documented
    precondition of an internal kernel, e.g. 'both operands are numbers')"""
    P = slice_param(f)
    refs = [a for a, t in f.argtypes.items() if re.fullmatch(r"&(?:mut )?(?:rvals::)?SteelVal", t.strip())]
    if P is None and not refs:
        return {"name": key, "res": "skip"}
    sites = panic_sites(f)
    if not sites:
        return {"name": key, "res": "none", "sites": 0, "dropped": 0}
    alts, used, dropped = [], set(), 0
    site_of = []
    for s in sites:
        ps, d = paths_to(f, s, P, count_cond)
        dropped += d
        for conds, args in ps:
            alts.append("(and true %s)" % " ".join(conds))
            site_of.append(s)
            used |= set(args)
    if not alts:
        return {"name": key, "res": "none", "sites": len(sites), "dropped": dropped}
    decl = ["(set-logic QF_BV)", "(declare-const len (_ BitVec 64))"]
    for a in sorted(used, key=str):
        n = argname(a)
        if a[0] == "g":
            decl.append("(declare-const g%s (_ BitVec 8))" % n)
            decl.append("(assert (bvult g%s (_ bv2 8)))" % n)   # Option / Result discriminant: 0 = None / Ok, 1 = Some / Err
            continue
        decl.append("(declare-const k_%s (_ BitVec 8))" % n)
        decl.append("(declare-const v_%s (_ BitVec 64))" % n)
        decl.append("(assert (bvult k_%s (_ bv%d 8)))" % (n, nvariants))
        if kinds:
            decl.append("(assert (or %s))" % " ".join("(= k_%s (_ bv%d 8))" % (n, k) for k in kinds))
        if a[0] == "s":
            decl.append("(assert (bvugt len (_ bv%d 64)))" % a[1])   # args[i] exists on the path (bounds are E3b's subject)
    base = "\n".join(decl) + "\n(assert (or false %s))\n" % " ".join(alts)
    t0 = time.time()
    p = subprocess.run(["z3", "-in", "-T:%d" % timeout], input=base + "(check-sat)\n", capture_output=True, text=True)
    out = p.stdout.strip().split("\n")
    res = out[0] if out and out[0] in ("sat", "unsat") and "(error" not in p.stdout else "error"
    model = {}
    if res == "sat":
        real = [a for a in sorted(used, key=str) if a[0] != "g"]
        names = ["len"] + ["k_" + argname(a) for a in real] + ["v_" + argname(a) for a in real] + ["g" + argname(a) for a in sorted(used, key=str) if a[0] == "g"]
        small = "(assert (bvule len (_ bv6 64)))\n"
        for extra in (small, ""):
            p2 = subprocess.run(["z3", "-in", "-T:%d" % timeout], input=base + extra + "(check-sat)\n(get-value (%s))\n" % " ".join(names), capture_output=True, text=True)
            if p2.stdout.startswith("sat"):
                for nm, hx in re.findall(r"\((\w+) #x([0-9a-f]+)\)", p2.stdout):
                    model[nm] = int(hx, 16)
                break
    return {"name": key, "res": res, "sites": len(sites), "paths": len(alts), "dropped": dropped, "model": model,
            "args": sorted(argname(a) for a in used), "dt": time.time() - t0, "params": refs, "slice": P,
            "uniqueness_tests": sorted(a[1] for a in used if a[0] == "g")}
