"""E3i (part of C20): the lending protocol of the `register_fn` wrappers that hand a script a reference DERIVED
from a lent host reference (`Fn(&mut SELF) -> &mut RET`, `Fn(&mut SELF) -> &RET`, `Fn(&mut SELF, ARG) -> &RET`,
for `Engine` and for `BuiltInModule`).

The run-time protocol ("a host reference lent to a script cannot be used after the call ends, even if the script
stored it", "later uses report an error") rests on three facts per wrapper, all of which are facts about the
control-flow paths of the wrapper closure and are read from its MIR:

  marked   on every path to the hand-out (`ReadOnlyBorrowedObject::new(weak, count)` /
           `BorrowedObject::new(weak).with_parent_flag(flag)`) the parent has been marked as borrowed:
           `increment_borrow_flag(&count)` resp. `Atomic<bool>::store(&flag, true)` on the SAME flag object;
  owned    on every such path the only strong owner of the derived pointer has been parked in the nursery
           (`OpaqueReferenceNursery::allocate`), which is emptied when the lending call ends -- the script only
           ever gets the weak pointer;
  parent   the flag that is marked is the one of the argument the reference was derived from (`args[i]` of
           `as_mut_ref_from_ref(&args[i])` == `args[i]` of `get_borrow_*_if_borrowed_object(&args[i])`).

Encoding (one QF_BV query per wrapper and fact): a boolean `r_b` and a 16-bit rank `d_b` per basic block;
`r_entry`, `d_entry = 0`; `r_b -> OR over predecessors p that do not establish the fact: r_p and d_p < d_b and
cond(p -> b)`, where `cond` is the relation on the 64-bit argument count when the branch tests it and `true`
otherwise (all other branches are free); the query asserts `r_site`.  The ranks make every model an acyclic
path, so sat = a concrete path (and argument count) that reaches the hand-out without the fact; unsat = none
exists.  Cleanup (unwind) blocks are not entered."""
import re, subprocess, time
import mir, p_bounds

HANDOUT_RO = re.compile(r"(^|::)ReadOnlyBorrowedObject::<.*>::new$")
HANDOUT_RW = re.compile(r"(^|::)BorrowedObject::<.*>::with_parent_flag$")
INCR = re.compile(r"(^|::)increment_borrow_flag$")
STORE = re.compile(r"(^|::)Atomic(Bool)?(::<bool>)?::store$")
NURSERY = re.compile(r"(^|::)OpaqueReferenceNursery::allocate$")
GETFLAG = re.compile(r"get_borrow_(flag|count)_if_borrowed_object")
RECV = re.compile(r"as_(mut_)?ref_from_ref")


def _base_local(f, expr, depth=0):
    """follow moves / copies / reborrows / Deref::deref / unwrap back to the local that first held the object"""
    e = expr.strip()
    for _ in range(20):
        e = re.sub(r"^(move|copy)\s+", "", e).strip()
        m = re.fullmatch(r"&(?:mut )?\(?\*?(_\d+)\)?", e) or re.fullmatch(r"\(?\*?(_\d+)\)?", e)
        if not m:
            return None
        l = m.group(1)
        ds = f.defs.get(l)
        if not ds or len(set(ds)) != 1:
            return l
        d = ds[0].strip()
        mm = re.fullmatch(r"(?:move|copy) (_\d+)", d) or re.fullmatch(r"&(?:mut )?\(?\*?(_\d+)\)?", d)
        if mm:
            e = mm.group(1)
            continue
        mm = re.match(r"^<.* as Deref>::deref\((.*)\)$", d) or re.match(r"^<.* as std::ops::Deref>::deref\((.*)\)$", d)
        if mm:
            e = mm.group(1)
            continue
        return l
    return None


def _arg_index(f, local, P):
    """`local` was produced by `X(&args[i])` possibly through `unwrap`/`?`: -> i or None"""
    o = mir.origin(f, local)
    m = re.search(r"&\(\*%s\)\[\(?(?:const (\d+)_usize|_\d+)\)?\]" % re.escape(P), o)
    if not m:
        return None
    if m.group(1) is not None:
        return int(m.group(1))
    return None


def sites(f):
    """-> list of dict(bb, kind 'ro'|'rw', flag local)"""
    out = []
    for b in f.blocks.values():
        t = b.term
        if t.get("kind") != "call":
            continue
        if HANDOUT_RO.search(t["callee"]) and len(t["args"]) == 2:
            out.append({"bb": b.n, "kind": "ro", "flag": _base_local(f, t["args"][1])})
        elif HANDOUT_RW.search(t["callee"]) and len(t["args"]) == 2:
            out.append({"bb": b.n, "kind": "rw", "flag": _base_local(f, t["args"][1])})
    return out


def establishing(f, site, fact):
    """blocks whose call establishes `fact` for `site`"""
    bl = set()
    for b in f.blocks.values():
        t = b.term
        if t.get("kind") != "call":
            continue
        if fact == "owned" and NURSERY.search(t["callee"]):
            bl.add(b.n)
        elif fact == "marked":
            if site["kind"] == "ro" and INCR.search(t["callee"]) and t["args"] and _base_local(f, t["args"][0]) == site["flag"]:
                bl.add(b.n)
            if site["kind"] == "rw" and STORE.search(t["callee"]) and len(t["args"]) >= 2 and t["args"][1].strip() == "const true" \
                    and _base_local(f, t["args"][0]) == site["flag"]:
                bl.add(b.n)
    return bl


def edges(f, P):
    """-> list of (src, dst, cond-or-None) over non-cleanup blocks"""
    es = []
    for b in f.blocks.values():
        if b.cleanup:
            continue
        t = b.term
        if t["kind"] in ("goto", "drop", "call"):
            if "to" in t:
                es.append((b.n, t["to"], None))
        elif t["kind"] == "switch":
            for tgt, c in p_bounds.switch_conds(f, t, P):
                es.append((b.n, tgt, c))
    return es


def query(f, P, site_bb, blockers, timeout=60):
    es = [e for e in edges(f, P) if e[0] not in blockers]
    preds = {}
    for s, d, c in es:
        preds.setdefault(d, []).append((s, c))
    blocks = sorted(n for n, b in f.blocks.items() if not b.cleanup)
    lines = ["(set-logic QF_BV)", "(declare-const len (_ BitVec 64))"]
    for n in blocks:
        lines.append("(declare-const r%d Bool)" % n)
        lines.append("(declare-const d%d (_ BitVec 16))" % n)
    lines.append("(assert r0)")
    lines.append("(assert (= d0 (_ bv0 16)))")
    for n in blocks:
        if n == 0:
            continue
        alts = ["(and r%d (bvult d%d d%d) %s)" % (s, s, n, c or "true") for s, c in preds.get(n, []) if s in f.blocks and not f.blocks[s].cleanup]
        lines.append("(assert (=> r%d (or false %s)))" % (n, " ".join(alts)))
    lines.append("(assert r%d)" % site_bb)
    lines.append("(check-sat)")
    lines.append("(get-value (len %s))" % " ".join("r%d d%d" % (n, n) for n in blocks))
    t0 = time.time()
    p = subprocess.run(["z3", "-in", "-T:%d" % timeout], input="\n".join(lines) + "\n", capture_output=True, text=True)
    first = p.stdout.strip().split("\n")[0] if p.stdout.strip() else ""
    if first == "unsat":
        return {"res": "unsat", "dt": time.time() - t0}
    if first != "sat" or "(error" in p.stdout.split("\n", 1)[0]:
        return {"res": "error", "dt": time.time() - t0, "raw": p.stdout[:200]}
    vals = dict(re.findall(r"\((r\d+|d\d+|len) (true|false|#x[0-9a-f]+)\)", p.stdout))
    path = sorted((int(vals["d%d" % n][2:], 16), n) for n in blocks if vals.get("r%d" % n) == "true")
    # the chosen path: walk back from the site along decreasing ranks
    return {"res": "sat", "dt": time.time() - t0, "len": int(vals["len"][2:], 16) if "len" in vals else None,
            "reached": [n for _, n in path]}


def analyse(mir_text):
    """-> dict(wrappers=[...], queries=n, solver_s, bad=[...], errors=[...])"""
    funcs = mir.parse(mir_text, lambda n: "register_fn" in n and n.endswith("::{closure#0}") and "{closure#0}::{closure" not in n)
    res = {"wrappers": [], "queries": 0, "solver_s": 0.0, "bad": [], "errors": []}
    for key, f in funcs.items():
        ss = sites(f)
        if not ss:
            continue
        P = p_bounds.slice_param(f)
        if P is None:
            res["errors"].append("%s: hands out a derived reference but has no argument slice" % f.name[-70:])
            continue
        m = re.search(r"register_fn\.rs:(\d+):", f.name)
        where = "register_fn.rs:%s" % (m.group(1) if m else "?")
        for s in ss:
            w = {"where": where, "kind": s["kind"], "site_bb": s["bb"], "facts": {}}
            if s["flag"] is None:
                res["errors"].append("%s: flag operand of the hand-out not resolved" % where)
                continue
            for fact in ("marked", "owned"):
                bl = establishing(f, s, fact)
                try:
                    q = query(f, P, s["bb"], bl)
                except ValueError as ex:
                    res["errors"].append("%s: %s" % (where, str(ex)[:120]))
                    continue
                res["queries"] += 1
                res["solver_s"] += q["dt"]
                w["facts"][fact] = {"establishing_blocks": sorted(bl), "res": q["res"]}
                if q["res"] == "sat":
                    res["bad"].append({"where": where, "kind": s["kind"], "fact": fact, "count": q.get("len"), "path_blocks": q.get("reached", [])[:40]})
                elif q["res"] != "unsat":
                    res["errors"].append("%s %s: solver %s" % (where, fact, q.get("raw", "")[:80]))
            # parent: the marked flag belongs to the argument the receiver was converted from
            fi = _arg_index(f, s["flag"], P)
            ri = None
            for b in f.blocks.values():
                t = b.term
                if t.get("kind") == "call" and RECV.search(t["callee"]) and t["args"]:
                    ri = _arg_index(f, t["args"][0], P) if re.fullmatch(r"(move |copy )?_\d+", t["args"][0].strip()) else None
                    if ri is None:
                        mm = re.search(r"\[\(?const (\d+)_usize", mir.origin(f, t["args"][0]))
                        ri = int(mm.group(1)) if mm else None
                    break
            w["facts"]["parent"] = {"flag_of_argument": fi, "receiver_argument": ri}
            if fi is None or ri is None:
                res["errors"].append("%s: argument index of the flag / of the receiver not resolved (%s / %s)" % (where, fi, ri))
            else:
                # one more (trivial) solver obligation keeps the verdict uniform: exists i: i == flag index and i != receiver index
                p = subprocess.run(["z3", "-in"], input="(declare-const i Int)(assert (= i %d))(assert (distinct i %d))(check-sat)\n" % (fi, ri), capture_output=True, text=True)
                res["queries"] += 1
                if p.stdout.strip() == "sat":
                    res["bad"].append({"where": where, "kind": s["kind"], "fact": "parent", "flag_of_argument": fi, "receiver_argument": ri})
                elif p.stdout.strip() != "unsat":
                    res["errors"].append("%s parent: solver %s" % (where, p.stdout[:80]))
            res["wrappers"].append(w)
    return res
