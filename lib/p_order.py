"""E3e (part of C04): every full marking starts from cleared mark bits.

`reachable` is both the "slot is in use" bit of the allocator and the marker's "already visited" flag
(mark_heap_reference / mark_heap_vector return early on a slot that is already marked).  A marking pass that
starts while one of the two free lists still carries the marks of the previous pass treats live slots of that
list as visited and never looks inside them.  Rule decided here, on the MIR of the real functions: in every
function that calls `Heap::mark_and_sweep_new`, each such call is DOMINATED by a call of
`FreeList<SteelVal>::mark_all_unreachable` and by a call of `FreeList<Vec<SteelVal>>::mark_all_unreachable`.

Encoding: one Boolean r_b per basic block ("b is reachable from the entry along a path that has not yet executed
the reset call") with an integer-free ranking (bit-vector rank per block) so that reachability is the least
fixpoint; the query `r_c` for the block c of the marking call is sat iff a path reaches the marking without
the reset.  z3 decides; a model is decoded into the block path."""
import re, subprocess, time
import mir

MARK = re.compile(r"(^|::)Heap::mark_and_sweep_new(::<.*>)?$")
RESETS = {"box slots (FreeList<SteelVal>)": re.compile(r"FreeList::<(?:rvals::)?SteelVal>::mark_all_unreachable$"),
          "vector slots (FreeList<Vec<SteelVal>>)": re.compile(r"FreeList::<(?:std::vec::)?Vec<(?:rvals::)?SteelVal>>::mark_all_unreachable$")}


def _succ(t):
    if t["kind"] in ("goto", "drop", "call") and "to" in t:
        return [t["to"]]
    if t["kind"] == "switch":
        return [x for _, x in t["targets"]] + ([t["otherwise"]] if t["otherwise"] is not None else [])
    return []


def query(f, target, reset_rx, timeout=60):
    """is block `target` reachable from bb0 without passing a block whose terminator calls reset_rx?"""
    blocks = [b for b in f.blocks.values() if not b.cleanup]
    ids = {b.n for b in blocks}
    preds = {b.n: [] for b in blocks}
    stop = set()
    for b in blocks:
        t = b.term
        if t.get("kind") == "call" and reset_rx.search(t["callee"].strip()):
            stop.add(b.n)
        for s in _succ(t):
            if s in ids:
                preds[s].append(b.n)
    w = max(8, len(blocks).bit_length() + 1)
    q = ["(set-logic QF_BV)"]
    for b in blocks:
        q.append("(declare-const r%d Bool)" % b.n)
        q.append("(declare-const k%d (_ BitVec %d))" % (b.n, w))
    for b in blocks:
        if b.n == 0:
            q.append("(assert r0)")
            continue
        alts = ["(and r%d (bvult k%d k%d))" % (p, p, b.n) for p in preds[b.n] if p not in stop]
        q.append("(assert (=> r%d (or false %s)))" % (b.n, " ".join(alts)))
    q.append("(assert r%d)" % target)
    q.append("(check-sat)")
    t0 = time.time()
    p = subprocess.run(["z3", "-in", "-T:%d" % timeout], input="\n".join(q) + "\n", capture_output=True, text=True)
    res = p.stdout.strip().split("\n")[0] if p.stdout.strip() else "error"
    if "(error" in p.stdout or res not in ("sat", "unsat"):
        res = "error"
    return res, time.time() - t0


def analyse(mir_text):
    funcs = mir.parse(mir_text, lambda n: "closed::" in n or n.split("::")[-1].split("(")[0] in ("value_collection", "vector_collection", "collection", "allocate_vector", "allocate"))
    out = []
    for key, f in funcs.items():
        for b in f.blocks.values():
            t = b.term
            if b.cleanup or t.get("kind") != "call" or not MARK.search(t["callee"].strip()):
                continue
            # vacuity witness: without any reset block the marking call must be reachable
            wres, _ = query(f, b.n, re.compile(r"$^"))
            for what, rx in RESETS.items():
                res, dt = query(f, b.n, rx)
                out.append({"function": f.name, "block": b.n, "reset": what, "res": res, "dt": dt, "witness": wres})
    return out


# E3e' (part of C19): the global-slot recycler does not treat its own candidates as roots.
# `GlobalSlotRecycler::recycle` decides which shadowed global slots can be handed out again by walking everything
# reachable from the global roots EXCEPT the candidates themselves; a candidate that is queued as a root keeps itself
# (and every other shadowed definition it mentions) alive for ever.  Rule, on the MIR of the real function: every
# `push_back` of a value taken from the roots slice is preceded, on every path, by the membership test of its index
# in the candidate set (`HashSet::<usize>::contains`).
PUSH = re.compile(r"(::|^)push_back(::<.*>)?$")
CONTAINS = re.compile(r"HashSet::<.*>::contains(::<.*>)?$")


def analyse_recycle(mir_text):
    funcs = mir.parse(mir_text, lambda n: n.endswith("::recycle"))
    f = None
    for g in funcs.values():
        if "GlobalSlotRecycler" in g.args_s:
            f = g
    if f is None:
        raise ValueError("GlobalSlotRecycler::recycle not found in the MIR dump")
    out = []
    for b in f.blocks.values():
        t = b.term
        if b.cleanup or t.get("kind") != "call" or not PUSH.search(t["callee"].strip()) or len(t["args"]) < 2:
            continue
        o = mir.origin(f, t["args"][1])
        if "slice::Iter<'_, " not in o and "Enumerate<" not in o:
            continue  # not a value taken from the roots slice
        wres, _ = query(f, b.n, re.compile(r"$^"))
        res, dt = query(f, b.n, CONTAINS)
        out.append({"function": f.name, "block": b.n, "res": res, "witness": wres, "dt": dt})
    return out


# E3q (part of C17): delivering an interrupt does not clear the request.
# The interpreter's poll `VmCore::safepoint_or_interrupt` reads the controller's state; in the `Interrupted` arm it raises the
# error.  If that arm (or anything it calls directly) also WRITES the controller -- `ThreadStateController::resume`, a store to
# the state cell or to the `paused` flag -- the request is one-shot: a script that catches the error in a handler and carries
# on is never stopped.  Only the host's `resume()` may clear it.
CTRL_WRITE = re.compile(r"(ThreadStateController::(resume|suspend|pause_for_safepoint)|AtomicCell::<(?:steel_vm::vm::|vm::)?ThreadState>::store|Atomic::<bool>::store)$")


def analyse_poll(mir_text, variants=("Running", "Interrupted", "Suspended", "PausedAtSafepoint")):
    funcs = mir.parse(mir_text, lambda n: n.endswith("::safepoint_or_interrupt"))
    f = None
    for g in funcs.values():
        if "VmCore" in g.args_s:
            f = g
    if f is None:
        raise ValueError("VmCore::safepoint_or_interrupt not found in the MIR dump")
    arm = None
    for b in f.blocks.values():
        t = b.term
        if b.cleanup or t.get("kind") != "switch":
            continue
        o = mir.origin(f, t["on"])
        if "discriminant(" in o and "ThreadState" in o and "::load" in o:
            arm = dict(t["targets"]).get(variants.index("Interrupted"))
    if arm is None:
        raise ValueError("no switch on the loaded ThreadState with an arm for Interrupted")
    blocks = [b for b in f.blocks.values() if not b.cleanup]
    ids = {b.n for b in blocks}
    preds = {b.n: [] for b in blocks}
    writes = []
    for b in blocks:
        t = b.term
        if t.get("kind") == "call" and CTRL_WRITE.search(re.sub(r"\s+", "", t["callee"].strip()).replace("crossbeam_utils::atomic::", "")):
            writes.append(b.n)
        for s in _succ(t):
            if s in ids:
                preds[s].append(b.n)
    q = ["(set-logic QF_BV)"]
    for b in blocks:
        q.append("(declare-const r%d Bool)(declare-const k%d (_ BitVec 16))" % (b.n, b.n))
    q.append("(assert r%d)" % arm)
    for b in blocks:
        if b.n == arm:
            continue
        alts = ["(and r%d (bvult k%d k%d))" % (p, p, b.n) for p in preds[b.n]]
        q.append("(assert (=> r%d (or false %s)))" % (b.n, " ".join(alts)))
    t0 = time.time()
    # vacuity witness: the arm reaches a return
    rets = [b.n for b in blocks if b.term["kind"] == "return"]
    p = subprocess.run(["z3", "-in", "-T:30"], input="\n".join(q + ["(assert (or false %s))" % " ".join("r%d" % n for n in rets), "(check-sat)"]) + "\n", capture_output=True, text=True)
    wit = p.stdout.strip().split("\n")[0] if p.stdout.strip() else "error"
    p = subprocess.run(["z3", "-in", "-T:30"], input="\n".join(q + ["(assert (or false %s))" % " ".join("r%d" % n for n in writes), "(check-sat)"]) + "\n", capture_output=True, text=True)
    res = p.stdout.strip().split("\n")[0] if p.stdout.strip() else "error"
    if "(error" in p.stdout or res not in ("sat", "unsat"):
        res = "error"
    return {"res": res, "witness": wit, "arm": arm, "controller_writes_in_poll": writes, "dt": time.time() - t0}


# E3r (part of C20): a fixed-size host shape is extracted from a script list only after the list's length was tested.
# `<(A, B) as FromSteelVal>::from_steelval` (and any further tuple impl of conversions.rs): every path to the `Ok(..)`
# result passes a branch on a comparison of the list's `len()` with a constant.
def analyse_tuple_len(mir_text):
    funcs = mir.parse(mir_text, lambda n: n.endswith("::from_steelval") and "conversions" in n)
    out = []
    for key, f in funcs.items():
        if not re.search(r"Result<\((?:[A-Z]\w*, )+[A-Z]\w*\), ", f.ret):
            continue
        blocks = [b for b in f.blocks.values() if not b.cleanup]
        ids = {b.n for b in blocks}
        oks = [b.n for b in blocks if any(re.match(r"_0 = .*Result::<.*>::Ok\(", s) for s in b.stmts)]
        lens = []
        for b in blocks:
            t = b.term
            if t.get("kind") == "switch":
                o = mir.origin(f, t["on"])
                if re.search(r"^\(*(Ne|Eq|Lt|Le|Gt|Ge)\(", o.strip()) and "::len(" in o and "const" in o:
                    lens.append(b.n)
        preds = {b.n: [] for b in blocks}
        for b in blocks:
            if b.n in lens:
                continue
            for s in _succ(b.term):
                if s in ids:
                    preds[s].append(b.n)
        q = ["(set-logic QF_BV)"]
        for b in blocks:
            q.append("(declare-const r%d Bool)(declare-const k%d (_ BitVec 16))" % (b.n, b.n))
        q.append("(assert r0)")
        for b in blocks:
            if b.n == 0:
                continue
            alts = ["(and r%d (bvult k%d k%d))" % (p, p, b.n) for p in preds[b.n]]
            q.append("(assert (=> r%d (or false %s)))" % (b.n, " ".join(alts)))
        q.append("(assert (or false %s))" % " ".join("r%d" % n for n in oks))
        q.append("(check-sat)")
        t0 = time.time()
        p = subprocess.run(["z3", "-in", "-T:30"], input="\n".join(q) + "\n", capture_output=True, text=True)
        res = p.stdout.strip().split("\n")[0] if p.stdout.strip() else "error"
        if "(error" in p.stdout or res not in ("sat", "unsat"):
            res = "error"
        out.append({"function": f.name[-70:], "shape": re.search(r"Result<(\([^)]*\))", f.ret).group(1), "ok_blocks": oks, "length_tests": lens, "res": res if oks else "error", "dt": time.time() - t0})
    return out


# E3s (part of C07 / C10): the result of a PARTIAL conversion of a double is not unwrapped.
# `BigDecimal::from_f64`, `BigInt::from_f64`, `BigRational::from_float`, `Ratio::from_f64` answer None for NaN and the
# infinities -- values a script can write down.  In the numeric code of rvals.rs / primitives/numbers.rs no
# `Option::unwrap` / `Option::expect` may be applied to such a result.  The fact is a table (site -> does the unwrapped
# operand derive from a partial conversion of a double); z3 is asked for a site where it does.
PARTIAL_OF_DOUBLE = re.compile(r"(from_f64|from_f32|from_float)(::<[^()]*>)?\(")
UNWRAP = re.compile(r"Option::<.*>::(unwrap|expect)$")


def analyse_partial_unwrap(mir_text):
    funcs = mir.parse(mir_text, lambda n: n.startswith("rvals::") or n.startswith("primitives::numbers") or "partial_cmp" in n or "number_equality" in n)
    sites = []
    for key, f in funcs.items():
        for b in f.blocks.values():
            t = b.term
            if b.cleanup or t.get("kind") != "call" or not UNWRAP.search(t["callee"].strip()) or not t["args"]:
                continue
            o = mir.origin(f, t["args"][0])
            sites.append({"function": f.name.split("::")[-1], "bb": b.n, "partial": bool(PARTIAL_OF_DOUBLE.search(o)), "what": re.sub(r"\s+", " ", o)[:120]})
    tbl = "(_ bv0 8)"
    for i, s_ in enumerate(sites):
        tbl = "(ite (= c (_ bv%d 16)) (_ bv%d 8) %s)" % (i, 1 if s_["partial"] else 0, tbl)
    q = "(set-logic QF_BV)\n(declare-const c (_ BitVec 16))\n(assert (bvult c (_ bv%d 16)))\n(assert (= %s (_ bv1 8)))\n(check-sat)\n" % (max(1, len(sites)), tbl)
    t0 = time.time()
    p = subprocess.run(["z3", "-in", "-T:30"], input=q, capture_output=True, text=True)
    res = p.stdout.strip().split("\n")[0] if p.stdout.strip() else "error"
    if "(error" in p.stdout or res not in ("sat", "unsat"):
        res = "error"
    return {"res": res, "sites": len(sites), "bad": [s_ for s_ in sites if s_["partial"]], "dt": time.time() - t0}


# E3t (part of C04): the value that is being stored is a root of the collection its own allocation triggers.
# `Heap::value_collection`, `vector_collection` and `allocate_vector_iter` run a full collection BEFORE the new slot holds
# the value(s); at that moment the value lives only in the primitive's argument.  Fact on the MIR: in each of these
# functions some argument of the call `Heap::mark_and_sweep_new` derives from the parameter that carries the value(s)
# to be stored (the second parameter).
def analyse_alloc_roots(mir_text):
    funcs = mir.parse(mir_text, lambda n: "closed::" in n)
    out = []
    for key, f in funcs.items():
        for b in f.blocks.values():
            t = b.term
            if b.cleanup or t.get("kind") != "call" or not MARK.search(t["callee"].strip()):
                continue
            params = list(f.argtypes)
            if len(params) < 2:
                continue
            stored = params[1]
            derives = [i for i, a in enumerate(t["args"]) if i > 0 and re.search(r"(?<![\w.])%s\b" % re.escape(stored), mir.origin(f, a))]
            out.append({"function": f.name.split("::")[-1], "stored_param": "%s: %s" % (stored, f.argtypes[stored].strip()[:50]), "marking_args_from_it": derives})
    tbl = "(_ bv1 8)"
    for i, s_ in enumerate(out):
        tbl = "(ite (= c (_ bv%d 8)) (_ bv%d 8) %s)" % (i, 1 if s_["marking_args_from_it"] else 0, tbl)
    q = "(set-logic QF_BV)\n(declare-const c (_ BitVec 8))\n(assert (bvult c (_ bv%d 8)))\n(assert (= %s (_ bv0 8)))\n(check-sat)\n" % (max(1, len(out)), tbl)
    t0 = time.time()
    p = subprocess.run(["z3", "-in", "-T:30"], input=q, capture_output=True, text=True)
    res = p.stdout.strip().split("\n")[0] if p.stdout.strip() else "error"
    if "(error" in p.stdout or res not in ("sat", "unsat"):
        res = "error"
    return {"res": res, "sites": out, "bad": [s_ for s_ in out if not s_["marking_args_from_it"]], "dt": time.time() - t0}


# E3u (part of C04): counting free slots does not touch their contents.
# `FreeList::recount` runs after EVERY marking pass, including the recycler's partial one (which marks only what the
# global roots reach: thread-local and host-rooted storage is unmarked at that moment although it is reachable).  It may
# therefore only COUNT: no write access to a slot (`ShareableMut::write`), no `mem::replace` / `mem::take` on its value.
SLOT_WRITE = re.compile(r"(ShareableMut<.*>>::write|RwLock::<.*>::write|(?:^|::)mem::(replace|take|swap)(::<.*>)?)$")


def analyse_recount(mir_text):
    funcs = mir.parse(mir_text, lambda n: n.endswith("::recount") and "closed::" in n)
    out = []
    for key, f in funcs.items():
        if "FreeList" not in f.args_s:
            continue
        writes = [b.n for b in f.blocks.values() if not b.cleanup and b.term.get("kind") == "call" and SLOT_WRITE.search(b.term["callee"].strip())]
        reads = [b.n for b in f.blocks.values() if not b.cleanup and b.term.get("kind") == "call" and re.search(r"is_reachable$", b.term["callee"].strip())]
        out.append({"function": f.name[-60:], "writes": writes, "reads_mark": reads})
    tbl = "(_ bv0 8)"
    for i, s_ in enumerate(out):
        tbl = "(ite (= c (_ bv%d 8)) (_ bv%d 8) %s)" % (i, 1 if s_["writes"] else 0, tbl)
    q = "(set-logic QF_BV)\n(declare-const c (_ BitVec 8))\n(assert (bvult c (_ bv%d 8)))\n(assert (= %s (_ bv1 8)))\n(check-sat)\n" % (max(1, len(out)), tbl)
    t0 = time.time()
    p = subprocess.run(["z3", "-in", "-T:30"], input=q, capture_output=True, text=True)
    res = p.stdout.strip().split("\n")[0] if p.stdout.strip() else "error"
    if "(error" in p.stdout or res not in ("sat", "unsat"):
        res = "error"
    return {"res": res, "impls": out, "dt": time.time() - t0}
